//! Master / worker orchestration, evidence files, replay files, known findings.
//!
//! `run_property` is the `main` of every check: the master plans the units of a property, runs
//! each unit (or each shard of a split unit) in a worker *process* (registry and pg are process-wide
//! statics), merges the results into `evidence/<id>.json` and prints the verdict lines.

use std::collections::BTreeMap;
use std::io::Write;
use std::path::{Path, PathBuf};
use std::process::{Command, Stdio};
use std::sync::Arc;
use std::time::{Duration, Instant};

use serde_json::{json, Value};

use crate::explore::{choices_to_string, explore, Job, JobEnd, JobStats, Violation};
use crate::Choice;

/// Result of a pure enumeration unit (engine E2)
#[derive(Debug, Clone, Default)]
pub struct EnumResult {
    pub states: u64,
    pub transitions: u64,
    pub evaluations: u64,
    pub distinct_nontrivial: u64,
    pub exhaustive: bool,
    pub outcomes: BTreeMap<String, u64>,
    pub samples: Vec<Value>,
    /// violated clauses with the input that violates them
    pub violations: Vec<(String, Value)>,
    pub note: String,
}

pub type EnumFn = Arc<dyn Fn(&EnumCtx) -> EnumResult + Send + Sync>;

pub struct EnumCtx {
    pub shard: (usize, usize),
    pub deadline: Option<Instant>,
    pub known: Vec<String>,
}

pub enum UnitKind {
    Explore(Job),
    Enum(EnumFn),
}

pub struct Unit {
    pub name: String,
    /// number of shards this unit is split into (1 = a single worker)
    pub split: usize,
    pub kind: UnitKind,
    /// run this unit with the sibling executable `<current exe><suffix>` (another build of the
    /// same harness, e.g. with a different cargo feature of the crate under test)
    pub exe_suffix: Option<&'static str>,
}

impl Unit {
    pub fn explore(job: Job) -> Self {
        Unit {
            name: job.name.clone(),
            split: 1,
            kind: UnitKind::Explore(job),
            exe_suffix: None,
        }
    }
    pub fn explore_split(job: Job, split: usize) -> Self {
        Unit {
            name: job.name.clone(),
            split,
            kind: UnitKind::Explore(job),
            exe_suffix: None,
        }
    }
    pub fn enumerate(name: impl Into<String>, split: usize, f: EnumFn) -> Self {
        Unit {
            name: name.into(),
            split,
            kind: UnitKind::Enum(f),
            exe_suffix: None,
        }
    }
}

pub struct Plan {
    pub property: &'static str,
    pub units: Vec<Unit>,
    pub rule: String,
    pub assumptions: Vec<String>,
    pub engine: &'static str,
}

fn verif_root() -> PathBuf {
    std::env::var_os("VERIF_ROOT").map(PathBuf::from).unwrap_or_else(|| PathBuf::from("/verif"))
}

fn stats_json(st: &JobStats) -> Value {
    json!({
        "unit": st.name,
        "bound_completed": st.bound_completed.map(|b| if b == usize::MAX { json!("unbounded") } else { json!(b) }),
        "exhaustive": st.exhaustive,
        "execs": st.execs,
        "execs_total": st.execs_total,
        "nodes": st.nodes,
        "transitions": st.transitions,
        "steps_total": st.steps_total,
        "max_depth": st.max_depth,
        "max_steps": st.max_steps,
        "max_alternatives": st.max_alternatives,
        "outcomes": st.outcomes,
        "outcomes_overflow": st.outcomes_overflow,
        "capped": st.capped,
        "wall_s": st.wall_s,
        "samples": st.samples.iter().map(|s| json!({"schedule": s.choices, "deviations": s.deviations, "outcome": s.outcome, "trace": s.trace})).collect::<Vec<_>>(),
        "replay_checks": st.replay_checks,
        "points_seen": st.points_seen,
        "points_taken": st.points_taken,
        "default_steps": st.default_steps,
        "virtual_ns_max": st.virtual_ns_max,
        "nontrivial_execs": st.nontrivial_execs,
        "sleep_blocked": st.sleep_blocked,
        "por": st.por,
        "known_hits": st.known_hits.iter().map(|(k, v)| (k.clone(), json!({"executions": v.0, "schedule": v.1, "clause": v.2}))).collect::<BTreeMap<_, _>>(),
    })
}

fn choices_json(c: &[Choice]) -> Value {
    Value::Array(c.iter().map(|c| json!([c.chosen, c.n, if c.free { 1 } else { 0 }])).collect())
}

pub fn choices_from_json(v: &Value) -> Vec<Choice> {
    v.as_array()
        .map(|a| {
            a.iter()
                .map(|x| Choice {
                    chosen: x[0].as_u64().unwrap_or(0) as u16,
                    n: x[1].as_u64().unwrap_or(1) as u16,
                    who: u32::MAX - 1,
                    asleep: 0,
                    free: x.get(2).and_then(|f| f.as_u64()).unwrap_or(0) == 1,
                })
                .collect()
        })
        .unwrap_or_default()
}

fn violation_json(v: &Violation) -> Value {
    json!({
        "unit": v.job,
        "kind": v.kind,
        "clauses": v.clauses,
        "deviations": v.deviations,
        "schedule": choices_to_string(&v.choices),
        "choices": choices_json(&v.choices),
        "outcome": v.outcome,
        "trace": v.trace,
        "tasks": v.tasks,
        "hash_seed": v.hash_seed,
    })
}

/// Run one unit in this process and print `RESULT <json>`
fn emit(out_path: &Option<PathBuf>, v: &Value) {
    match out_path {
        Some(p) => {
            if let Err(e) = std::fs::write(p, v.to_string()) {
                eprintln!("cannot write {}: {e}", p.display());
            }
        }
        None => println!("RESULT {v}"),
    }
}

/// child side of `Job::confirm`: run one schedule, report its fingerprint
fn confirm_child(plan: Plan, unit_idx: usize, file: &Path, por: bool, out_path: Option<PathBuf>) -> i32 {
    let Some(unit) = plan.units.into_iter().nth(unit_idx) else {
        emit(&out_path, &json!({"error": format!("no unit {unit_idx}")}));
        return 2;
    };
    let UnitKind::Explore(job) = unit.kind else {
        emit(&out_path, &json!({"error": "not an exploration unit"}));
        return 2;
    };
    let choices = std::fs::read_to_string(file)
        .ok()
        .and_then(|t| serde_json::from_str::<Value>(&t).ok())
        .map(|v| choices_from_json(&v))
        .unwrap_or_default();
    let mut cfg = job.cfg.clone();
    cfg.por = por;
    let r = crate::run_one(&cfg, &job.body, &choices);
    let fp = if r.divergence.is_some() { format!("divergence: {:?}", r.divergence) } else { crate::explore::fingerprint(&r) };
    emit(&out_path, &json!({"fingerprint": fp}));
    // the execution may have been abandoned: leave without running destructors of leaked state
    0
}

fn make_confirm(property: &'static str, tier: String, unit_idx: usize) -> crate::explore::Confirm {
    Arc::new(move |choices: &[Choice], por: bool| {
        let exe = std::env::current_exe().map_err(|e| e.to_string())?;
        let dir = verif_root().join("target").join("units");
        let _ = std::fs::create_dir_all(&dir);
        let base = dir.join(format!("confirm-{}-{}", std::process::id(), unit_idx));
        let inp = base.with_extension("in.json");
        let out = base.with_extension("out.json");
        std::fs::write(&inp, choices_json(choices).to_string()).map_err(|e| e.to_string())?;
        let _ = std::fs::remove_file(&out);
        let mut child = Command::new(exe)
            .arg(property)
            .arg(&tier)
            .arg("--unit")
            .arg(unit_idx.to_string())
            .arg("--confirm")
            .arg(&inp)
            .arg("--por")
            .arg(if por { "1" } else { "0" })
            .arg("--out")
            .arg(&out)
            .stdout(Stdio::null())
            .stderr(Stdio::null())
            .spawn()
            .map_err(|e| e.to_string())?;
        let started = Instant::now();
        loop {
            match child.try_wait() {
                Ok(Some(_)) => break,
                Ok(None) if started.elapsed() > Duration::from_secs(120) => {
                    let _ = child.kill();
                    let _ = child.wait();
                    return Err("confirmation replay did not finish in 120 s".into());
                }
                Ok(None) => std::thread::sleep(Duration::from_millis(5)),
                Err(e) => return Err(e.to_string()),
            }
        }
        let txt = std::fs::read_to_string(&out).map_err(|e| format!("no result from confirmation replay: {e}"))?;
        let _ = std::fs::remove_file(&inp);
        let _ = std::fs::remove_file(&out);
        let v: Value = serde_json::from_str(&txt).map_err(|e| e.to_string())?;
        v["fingerprint"].as_str().map(|s| s.to_string()).ok_or_else(|| format!("bad confirmation result {v}"))
    })
}

fn worker(plan: Plan, tier: &str, unit_idx: usize, shard: (usize, usize), deadline: Option<Instant>, known: Vec<String>, out_path: Option<PathBuf>) -> i32 {
    let property = plan.property;
    let Some(unit) = plan.units.into_iter().nth(unit_idx) else {
        emit(&out_path, &json!({"machinery": format!("no unit {unit_idx}")}));
        return 2;
    };
    let started = Instant::now();
    let out = match unit.kind {
        UnitKind::Explore(mut job) => {
            job.shard = shard;
            job.deadline = deadline;
            job.known = known;
            job.confirm = Some(make_confirm(property, tier.to_string(), unit_idx));
            match explore(&job) {
                JobEnd::Done(st) => json!({"kind": "explore", "stats": stats_json(&st)}),
                JobEnd::Violation(st, v) => json!({"kind": "explore", "stats": stats_json(&st), "violation": violation_json(&v)}),
                JobEnd::Machinery(m) => json!({"machinery": m, "unit": unit.name}),
            }
        }
        UnitKind::Enum(f) => {
            let r = f(&EnumCtx { shard, deadline, known });
            json!({"kind": "enum", "unit": unit.name, "states": r.states, "transitions": r.transitions,
                "evaluations": r.evaluations, "distinct_nontrivial": r.distinct_nontrivial, "exhaustive": r.exhaustive,
                "outcomes": r.outcomes, "samples": r.samples, "note": r.note, "wall_s": started.elapsed().as_secs_f64(),
                "violations": r.violations.iter().map(|(c, i)| json!({"clause": c, "input": i})).collect::<Vec<_>>() })
        }
    };
    let code = if out.get("machinery").is_some() { 2 } else { 0 };
    emit(&out_path, &out);
    code
}

#[derive(Debug, Clone, Default)]
pub struct Known {
    /// signature -> description, for entries with status "known"
    pub known: BTreeMap<String, String>,
}

pub fn load_known(property: &str) -> Known {
    let mut k = Known::default();
    let p = verif_root().join("known_findings.json");
    let Ok(txt) = std::fs::read_to_string(&p) else { return k };
    let Ok(v) = serde_json::from_str::<Value>(&txt) else { return k };
    for f in v["findings"].as_array().cloned().unwrap_or_default() {
        if f["property"].as_str() == Some(property) && f["status"].as_str() == Some("known") {
            if let Some(sig) = f["signature"].as_str() {
                k.known.insert(sig.to_string(), f["what"].as_str().unwrap_or("").to_string());
            }
        }
    }
    k
}

fn short_hash(s: &str) -> String {
    use std::hash::{Hash, Hasher};
    let mut h = std::collections::hash_map::DefaultHasher::new();
    s.hash(&mut h);
    format!("{:012x}", h.finish() & 0xffff_ffff_ffff)
}

/// Entry point of a check binary. `planner(tier)` must be deterministic.
pub fn run_property(args: &[String], planner: &dyn Fn(&str) -> Plan) -> i32 {
    // args: <tier> [--unit i --shard a/b --deadline secs --known s1,s2] | replay <file>
    let tier = args.first().map(|s| s.as_str()).unwrap_or("quick").to_string();
    if tier == "replay" {
        return replay_cmd(args.get(1).map(|s| s.as_str()).unwrap_or(""), planner);
    }
    let tier = std::env::var("VERIF_TIER").ok().filter(|t| t == "quick" || t == "thorough").unwrap_or(tier);
    let mut unit_idx = None;
    let mut shard = (0usize, 1usize);
    let mut deadline = None;
    let mut known_arg: Vec<String> = vec![];
    let mut out_path: Option<PathBuf> = None;
    let mut confirm_file: Option<PathBuf> = None;
    let mut confirm_por = false;
    let mut trace_unit: Option<String> = None;
    let mut i = 1;
    while i < args.len() {
        match args[i].as_str() {
            "--unit" => {
                unit_idx = args.get(i + 1).and_then(|s| s.parse::<usize>().ok());
                i += 1;
            }
            "--shard" => {
                if let Some((a, b)) = args.get(i + 1).and_then(|s| s.split_once('/')) {
                    shard = (a.parse().unwrap_or(0), b.parse().unwrap_or(1));
                }
                i += 1;
            }
            "--deadline" => {
                deadline = args.get(i + 1).and_then(|s| s.parse::<u64>().ok()).map(|s| Instant::now() + Duration::from_secs(s));
                i += 1;
            }
            "--confirm" => {
                confirm_file = args.get(i + 1).map(PathBuf::from);
                i += 1;
            }
            "--por" => {
                confirm_por = args.get(i + 1).map(|s| s == "1").unwrap_or(false);
                i += 1;
            }
            "--out" => {
                out_path = args.get(i + 1).map(PathBuf::from);
                i += 1;
            }
            "--trace-unit" => {
                // debugging aid: run the default schedule of the first unit whose name contains the
                // argument, with tracing on, and print what happened
                trace_unit = args.get(i + 1).cloned();
                i += 1;
            }
            "--known" => {
                known_arg = args.get(i + 1).map(|s| s.split(',').filter(|x| !x.is_empty()).map(|x| x.to_string()).collect()).unwrap_or_default();
                i += 1;
            }
            _ => {}
        }
        i += 1;
    }
    crate::init();
    let plan = planner(&tier);
    if let Some(pat) = trace_unit {
        for u in plan.units {
            if let UnitKind::Explore(job) = u.kind {
                if job.name.contains(&pat) {
                    let mut cfg = job.cfg.clone();
                    cfg.keep_trace = true;
                    let r = crate::run_one(&cfg, &job.body, &[]);
                    for l in &r.trace {
                        println!("{:>9}ns lc={} t{} {}", l.0, l.1, l.2, l.3);
                    }
                    println!("unit {}: steps={} outcome={:?} liveness={:?} panic={:?}", job.name, r.steps, r.outcome, r.liveness, r.panic);
                    std::process::exit(0);
                }
            }
        }
        eprintln!("no explore unit matches {pat}");
        std::process::exit(2);
    }
    if let (Some(u), Some(f)) = (unit_idx, &confirm_file) {
        let code = confirm_child(plan, u, f, confirm_por, out_path);
        // never unwind / drop anything that an abandoned execution may have leaked
        std::process::exit(code);
    }
    if let Some(u) = unit_idx {
        let code = worker(plan, &tier, u, shard, deadline, known_arg, out_path);
        std::process::exit(code);
    }
    master(plan, &tier)
}

struct Running {
    child: std::process::Child,
    unit: usize,
    shard: (usize, usize),
    out: PathBuf,
    kill_at: Instant,
}

fn master(plan: Plan, tier: &str) -> i32 {
    let started = Instant::now();
    let property = plan.property;
    let seed: i64 = std::env::var("VERIF_SEED").ok().and_then(|s| s.parse().ok()).unwrap_or(0);
    let cap_secs: u64 = std::env::var("VERIF_WALL_CAP")
        .ok()
        .and_then(|s| s.parse().ok())
        .unwrap_or(if tier == "quick" { 150 } else { 1500 });
    let workers: usize = std::env::var("VERIF_WORKERS").ok().and_then(|s| s.parse().ok()).unwrap_or(16);
    let known = load_known(property);
    let known_list = known.known.keys().cloned().collect::<Vec<_>>().join(",");
    let exe = std::env::current_exe().expect("current exe");
    // work list: (unit index, shard)
    let mut work: Vec<(usize, (usize, usize))> = Vec::new();
    // debugging aid: VERIF_ONLY=<substring> restricts the run to the units whose name contains it (such a run
    // is not a verdict on the property and must not be pointed at the committed evidence directory)
    let only = std::env::var("VERIF_ONLY").ok().filter(|s| !s.is_empty());
    for (i, u) in plan.units.iter().enumerate() {
        if only.as_ref().is_some_and(|o| !u.name.contains(o.as_str())) {
            continue;
        }
        let s = u.split.max(1);
        for k in 0..s {
            work.push((i, (k, s)));
        }
    }
    work.reverse();
    let total_units = work.len();
    let tmpdir = verif_root().join("target").join("units").join(format!("{property}-{}", std::process::id()));
    let _ = std::fs::create_dir_all(&tmpdir);
    let mut running: Vec<Running> = Vec::new();
    let mut results: Vec<(usize, (usize, usize), Value)> = Vec::new();
    let mut machinery: Vec<String> = Vec::new();
    loop {
        while running.len() < workers {
            let Some((u, sh)) = work.pop() else { break };
            let remaining = cap_secs.saturating_sub(started.elapsed().as_secs()).max(5);
            let out = tmpdir.join(format!("u{u}-s{}.json", sh.0));
            let unit_exe = match plan.units[u].exe_suffix {
                None => exe.clone(),
                Some(sfx) => {
                    let mut name = exe.file_name().unwrap().to_os_string();
                    name.push(sfx);
                    exe.with_file_name(name)
                }
            };
            let child = Command::new(&unit_exe)
                .arg(property)
                .arg(tier)
                .arg("--unit")
                .arg(u.to_string())
                .arg("--shard")
                .arg(format!("{}/{}", sh.0, sh.1))
                .arg("--deadline")
                .arg(remaining.to_string())
                .arg("--known")
                .arg(&known_list)
                .arg("--out")
                .arg(&out)
                .stdout(Stdio::inherit())
                .stderr(Stdio::inherit())
                .spawn()
                .expect("spawn worker");
            running.push(Running {
                child,
                unit: u,
                shard: sh,
                out,
                kill_at: Instant::now() + Duration::from_secs(remaining + 300),
            });
        }
        if running.is_empty() {
            break;
        }
        // wait for any child
        let mut finished = None;
        for (i, r) in running.iter_mut().enumerate() {
            if let Ok(Some(_)) = r.child.try_wait() {
                finished = Some(i);
                break;
            }
        }
        if finished.is_none() {
            // a worker far beyond its deadline is stuck (that is a machinery fault, never a verdict)
            if let Some(i) = running.iter().position(|r| Instant::now() > r.kill_at) {
                let mut r = running.remove(i);
                let _ = r.child.kill();
                let _ = r.child.wait();
                machinery.push(format!("unit {} shard {:?}: worker overran its deadline by 300 s and was killed", plan.units[r.unit].name, r.shard));
                continue;
            }
        }
        match finished {
            None => std::thread::sleep(Duration::from_millis(5)),
            Some(i) => {
                let mut r = running.remove(i);
                let status = r.child.wait().expect("worker status");
                let text = std::fs::read_to_string(&r.out).unwrap_or_default();
                let _ = std::fs::remove_file(&r.out);
                match serde_json::from_str::<Value>(&text).ok() {
                    Some(v) => {
                        if let Some(m) = v.get("machinery") {
                            machinery.push(format!("unit {} shard {:?}: {}", plan.units[r.unit].name, r.shard, m));
                        }
                        results.push((r.unit, r.shard, v));
                    }
                    None => machinery.push(format!(
                        "unit {} shard {:?}: worker died without a result (status {:?})",
                        plan.units[r.unit].name,
                        r.shard,
                        status
                    )),
                }
            }
        }
    }
    results.sort_by_key(|r| (r.0, r.1));
    let _ = std::fs::remove_dir_all(&tmpdir);

    // ---- merge
    let mut states = 0u64;
    let mut transitions = 0u64;
    let mut execs = 0u64;
    let mut execs_total = 0u64;
    let mut nontrivial = 0u64;
    let mut evaluations = 0u64;
    let mut outcomes_total = 0u64;
    let mut all_exhaustive = true;
    let mut min_bound: Option<u64> = None;
    let mut caps: Vec<String> = Vec::new();
    let mut samples: Vec<Value> = Vec::new();
    let mut unit_rows: Vec<Value> = Vec::new();
    let mut violations: Vec<(String, Value)> = Vec::new();
    let mut known_hits: BTreeMap<String, (u64, Value)> = BTreeMap::new();
    let mut replay_checks = 0u64;
    for (u, sh, v) in &results {
        let uname = &plan.units[*u].name;
        if v["kind"] == "explore" {
            let s = &v["stats"];
            states += s["nodes"].as_u64().unwrap_or(0);
            transitions += s["transitions"].as_u64().unwrap_or(0);
            execs += s["execs"].as_u64().unwrap_or(0);
            execs_total += s["execs_total"].as_u64().unwrap_or(0);
            nontrivial += s["nontrivial_execs"].as_u64().unwrap_or(0);
            replay_checks += s["replay_checks"].as_u64().unwrap_or(0);
            let n_out = s["outcomes"].as_object().map(|o| o.len()).unwrap_or(0) as u64;
            outcomes_total += n_out;
            if !s["exhaustive"].as_bool().unwrap_or(false) {
                all_exhaustive = false;
            }
            match &s["bound_completed"] {
                Value::Number(n) => {
                    let b = n.as_u64().unwrap_or(0);
                    min_bound = Some(min_bound.map_or(b, |m| m.min(b)));
                }
                Value::String(_) => {}
                _ => {
                    min_bound = Some(0);
                    all_exhaustive = false;
                }
            }
            if let Some(c) = s["capped"].as_str() {
                caps.push(format!("{uname} shard {}/{}: {c}", sh.0, sh.1));
            }
            if samples.len() < 6 {
                if let Some(a) = s["samples"].as_array() {
                    for x in a.iter().take(2) {
                        let mut x = x.clone();
                        x["unit"] = json!(uname);
                        samples.push(x);
                    }
                }
            }
            for (sig, h) in s["known_hits"].as_object().cloned().unwrap_or_default() {
                let e = known_hits.entry(sig).or_insert((0, json!({"unit": uname, "schedule": h["schedule"], "clause": h["clause"]})));
                e.0 += h["executions"].as_u64().unwrap_or(0);
            }
            unit_rows.push(json!({"unit": uname, "shard": format!("{}/{}", sh.0, sh.1), "bound_completed": s["bound_completed"], "exhaustive": s["exhaustive"],
                "executions": s["execs"], "nodes": s["nodes"], "transitions": s["transitions"], "max_depth": s["max_depth"], "max_alternatives": s["max_alternatives"],
                "distinct_outcomes": n_out, "vacuous": n_out <= 1 && s["execs"].as_u64().unwrap_or(0) > 8, "points_taken": s["points_taken"], "wall_s": s["wall_s"], "capped": s["capped"]}));
            if let Some(viol) = v.get("violation") {
                violations.push((uname.clone(), viol.clone()));
            }
        } else if v["kind"] == "enum" {
            states += v["states"].as_u64().unwrap_or(0);
            transitions += v["transitions"].as_u64().unwrap_or(0);
            evaluations += v["evaluations"].as_u64().unwrap_or(0);
            nontrivial += v["distinct_nontrivial"].as_u64().unwrap_or(0);
            let n_out = v["outcomes"].as_object().map(|o| o.len()).unwrap_or(0) as u64;
            outcomes_total += n_out;
            if !v["exhaustive"].as_bool().unwrap_or(false) {
                all_exhaustive = false;
            }
            if samples.len() < 8 {
                if let Some(a) = v["samples"].as_array() {
                    for x in a.iter().take(2) {
                        samples.push(json!({"unit": uname, "input": x}));
                    }
                }
            }
            unit_rows.push(json!({"unit": uname, "shard": format!("{}/{}", sh.0, sh.1), "kind": "enumeration", "states": v["states"], "transitions": v["transitions"],
                "evaluations": v["evaluations"], "distinct_outcomes": n_out, "exhaustive": v["exhaustive"], "note": v["note"], "wall_s": v["wall_s"], "outcomes": v["outcomes"]}));
            for viol in v["violations"].as_array().cloned().unwrap_or_default() {
                let clause = viol["clause"].as_str().unwrap_or("").to_string();
                match crate::explore::clause_sig(&clause) {
                    Some(sig) if known.known.contains_key(sig) => {
                        let e = known_hits.entry(sig.to_string()).or_insert((0, json!({"unit": uname, "input": viol["input"], "clause": clause})));
                        e.0 += 1;
                    }
                    _ => violations.push((uname.clone(), json!({"unit": uname, "kind": "property", "clauses": [clause], "input": viol["input"]}))),
                }
            }
        }
    }
    if samples.is_empty() {
        samples.push(json!({"note": "no unit produced a sample"}));
    }
    let wall = started.elapsed().as_secs_f64();
    let evid = json!({
        "property_id": property,
        "tier": tier,
        "seed": seed,
        "level": "model_checking",
        "coverage": {
            "states": states.max(1),
            "transitions": transitions.max(1),
            "traces_validated_against_impl": execs + evaluations,
            "evaluations": execs + evaluations,
            "distinct_nontrivial": nontrivial,
            "rule": plan.rule,
            "samples": samples,
            "exhaustive": all_exhaustive && caps.is_empty(),
            "bound_completed": if all_exhaustive { json!("unbounded") } else { json!(min_bound) },
            "distinct_outcomes": outcomes_total,
            "executions_including_smaller_bounds": execs_total,
            "replay_determinism_checks": replay_checks,
            "units": unit_rows,
            "units_planned": total_units,
            "units_completed": results.len(),
            "caps_hit": caps,
            "known_finding_hits": known_hits.iter().map(|(k, v)| (k.clone(), json!({"executions": v.0, "example": v.1}))).collect::<BTreeMap<_, _>>(),
            "engine": plan.engine,
        },
        "assumptions": plan.assumptions,
        "wall_s": wall,
        "violations": violations.len(),
    });
    let evdir = verif_root().join("evidence");
    let _ = std::fs::create_dir_all(&evdir);
    let evpath = evdir.join(format!("{property}.json"));
    if let Err(e) = std::fs::write(&evpath, serde_json::to_string_pretty(&evid).unwrap()) {
        eprintln!("cannot write {}: {e}", evpath.display());
        return 2;
    }
    println!(
        "{property} {tier}: units={} executions={} states={} transitions={} outcomes={} bound={} exhaustive={} wall={:.1}s",
        results.len(),
        execs + evaluations,
        states,
        transitions,
        outcomes_total,
        if all_exhaustive { "unbounded".to_string() } else { format!("{:?}", min_bound) },
        all_exhaustive && evid["coverage"]["caps_hit"].as_array().is_some_and(|a| a.is_empty()),
        wall
    );
    for (sig, (n, ex)) in &known_hits {
        println!(
            "KNOWN-FINDING: property={property} {} [{sig}] ({n} executions, e.g. {})",
            known.known.get(sig).cloned().unwrap_or_default(),
            ex
        );
    }
    if !machinery.is_empty() {
        for m in &machinery {
            eprintln!("MACHINERY ERROR: {m}");
        }
        return 2;
    }
    if !violations.is_empty() {
        let dir = verif_root().join("replays").join(property);
        let _ = std::fs::create_dir_all(&dir);
        for (unit, v) in &violations {
            let mut file = v.clone();
            file["property"] = json!(property);
            file["tier"] = json!(tier);
            let body = serde_json::to_string_pretty(&file).unwrap();
            let path = dir.join(format!("{}-{}.json", unit.replace(['/', ' ', ':'], "_"), short_hash(&body)));
            let _ = std::fs::write(&path, body);
            println!("  clauses: {}", v["clauses"]);
            println!("VIOLATION property={property} replay={}", path.display());
        }
        return 1;
    }
    0
}

fn replay_cmd(path: &str, planner: &dyn Fn(&str) -> Plan) -> i32 {
    let Ok(txt) = std::fs::read_to_string(Path::new(path)) else {
        eprintln!("cannot read {path}");
        return 2;
    };
    let v: Value = match serde_json::from_str(&txt) {
        Ok(v) => v,
        Err(e) => {
            eprintln!("bad replay file: {e}");
            return 2;
        }
    };
    crate::init();
    let tier = v["tier"].as_str().unwrap_or("quick");
    let plan = planner(tier);
    let uname = v["unit"].as_str().unwrap_or("");
    let Some(unit) = plan.units.into_iter().find(|u| u.name == uname) else {
        eprintln!("unit {uname} not in the {tier} plan");
        return 2;
    };
    match unit.kind {
        UnitKind::Explore(job) => {
            let choices = choices_from_json(&v["choices"]);
            let r = crate::explore::replay(&job.cfg, &job.body, &choices);
            println!("replay of {uname}: schedule {}", choices_to_string(&r.path));
            println!("tasks: {:?}", r.tasks);
            for l in crate::explore::fmt_trace(&r, 2000) {
                println!("  {l}");
            }
            if let Some(d) = &r.divergence {
                println!("DIVERGENCE: {d}");
                return 2;
            }
            let mut bad = false;
            if let Some(l) = &r.liveness {
                println!("verdict: {l}");
                bad = true;
            }
            if let Some(p) = &r.panic {
                println!("verdict: panic escaped: {p}");
                bad = true;
            }
            if let Some(o) = &r.outcome {
                println!("outcome: {}", o.key);
                for c in &o.violations {
                    println!("violated: {c}");
                    bad = true;
                }
            }
            let _ = std::io::stdout().flush();
            if bad {
                println!("VIOLATION property={} replay={path}", plan.property);
                1
            } else {
                println!("no violation on this tree");
                0
            }
        }
        UnitKind::Enum(f) => {
            // enumeration units are cheap: re-run and show the violations
            let r = f(&EnumCtx { shard: (0, 1), deadline: None, known: vec![] });
            for (c, i) in &r.violations {
                println!("violated: {c} input={i}");
            }
            if r.violations.is_empty() {
                println!("no violation on this tree");
                0
            } else {
                println!("VIOLATION property={} replay={path}", plan.property);
                1
            }
        }
    }
}
