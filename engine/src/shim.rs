//! Deterministic `getrandom`: std's per-thread hash keys and the `rand`/`getrandom` crates both end
//! up in the C symbol `getrandom` (std looks it up weakly, the crates call it or `dlsym` it). A
//! harness binary defines that symbol with `vsched::getrandom_shim!()` and forwards to [fill].

use std::sync::atomic::{AtomicU64, Ordering};

static SEED: AtomicU64 = AtomicU64::new(1);
static CTR: AtomicU64 = AtomicU64::new(0);
static CALLS: AtomicU64 = AtomicU64::new(0);

/// Restart the stream (called before every execution)
pub fn reset(seed: u64) {
    SEED.store(seed, Ordering::SeqCst);
    CTR.store(0, Ordering::SeqCst);
}

/// Number of times the shim was called (proves the interposition is live)
pub fn calls() -> u64 {
    CALLS.load(Ordering::SeqCst)
}

/// # Safety
/// `buf` must be valid for `len` bytes
pub unsafe fn fill(buf: *mut u8, len: usize) -> isize {
    CALLS.fetch_add(1, Ordering::SeqCst);
    let seed = SEED.load(Ordering::SeqCst);
    for i in 0..len {
        let c = CTR.fetch_add(1, Ordering::SeqCst);
        let mut z = c
            .wrapping_add(seed.wrapping_mul(0xD6E8FEB86659FD93))
            .wrapping_add(0x9E3779B97F4A7C15)
            .wrapping_mul(0xBF58476D1CE4E5B9);
        z ^= z >> 31;
        z = z.wrapping_mul(0x94D049BB133111EB);
        z ^= z >> 29;
        *buf.add(i) = (z & 0xff) as u8;
    }
    len as isize
}

/// Define the C symbol `getrandom` in the calling (binary) crate
#[macro_export]
macro_rules! getrandom_shim {
    () => {
        /// # Safety
        /// C ABI of getrandom(2)
        #[no_mangle]
        pub unsafe extern "C" fn getrandom(buf: *mut u8, len: usize, _flags: u32) -> isize {
            $crate::shim::fill(buf, len)
        }
    };
}
