//! Deviation-bounded depth-first exploration of schedules (and explored environment answers).
//!
//! A *path* is the vector of `(chosen, alternatives)` recorded at every decision point with at
//! least two alternatives. An execution is "prefix, then defaults". The DFS enumerates every path
//! whose number of non-default choices (deviations) is within the bound; `bound = None` is the
//! complete tree.

use std::collections::BTreeMap;
use std::time::{Duration, Instant};

use crate::{run_one, Body, Choice, ExecCfg, ExecResult};

#[derive(Clone)]
pub struct Job {
    /// scenario id (stable: used in replay files and known-finding signatures)
    pub name: String,
    pub cfg: ExecCfg,
    pub body: Body,
    /// explore bounds 0..=max_bound one after the other (fewest deviations first); None = unbounded
    pub max_bound: Option<usize>,
    /// this process explores the subtrees whose first deviation hashes to `shard.0` mod `shard.1`
    pub shard: (usize, usize),
    pub deadline: Option<Instant>,
    pub max_execs: Option<u64>,
    /// signatures of recorded known findings: a violated clause carrying `[[sig:<s>]]` with `<s>`
    /// listed here is counted and exploration continues
    pub known: Vec<String>,
    /// use sleep-set partial-order reduction in the unbounded pass
    pub por: bool,
    /// replays a schedule in a *fresh process* and returns its fingerprint. Used to confirm a
    /// violation whose execution had to be abandoned (hang, deadlock, escaped panic): abandoning
    /// leaks every suspended task together with the locks it holds, so this process must not run
    /// another execution afterwards. (schedule, por) -> fingerprint
    pub confirm: Option<Confirm>,
}

pub type Confirm = std::sync::Arc<dyn Fn(&[Choice], bool) -> Result<String, String> + Send + Sync>;

/// Signature carried by a clause, if any
pub fn clause_sig(clause: &str) -> Option<&str> {
    let i = clause.find("[[sig:")?;
    let rest = &clause[i + 6..];
    let j = rest.find("]]")?;
    Some(&rest[..j])
}

impl Job {
    pub fn new(name: impl Into<String>, cfg: ExecCfg, max_bound: Option<usize>, body: Body) -> Self {
        Self {
            name: name.into(),
            cfg,
            body,
            max_bound,
            shard: (0, 1),
            deadline: None,
            max_execs: None,
            known: vec![],
            por: true,
            confirm: None,
        }
    }
}

#[derive(Debug, Clone, Default)]
pub struct Sample {
    pub choices: String,
    pub deviations: usize,
    pub outcome: String,
    pub trace: Vec<String>,
}

#[derive(Debug, Clone, Default)]
pub struct JobStats {
    pub name: String,
    /// largest bound whose DFS completed (None = nothing completed; usize::MAX = unbounded)
    pub bound_completed: Option<usize>,
    pub exhaustive: bool,
    /// executions at the reported bound
    pub execs: u64,
    /// executions over all bounds (including the re-runs of smaller bounds)
    pub execs_total: u64,
    /// distinct decision nodes of the explored tree
    pub nodes: u64,
    /// scheduled steps below new nodes (steps re-executed to reach a prefix are not counted)
    pub transitions: u64,
    pub steps_total: u64,
    pub max_depth: usize,
    pub max_steps: usize,
    pub max_alternatives: usize,
    pub outcomes: BTreeMap<String, u64>,
    pub outcomes_overflow: u64,
    pub capped: Option<String>,
    pub wall_s: f64,
    pub samples: Vec<Sample>,
    pub replay_checks: u64,
    pub points_seen: u64,
    pub points_taken: u64,
    pub default_polls: Vec<(Option<String>, usize)>,
    pub default_steps: usize,
    pub virtual_ns_max: u64,
    pub nontrivial_execs: u64,
    /// known finding signature -> (executions that hit it, one sample schedule, one sample clause)
    pub known_hits: BTreeMap<String, (u64, String, String)>,
    /// executions abandoned because every enabled move was asleep (partial-order reduction)
    pub sleep_blocked: u64,
    pub por: bool,
}

#[derive(Debug, Clone)]
pub struct Violation {
    pub job: String,
    pub kind: String,
    pub clauses: Vec<String>,
    pub choices: Vec<Choice>,
    pub deviations: usize,
    pub outcome: String,
    pub trace: Vec<String>,
    pub tasks: Vec<String>,
    pub hash_seed: u64,
}

pub enum JobEnd {
    Done(JobStats),
    Violation(JobStats, Box<Violation>),
    Machinery(String),
}

pub fn choices_to_string(p: &[Choice]) -> String {
    // compact: only deviations are interesting, "i:c/n"
    let devs: Vec<String> = p
        .iter()
        .enumerate()
        .filter(|(_, c)| c.chosen != 0)
        .map(|(i, c)| format!("{}{}:{}/{}", if c.free { "f" } else { "" }, i, c.chosen, c.n))
        .collect();
    format!("len={} dev=[{}]", p.len(), devs.join(" "))
}

pub fn fmt_trace(r: &ExecResult, limit: usize) -> Vec<String> {
    let mut v: Vec<String> = r
        .trace
        .iter()
        .map(|(lc, t, who, s)| format!("#{lc} t={t}ns task={} {s}", if *who == usize::MAX { "-".to_string() } else { who.to_string() }))
        .collect();
    if v.len() > limit {
        let cut = v.len() - limit;
        v.truncate(limit);
        v.push(format!("... {cut} more events"));
    }
    v
}

pub fn fingerprint(r: &ExecResult) -> String {
    use std::hash::{Hash, Hasher};
    let mut h = std::collections::hash_map::DefaultHasher::new();
    for c in &r.path {
        (c.chosen, c.n, c.who).hash(&mut h);
    }
    r.steps.hash(&mut h);
    for (lc, t, who, s) in &r.trace {
        (lc, t, who, s).hash(&mut h);
    }
    r.outcome.as_ref().map(|o| (&o.key, &o.violations)).hash(&mut h);
    r.invariant_violations.hash(&mut h);
    r.liveness.hash(&mut h);
    r.panic.hash(&mut h);
    format!("{:016x}", h.finish())
}

fn deviations(p: &[Choice]) -> usize {
    p.iter().filter(|c| c.chosen != 0 && !c.free).count()
}

fn nondefault(p: &[Choice]) -> usize {
    p.iter().filter(|c| c.chosen != 0).count()
}

fn in_shard(pos: usize, alt: u16, shard: (usize, usize)) -> bool {
    if shard.1 <= 1 {
        return true;
    }
    (pos.wrapping_mul(31).wrapping_add(alt as usize)) % shard.1 == shard.0
}

/// verdict of one execution, if it is not clean
fn verdict(r: &ExecResult) -> Option<(String, Vec<String>)> {
    if let Some(l) = &r.liveness {
        return Some(("liveness".into(), vec![l.clone()]));
    }
    if let Some(p) = &r.panic {
        return Some(("panic".into(), vec![format!("panic escaped a task: {p}")]));
    }
    if !r.invariant_violations.is_empty() {
        return Some(("property".into(), r.invariant_violations.iter().map(|v| format!("invariant at a step boundary: {v}")).collect()));
    }
    match &r.outcome {
        Some(o) if !o.violations.is_empty() => Some(("property".into(), o.violations.clone())),
        Some(_) => None,
        None => Some(("liveness".into(), vec!["execution ended without an outcome".into()])),
    }
}

struct Dfs<'a> {
    job: &'a Job,
    stats: JobStats,
    started: Instant,
}

enum Stop {
    Violation(Box<Violation>),
    Machinery(String),
    Cap(String),
}

impl Dfs<'_> {
    fn one_bound(&mut self, bound: Option<usize>) -> Result<JobStats, Stop> {
        let job = self.job;
        let mut cfg = job.cfg.clone();
        cfg.por = bound.is_none() && job.por;
        let mut st = JobStats {
            name: job.name.clone(),
            por: cfg.por,
            ..Default::default()
        };
        let mut prefix: Vec<Choice> = Vec::new();
        let mut first: Option<ExecResult> = None;
        let mut last: Option<ExecResult>;
        loop {
            if let Some(d) = job.deadline {
                if Instant::now() > d {
                    return Err(Stop::Cap("wall cap".into()));
                }
            }
            if let Some(m) = job.max_execs {
                if self.stats.execs_total >= m {
                    return Err(Stop::Cap(format!("execution cap {m}")));
                }
            }
            let r = run_one(&cfg, &job.body, &prefix);
            self.stats.execs_total += 1;
            self.stats.steps_total += r.steps as u64;
            if let Some(d) = &r.divergence {
                return Err(Stop::Machinery(format!(
                    "job {}: replay divergence ({d}) on prefix {}",
                    job.name,
                    choices_to_string(&prefix)
                )));
            }
            if r.path.len() < prefix.len() {
                return Err(Stop::Machinery(format!(
                    "job {}: execution shorter ({}) than its prefix ({})",
                    job.name,
                    r.path.len(),
                    prefix.len()
                )));
            }
            let counted = job.shard.0 == 0 || !prefix.is_empty();
            if r.blocked {
                if counted {
                    st.sleep_blocked += 1;
                    st.nodes += (r.path.len() - prefix.len()) as u64;
                    st.transitions += r.new_steps as u64;
                }
            } else if counted {
                st.execs += 1;
                let new_nodes = (r.path.len() - prefix.len()) as u64 + if prefix.is_empty() { 1 } else { 0 };
                st.nodes += new_nodes;
                st.transitions += r.new_steps as u64;
                st.max_depth = st.max_depth.max(r.path.len());
                st.max_steps = st.max_steps.max(r.steps);
                st.max_alternatives = st.max_alternatives.max(r.path.iter().map(|c| c.n as usize).max().unwrap_or(1));
                st.points_seen += r.points_seen as u64;
                st.points_taken += r.points_taken as u64;
                st.virtual_ns_max = st.virtual_ns_max.max(r.virtual_ns);
                if !r.path.is_empty() {
                    st.nontrivial_execs += 1;
                }
                let key = r.outcome.as_ref().map(|o| o.key.clone()).unwrap_or_else(|| "<none>".into());
                if st.outcomes.len() < 4096 || st.outcomes.contains_key(&key) {
                    let e = st.outcomes.entry(key.clone()).or_insert(0);
                    if *e == 0 && st.samples.len() < 4 {
                        st.samples.push(Sample {
                            choices: choices_to_string(&r.path),
                            deviations: deviations(&r.path),
                            outcome: key,
                            trace: fmt_trace(&r, 80),
                        });
                    }
                    *e += 1;
                } else {
                    st.outcomes_overflow += 1;
                }
            }
            if prefix.is_empty() {
                st.default_polls = r.polls.clone();
                st.default_steps = r.steps;
            }
            let mut v = if r.blocked { None } else { verdict(&r) };
            if let Some((kind, clauses)) = &v {
                if kind == "property"
                    && clauses
                        .iter()
                        .all(|c| clause_sig(c).is_some_and(|s| job.known.iter().any(|k| k == s)))
                {
                    for c in clauses {
                        let e = st
                            .known_hits
                            .entry(clause_sig(c).unwrap().to_string())
                            .or_insert((0, choices_to_string(&r.path), c.clone()));
                        e.0 += 1;
                    }
                    v = None;
                }
            }
            if let Some((kind, clauses)) = v {
                // a violation is only reported if the same schedule fails identically twice more
                let f0 = fingerprint(&r);
                let abandoned = r.liveness.is_some() || r.panic.is_some();
                let (fa, fb) = match (&job.confirm, abandoned) {
                    (Some(confirm), true) => {
                        let a = confirm(&r.path, cfg.por);
                        let b = confirm(&r.path, cfg.por);
                        (a.unwrap_or_else(|e| format!("error: {e}")), b.unwrap_or_else(|e| format!("error: {e}")))
                    }
                    _ => {
                        let a = run_one(&cfg, &job.body, &r.path);
                        let b = run_one(&cfg, &job.body, &r.path);
                        let f = |x: &ExecResult| if x.divergence.is_some() { format!("divergence: {:?}", x.divergence) } else { fingerprint(x) };
                        (f(&a), f(&b))
                    }
                };
                if fa != f0 || fb != f0 {
                    return Err(Stop::Machinery(format!(
                        "job {}: violation candidate does not replay identically (fingerprints {f0} / {fa} / {fb}); clauses {:?}",
                        job.name, clauses
                    )));
                }
                return Err(Stop::Violation(Box::new(Violation {
                    job: job.name.clone(),
                    kind,
                    clauses,
                    deviations: deviations(&r.path),
                    choices: r.path.clone(),
                    outcome: r.outcome.as_ref().map(|o| o.key.clone()).unwrap_or_default(),
                    trace: fmt_trace(&r, 400),
                    tasks: r.tasks.clone(),
                    hash_seed: job.cfg.hash_seed,
                })));
            }
            if first.is_none() {
                first = Some(r.clone());
            }
            // next prefix
            let mut p = r.path.clone();
            last = Some(r);
            let next = loop {
                match p.pop() {
                    None => break None,
                    Some(c) => {
                        let devs_before = deviations(&p);
                        let room = c.free || bound.is_none_or(|b| devs_before < b);
                        let nxt = ((c.chosen as usize + 1)..(c.n as usize)).find(|j| *j >= 64 || c.asleep & (1u64 << j) == 0);
                        if let (Some(nxt), true) = (nxt, room) {
                            let cand = Choice {
                                chosen: nxt as u16,
                                n: c.n,
                                who: if c.who == u32::MAX { u32::MAX } else { u32::MAX - 1 },
                                asleep: c.asleep,
                                free: c.free,
                            };
                            if nondefault(&p) == 0 && !in_shard(p.len(), cand.chosen, job.shard) {
                                // someone else's subtree: keep incrementing at this position
                                p.push(cand);
                                continue;
                            }
                            p.push(cand);
                            break Some(p);
                        }
                    }
                }
            };
            match next {
                Some(p) => prefix = p,
                None => {
                    // determinism self-check: first and last schedule once more
                    for r0 in [first.as_ref(), last.as_ref()].into_iter().flatten().filter(|r| !r.blocked) {
                        let again = run_one(&cfg, &job.body, &r0.path);
                        if again.divergence.is_some() || fingerprint(&again) != fingerprint(r0) {
                            return Err(Stop::Machinery(format!(
                                "job {}: schedule {} does not replay identically",
                                job.name,
                                choices_to_string(&r0.path)
                            )));
                        }
                        st.replay_checks += 1;
                    }
                    if let Some(l) = &last {
                        if st.samples.len() < 5 {
                            st.samples.push(Sample {
                                choices: choices_to_string(&l.path),
                                deviations: deviations(&l.path),
                                outcome: l.outcome.as_ref().map(|o| o.key.clone()).unwrap_or_default(),
                                trace: fmt_trace(l, 40),
                            });
                        }
                    }
                    return Ok(st);
                }
            }
        }
    }
}

/// Explore one job: bounds 0, 1, .. max_bound (or the complete tree when `max_bound` is None)
pub fn explore(job: &Job) -> JobEnd {
    let mut d = Dfs {
        job,
        stats: JobStats {
            name: job.name.clone(),
            ..Default::default()
        },
        started: Instant::now(),
    };
    let bounds: Vec<Option<usize>> = match job.max_bound {
        None => vec![Some(0), Some(1), None],
        Some(m) => (0..=m).map(Some).collect(),
    };
    let mut best: Option<JobStats> = None;
    let mut capped = None;
    for b in bounds {
        match d.one_bound(b) {
            Ok(mut st) => {
                st.bound_completed = Some(b.unwrap_or(usize::MAX));
                st.exhaustive = b.is_none();
                // a bounded pass that never had to refuse a deviation is the complete tree as well
                best = Some(st);
            }
            Err(Stop::Cap(why)) => {
                capped = Some(format!("{why} during bound {}", b.map(|b| b.to_string()).unwrap_or("unbounded".into())));
                break;
            }
            Err(Stop::Violation(v)) => {
                let mut st = best.unwrap_or_default();
                st.name = job.name.clone();
                st.execs_total = d.stats.execs_total;
                st.steps_total = d.stats.steps_total;
                st.wall_s = d.started.elapsed().as_secs_f64();
                return JobEnd::Violation(st, v);
            }
            Err(Stop::Machinery(m)) => return JobEnd::Machinery(m),
        }
    }
    let mut st = best.unwrap_or_else(|| JobStats {
        name: job.name.clone(),
        ..Default::default()
    });
    st.execs_total = d.stats.execs_total;
    st.steps_total = d.stats.steps_total;
    st.capped = capped;
    st.wall_s = d.started.elapsed().as_secs_f64();
    JobEnd::Done(st)
}

/// Replay one schedule and return the raw result (used by `./check replay`)
pub fn replay(cfg: &ExecCfg, body: &Body, choices: &[Choice]) -> ExecResult {
    run_one(cfg, body, choices)
}

pub fn deadline_in(secs: u64) -> Option<Instant> {
    Some(Instant::now() + Duration::from_secs(secs))
}
