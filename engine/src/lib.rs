//! vsched — stateless model checking of the real ractor code under a controlled scheduler.
//!
//! * every ractor task (through the `verif_hooks` seam) and every harness task is a shuttle
//!   coroutine; all of them run on ONE OS thread, one at a time;
//! * `OneShot` (our `shuttle::scheduler::Scheduler`) replays a prefix of choice indices and then
//!   takes the default (index 0) at every later decision point, recording `(chosen, alternatives)`;
//! * `explore::dfs` enumerates prefixes depth-first under a deviation bound;
//! * the virtual clock only advances when nothing else can run.
//!
//! Everything an execution needs lives in the thread-local `EXEC` of the execution's OS thread.

pub mod explore;
pub mod report;
pub mod shim;

use std::cell::RefCell;
use std::collections::BTreeMap;
use std::future::Future;
use std::pin::Pin;
use std::sync::atomic::{AtomicBool, Ordering};
use std::sync::{Arc, Mutex};
use std::task::{Context, Poll, Waker};

pub use ractor::verif::PointKind;
use ractor::verif::{Hooks, LocalBoxFuture, TaskCtl};
use shuttle::scheduler::{Schedule, Scheduler, Task, TaskId};

// ------------------------------------------------------------------------------------------------
// configuration of one job (shared by all its executions)
// ------------------------------------------------------------------------------------------------

/// What the explorer knows about a task
#[derive(Debug, Clone)]
pub struct TaskInfo {
    pub id: usize,
    /// "main", "clock", "lib" (spawned by ractor through the seam) or the role given to `spawn`
    pub role: String,
    /// the name ractor passed to `spawn_named` (actor name), if any
    pub name: Option<String>,
    /// ordinal among tasks spawned through the seam (0-based), usize::MAX for harness tasks
    pub ordinal: usize,
}

pub type Filter = Arc<dyn Fn(PointKind, &'static str, &TaskInfo) -> bool + Send + Sync>;
pub type Focus = Arc<dyn Fn(&TaskInfo) -> bool + Send + Sync>;

/// Which seam-spawned task a cut applies to
#[derive(Debug, Clone, PartialEq, Eq)]
pub enum Sel {
    Name(String),
    Ordinal(usize),
}

/// Drop the selected task's future before its `at_poll`-th poll (1-based)
#[derive(Debug, Clone, PartialEq, Eq)]
pub struct CutSpec {
    pub sel: Sel,
    pub at_poll: usize,
}

#[derive(Clone)]
pub struct ExecCfg {
    /// which `point()`s are scheduling points (S granularity); `None` = none (T granularity)
    pub filter: Option<Filter>,
    /// tasks whose preemption / reordering is explored; others only ever run as the default
    pub focus: Option<Focus>,
    /// labels of `choose()` calls that are explored (others answer 0)
    pub choose_labels: Vec<&'static str>,
    /// is a spawn a branching decision point (spawner may be preempted right before it)
    pub branch_at_spawn: bool,
    pub cuts: Vec<CutSpec>,
    pub max_steps: usize,
    pub max_virtual_ns: u64,
    pub stack: usize,
    pub hash_seed: u64,
    /// run every execution on a fresh OS thread (needed whenever std hashing is involved)
    pub fresh_thread: bool,
    /// keep the event trace of every execution (otherwise only on violations / samples)
    pub keep_trace: bool,
    /// sleep-set partial-order reduction (set by the explorer for unbounded passes only)
    pub por: bool,
    /// a panic that escapes a task spawned by the library ends that task only (what a tokio runtime does);
    /// by default such a panic abandons the execution and is reported
    pub tolerate_lib_panics: bool,
    /// a task that is preempted at one of its own decision points (the default was to let it run on) stays
    /// parked until no other task can run at the current virtual time: one deviation then means "everything else
    /// that is pending happens inside this window", which otherwise takes one deviation per step of every other task
    pub park_preempted: bool,
}

impl Default for ExecCfg {
    fn default() -> Self {
        Self {
            filter: None,
            focus: None,
            choose_labels: vec![],
            branch_at_spawn: false,
            cuts: vec![],
            max_steps: 20_000,
            max_virtual_ns: 3_600_000_000_000,
            stack: 1 << 19,
            hash_seed: 1,
            fresh_thread: true,
            keep_trace: true,
            por: false,
            tolerate_lib_panics: false,
            park_preempted: false,
        }
    }
}

/// Filter helper: accept the given kinds for tasks with one of the given roles
pub fn filter_roles(kinds: &'static [PointKind], roles: &'static [&'static str]) -> Filter {
    Arc::new(move |k, _l, t| kinds.contains(&k) && roles.contains(&t.role.as_str()))
}

// ------------------------------------------------------------------------------------------------
// per-execution state
// ------------------------------------------------------------------------------------------------

#[derive(Debug, Clone, Copy, PartialEq, Eq)]
pub struct Choice {
    pub chosen: u16,
    pub n: u16,
    /// task id chosen, or u32::MAX for a `choose()` answer (u32::MAX - 1: not recorded)
    pub who: u32,
    /// partial-order reduction: bit j set = alternative j was in the sleep set at this node
    pub asleep: u64,
    /// a *free* choice (scenario enumeration, e.g. the next event of a history): every alternative is
    /// explored regardless of the deviation bound and it never counts as a deviation
    pub free: bool,
}

#[derive(Debug, Clone, Copy, PartialEq, Eq)]
enum QuiesceMode {
    /// wait until every other task is blocked; virtual time does not advance
    NoTime,
    /// additionally let timers fire until none is pending (or the virtual horizon)
    WithTime,
}

#[derive(Debug, Clone, Copy, PartialEq, Eq)]
enum Force {
    /// the most recently created task (highest id)
    Newest,
    Task(usize),
}

#[derive(Debug, Clone)]
pub enum Liveness {
    /// no task can run, no timer pending, but an awaited task has not finished
    Hang(String),
    /// every runnable task waits for a lock held by a task that cannot run
    Deadlock(String),
    /// step horizon exceeded
    Livelock(String),
}

struct Exec {
    cfg: ExecCfg,
    active: bool,
    final_phase: bool,
    // clock
    now: u64,
    timers: BTreeMap<(u64, u64), Waker>,
    tseq: u64,
    clock_task: Option<usize>,
    // scheduling
    prefix: Vec<Choice>,
    path: Vec<Choice>,
    steps: usize,
    /// value of `steps` when the last decision of the prefix was consumed
    prefix_done_at: usize,
    queue: Vec<usize>,
    contended: bool,
    /// the current task asked to yield (harness `yield_now`): by default somebody else runs next
    yielded: bool,
    /// the harness switched schedule exploration off for a phase (defaults are taken, nothing recorded)
    no_explore: bool,
    contended_streak: usize,
    parked: Vec<usize>,
    in_spawn: bool,
    /// forced hand-off (no decision recorded): run the newest task / this task next
    force_next: Option<Force>,
    /// pending operation of each task parked at a scheduling point: (object, class); object 0 = unknown
    pending: Vec<(usize, u8)>,
    /// sleep set: (task, object, class)
    sleep: Vec<(usize, usize, u8)>,
    blocked: bool,
    quiescing: Option<(usize, QuiesceMode)>,
    tasks: Vec<Option<TaskInfo>>,
    spawn_ordinal: usize,
    polls: Vec<(Option<String>, usize)>,
    // observation
    lc: u64,
    trace: Vec<(u64, u64, usize, String)>,
    liveness: Option<Liveness>,
    divergence: Option<String>,
    /// set when the execution must be abandoned: the clock task panics on its own (empty) stack,
    /// so that no suspended task is ever unwound
    abort: bool,
    points_seen: usize,
    points_taken: usize,
    /// evaluated at every scheduling step (a step boundary is a quiescent point for synchronous code)
    invariant: Option<std::rc::Rc<dyn Fn() -> Vec<String>>>,
    invariant_violations: Vec<String>,
}

thread_local! {
    static EXEC: RefCell<Option<Exec>> = const { RefCell::new(None) };
    static LAST_PANIC: RefCell<Option<String>> = const { RefCell::new(None) };
}

fn with_exec<R>(f: impl FnOnce(&mut Exec) -> R) -> Option<R> {
    EXEC.with(|e| e.try_borrow_mut().ok().and_then(|mut g| g.as_mut().map(f)))
}

fn active() -> bool {
    with_exec(|e| e.active && !e.final_phase).unwrap_or(false) && !std::thread::panicking()
}

fn me() -> usize {
    usize::from(shuttle::current::me())
}

thread_local! {
    static IN_SCHEDULER: std::cell::Cell<bool> = const { std::cell::Cell::new(false) };
}

fn shuttle_me_or_none() -> usize {
    if IN_SCHEDULER.with(|c| c.get()) {
        usize::MAX
    } else {
        me()
    }
}

/// experiment switch: VERIF_PARK=1 turns `park_preempted` on for every unit
fn park_env() -> bool {
    static P: std::sync::OnceLock<bool> = std::sync::OnceLock::new();
    *P.get_or_init(|| std::env::var("VERIF_PARK").is_ok_and(|v| v == "1"))
}

/// true for the panics the engine itself raises to abandon an execution: a harness that catches panics of the code
/// under test re-throws these
pub fn is_engine_panic(payload: &(dyn std::any::Any + Send)) -> bool {
    payload.downcast_ref::<&'static str>().is_some_and(|m| *m == PANIC_DIVERGENCE || *m == PANIC_LIVENESS)
}
const PANIC_LIVENESS: &str = "vsched-liveness";
const PANIC_DIVERGENCE: &str = "vsched-divergence";

impl Exec {
    fn info(&self, id: usize) -> TaskInfo {
        self.tasks
            .get(id)
            .and_then(|t| t.clone())
            .unwrap_or(TaskInfo {
                id,
                role: "?".into(),
                name: None,
                ordinal: usize::MAX,
            })
    }
    fn set_info(&mut self, info: TaskInfo) {
        let id = info.id;
        if self.tasks.len() <= id {
            self.tasks.resize(id + 1, None);
        }
        self.tasks[id] = Some(info);
    }

    fn describe_tasks(&self, ids: &[usize]) -> String {
        ids.iter()
            .map(|i| {
                let t = self.info(*i);
                format!("{}:{}{}", t.id, t.role, t.name.map(|n| format!("({n})")).unwrap_or_default())
            })
            .collect::<Vec<_>>()
            .join(",")
    }

    fn pending_of(&self, t: usize) -> (usize, u8) {
        self.pending.get(t).copied().unwrap_or((0, 0))
    }
    fn set_pending(&mut self, t: usize, op: (usize, u8)) {
        if self.pending.len() <= t {
            self.pending.resize(t + 1, (0, 0));
        }
        self.pending[t] = op;
    }
    fn is_asleep(&self, t: usize) -> bool {
        self.sleep.iter().any(|s| s.0 == t)
    }
    /// the chosen task executes its pending operation: everything dependent on it wakes up
    fn sleep_after(&mut self, t: usize, extra: &[(usize, usize, u8)]) {
        let op = self.pending_of(t);
        let mut next: Vec<(usize, usize, u8)> = Vec::new();
        for s in self.sleep.iter().chain(extra.iter()) {
            if s.0 != t && independent((s.1, s.2), op) && !next.iter().any(|x| x.0 == s.0) {
                next.push(*s);
            }
        }
        self.sleep = next;
        self.set_pending(t, (0, 0));
    }

    /// the heart: pick the next task
    fn decide(&mut self, ids: &[usize], current: Option<usize>) -> Result<usize, ()> {
        self.steps += 1;
        if self.steps > self.cfg.max_steps {
            self.liveness = Some(Liveness::Livelock(format!(
                "more than {} scheduling steps; runnable: [{}]",
                self.cfg.max_steps,
                self.describe_tasks(ids)
            )));
            return Err(());
        }
        // FIFO run queue: tasks in the order they became runnable
        self.queue.retain(|t| ids.contains(t));
        for id in ids {
            if !self.queue.contains(id) {
                self.queue.push(*id);
            }
        }
        if let Some(f) = self.force_next.take() {
            let t = match f {
                Force::Newest => ids.iter().copied().max(),
                Force::Task(t) => Some(t).filter(|t| ids.contains(t)),
            };
            if let Some(t) = t {
                // part of the spawner's transition: nothing is recorded, the sleep set is untouched
                self.contended = false;
                return Ok(t);
            }
        }
        let clock = self.clock_task;
        let quiescer = self.quiescing.map(|q| q.0);
        let cur = current.filter(|c| ids.contains(c));
        let contended = std::mem::replace(&mut self.contended, false);
        let yielded = std::mem::replace(&mut self.yielded, false);
        if contended {
            self.contended_streak += 1;
        } else {
            self.contended_streak = 0;
        }
        let mut order: Vec<usize> = Vec::with_capacity(ids.len());
        self.parked.retain(|t| ids.contains(t));
        if contended {
            // a parked task may hold what the contended one waits for
            self.parked.clear();
        }
        loop {
            let parked = &self.parked;
            let eligible = |t: usize| Some(t) != clock && Some(t) != quiescer && !parked.contains(&t);
            if let Some(c) = cur {
                if !contended && !yielded && eligible(c) {
                    order.push(c);
                }
            }
            for t in &self.queue {
                if Some(*t) != cur && eligible(*t) {
                    order.push(*t);
                }
            }
            if let Some(c) = cur {
                // a task that yielded voluntarily goes to the back of the line (it stays an alternative)
                if yielded && !contended && eligible(c) {
                    order.push(c);
                }
            }
            // parked tasks (preempted ones, see `park_preempted`) come back when nothing else can run
            if order.is_empty() && !self.parked.is_empty() {
                self.parked.clear();
                continue;
            }
            break;
        }
        if contended {
            let c = cur.expect("contended without a current task");
            if order.is_empty() || self.contended_streak > 8 * (ids.len() + 2) {
                self.liveness = Some(Liveness::Deadlock(format!(
                    "task {} waits for a lock/shard that no runnable task releases; runnable: [{}]",
                    self.describe_tasks(&[c]),
                    self.describe_tasks(ids)
                )));
                return Err(());
            }
        }

        let chosen = if order.is_empty() {
            // only the clock and/or a quiescing task are left
            let t = match self.quiescing {
                Some((q, mode)) if ids.contains(&q) => {
                    let next_deadline = self.timers.keys().next().map(|k| k.0);
                    let advance = mode == QuiesceMode::WithTime
                        && next_deadline.is_some_and(|d| d <= self.cfg.max_virtual_ns);
                    if advance {
                        clock.expect("clock task")
                    } else {
                        self.quiescing = None;
                        q
                    }
                }
                _ => match self.timers.keys().next().map(|k| k.0) {
                    Some(d) if d <= self.cfg.max_virtual_ns => clock.expect("clock task"),
                    Some(d) => {
                        self.liveness = Some(Liveness::Hang(format!(
                            "only timers beyond the virtual horizon remain (next at {d} ns) while an awaited task is blocked"
                        )));
                        return Err(());
                    }
                    None => {
                        self.liveness = Some(Liveness::Hang(
                            "no runnable task, no pending timer, but an awaited task has not finished".into(),
                        ));
                        return Err(());
                    }
                },
            };
            // clock and harness main: unknown operations, dependent with everything
            self.sleep.clear();
            t
        } else {
            // alternatives: the default plus every other candidate inside the focus set
            let mut alts: Vec<usize> = Vec::with_capacity(order.len());
            alts.push(order[0]);
            for t in &order[1..] {
                let keep = match &self.cfg.focus {
                    None => true,
                    Some(f) => f(&self.info(*t)),
                };
                if keep {
                    alts.push(*t);
                }
            }
            let no_branch = self.final_phase
                || self.no_explore
                || (self.in_spawn && !self.cfg.branch_at_spawn && cur.is_some() && !contended);
            if alts.len() == 1 || no_branch {
                let t = alts[0];
                // (a spawn happens in the middle of the spawner's transition: nothing new executes)
                if self.cfg.por && !self.final_phase && !(self.in_spawn && cur == Some(t)) {
                    if self.is_asleep(t) {
                        // the only possible move is one whose effect was already explored: the rest
                        // of this execution is redundant; let it run out without branching
                        self.blocked = true;
                        self.final_phase = true;
                    } else {
                        self.sleep_after(t, &[]);
                    }
                }
                t
            } else {
                let n = alts.len().min(u16::MAX as usize);
                let idx = self.path.len();
                let por = self.cfg.por && n <= 64;
                let mut asleep = 0u64;
                if por {
                    for (j, t) in alts.iter().enumerate() {
                        if self.is_asleep(*t) {
                            asleep |= 1 << j;
                        }
                    }
                } else if self.cfg.por {
                    self.sleep.clear();
                }
                let c = if idx < self.prefix.len() {
                    let p = self.prefix[idx];
                    if p.n as usize != n {
                        self.divergence = Some(format!(
                            "decision {idx}: {} alternatives while replaying, {} recorded",
                            n, p.n
                        ));
                        return Err(());
                    }
                    p.chosen as usize
                } else if por {
                    match (0..n).find(|j| asleep & (1 << j) == 0) {
                        Some(j) => j,
                        None => {
                            self.blocked = true;
                            self.final_phase = true;
                            let t = alts[0];
                            if let Some(pos) = self.queue.iter().position(|x| *x == t) {
                                let x = self.queue.remove(pos);
                                self.queue.push(x);
                            }
                            return Ok(t);
                        }
                    }
                } else {
                    0
                };
                let who = alts[c];
                if (self.cfg.park_preempted || park_env()) && c != 0 && cur == Some(alts[0]) && !contended && !yielded && !self.in_spawn {
                    self.parked.push(alts[0]);
                }
                if idx < self.prefix.len() && self.prefix[idx].who != who as u32 && self.prefix[idx].who != u32::MAX - 1 {
                    self.divergence = Some(format!(
                        "decision {idx}: task {} chosen while replaying, {} recorded",
                        who, self.prefix[idx].who
                    ));
                    return Err(());
                }
                self.path.push(Choice {
                    chosen: c as u16,
                    n: n as u16,
                    who: who as u32,
                    asleep,
                    free: false,
                });
                if self.path.len() == self.prefix.len() {
                    self.prefix_done_at = self.steps;
                }
                if por {
                    // siblings explored before this one (lower index, not asleep) go to sleep below
                    let extra: Vec<(usize, usize, u8)> = (0..c)
                        .filter(|j| asleep & (1 << j) == 0)
                        .map(|j| {
                            let op = self.pending_of(alts[j]);
                            (alts[j], op.0, op.1)
                        })
                        .collect();
                    self.sleep_after(who, &extra);
                }
                who
            }
        };
        // the chosen task goes to the back of the run queue
        if let Some(pos) = self.queue.iter().position(|t| *t == chosen) {
            let t = self.queue.remove(pos);
            self.queue.push(t);
        }
        Ok(chosen)
    }

    fn choose(&mut self, label: &'static str, n: usize, free: bool) -> Result<usize, ()> {
        if n <= 1 || self.final_phase || (!free && !self.cfg.choose_labels.contains(&label)) {
            return Ok(0);
        }
        // an environment answer is dependent with everything
        self.sleep.clear();
        let idx = self.path.len();
        let c = if idx < self.prefix.len() {
            let p = self.prefix[idx];
            if p.n as usize != n || (p.who != u32::MAX && p.who != u32::MAX - 1) {
                self.divergence = Some(format!("decision {idx}: choose({label},{n}) while replaying, ({},{}) recorded", p.who, p.n));
                return Err(());
            }
            p.chosen as usize
        } else {
            0
        };
        self.path.push(Choice {
            chosen: c as u16,
            n: n as u16,
            who: u32::MAX,
            asleep: 0,
            free,
        });
        if self.path.len() == self.prefix.len() {
            self.prefix_done_at = self.steps;
        }
        Ok(c)
    }
}

/// Operation classes for the independence relation
pub const OP_EXCLUSIVE: u8 = 0;
/// "call" stamps commute with each other, "return" stamps commute with each other, a call and a
/// return stamp do not (the oracles only ever compare a return with a call)
pub const OP_STAMP_CALL: u8 = 1;
pub const OP_STAMP_RET: u8 = 2;
const LC_OBJ: usize = 1;
/// private "start" objects of parked tasks (real objects are addresses, far above this range)
const START_OBJ_BASE: usize = 16;

fn independent(a: (usize, u8), b: (usize, u8)) -> bool {
    if a.0 == 0 || b.0 == 0 {
        return false; // unknown operation
    }
    if a.0 != b.0 {
        return true;
    }
    a.1 != OP_EXCLUSIVE && a.1 == b.1
}

// ------------------------------------------------------------------------------------------------
// shuttle scheduler
// ------------------------------------------------------------------------------------------------

struct OneShot {
    started: bool,
}

impl Scheduler for OneShot {
    fn new_execution(&mut self) -> Option<Schedule> {
        if self.started {
            None
        } else {
            self.started = true;
            Some(Schedule::new(0))
        }
    }
    fn next_task(&mut self, runnable: &[&Task], current: Option<TaskId>, _y: bool) -> Option<TaskId> {
        let ids: Vec<usize> = runnable.iter().map(|t| usize::from(t.id())).collect();
        IN_SCHEDULER.with(|c| c.set(true));
        struct Reset;
        impl Drop for Reset {
            fn drop(&mut self) {
                IN_SCHEDULER.with(|c| c.set(false));
            }
        }
        let _reset = Reset;
        // the harness invariant is evaluated outside the borrow of the execution state
        let inv = with_exec(|e| if e.final_phase || e.abort || !e.invariant_violations.is_empty() { None } else { e.invariant.clone() }).flatten();
        if let Some(inv) = inv {
            let v = inv();
            if !v.is_empty() {
                let step = with_exec(|e| e.steps).unwrap_or(0);
                log(format!("INVARIANT VIOLATED at step {step}: {v:?}"));
                with_exec(|e| e.invariant_violations = v);
            }
        }
        let r = with_exec(|e| {
            if e.abort {
                return Err(());
            }
            e.decide(&ids, current.map(usize::from))
        });
        match r {
            // no execution state: the warm-up run of `init()`
            None => Some(runnable[0].id()),
            Some(Ok(t)) => Some(TaskId::from(t)),
            Some(Err(())) => {
                // abandon the execution: hand control to the clock task, which panics on its own
                // stack; everything still suspended is then leaked, never unwound
                with_exec(|e| {
                    e.active = false;
                    e.abort = true;
                });
                Some(TaskId::from(1usize))
            }
        }
    }
    fn next_u64(&mut self) -> u64 {
        0
    }
}

// ------------------------------------------------------------------------------------------------
// hooks
// ------------------------------------------------------------------------------------------------

struct TaskShared {
    aborted: AtomicBool,
    finished: AtomicBool,
    waker: Mutex<Option<Waker>>,
}

struct Ctl(Arc<TaskShared>);
impl TaskCtl for Ctl {
    fn abort(&self) {
        if active() {
            sched_point(PointKind::Other, "task.abort");
        }
        if self.0.aborted.swap(true, Ordering::SeqCst) {
            return;
        }
        let w = self.0.waker.lock().unwrap().take();
        if let Some(w) = w {
            if with_exec(|e| e.active).unwrap_or(false) {
                w.wake();
            }
        }
    }
    fn is_finished(&self) -> bool {
        self.0.finished.load(Ordering::SeqCst)
    }
}

/// Wraps every future spawned through the seam: registers the task, implements abort and cuts
struct Wrapper {
    inner: Option<LocalBoxFuture>,
    shared: Arc<TaskShared>,
    role: String,
    name: Option<String>,
    ordinal: usize,
    cut_at: Option<usize>,
    polls: usize,
    registered: bool,
    /// the spawner hands control over right after the spawn; park at a scheduling point whose
    /// operation is a no-op on a private object, then hand control back
    park_at_start: Option<usize>,
}

impl Future for Wrapper {
    type Output = ();
    fn poll(self: Pin<&mut Self>, cx: &mut Context<'_>) -> Poll<()> {
        let this = self.get_mut();
        if !this.registered {
            this.registered = true;
            let info = TaskInfo {
                id: me(),
                role: this.role.clone(),
                name: this.name.clone(),
                ordinal: this.ordinal,
            };
            with_exec(|e| e.set_info(info));
            if let Some(spawner) = this.park_at_start.take() {
                let id = me();
                with_exec(|e| {
                    e.set_pending(id, (START_OBJ_BASE + id, OP_EXCLUSIVE));
                    e.force_next = Some(Force::Task(spawner));
                });
                shuttle::thread::yield_now();
            }
        }
        if this.inner.is_none() {
            return Poll::Ready(());
        }
        // (dropping a task's future runs destructors; with tolerate_lib_panics a panic from one of them ends
        // this task only, like a panic from its poll)
        let drop_inner = |this: &mut Wrapper| {
            let tolerate = this.ordinal != usize::MAX && with_exec(|e| e.cfg.tolerate_lib_panics).unwrap_or(false);
            let fut = this.inner.take();
            if tolerate {
                if std::panic::catch_unwind(std::panic::AssertUnwindSafe(move || drop(fut))).is_err() {
                    log(format!("TASK-PANIC ordinal={} name={:?}: a destructor panicked while the task's future was dropped", this.ordinal, this.name));
                }
            } else {
                drop(fut);
            }
        };
        if this.shared.aborted.load(Ordering::SeqCst) {
            drop_inner(this);
            this.shared.finished.store(true, Ordering::SeqCst);
            return Poll::Ready(());
        }
        this.polls += 1;
        let ordinal = this.ordinal;
        if ordinal != usize::MAX {
            with_exec(|e| {
                if let Some(p) = e.polls.get_mut(ordinal) {
                    p.1 += 1;
                }
            });
        }
        if this.cut_at == Some(this.polls) {
            log(format!("CUT task ordinal={} name={:?} before poll {}", this.ordinal, this.name, this.polls));
            drop_inner(this);
            this.shared.finished.store(true, Ordering::SeqCst);
            return Poll::Ready(());
        }
        {
            let mut w = this.shared.waker.lock().unwrap();
            if !w.as_ref().is_some_and(|w| w.will_wake(cx.waker())) {
                *w = Some(cx.waker().clone());
            }
        }
        let tolerate = ordinal != usize::MAX && with_exec(|e| e.cfg.tolerate_lib_panics).unwrap_or(false);
        let polled = if tolerate {
            let inner = this.inner.as_mut().unwrap();
            match std::panic::catch_unwind(std::panic::AssertUnwindSafe(|| inner.as_mut().poll(cx))) {
                Ok(p) => p,
                Err(payload) => {
                    let engine_own = payload.downcast_ref::<&'static str>().is_some_and(|m| *m == PANIC_DIVERGENCE || *m == PANIC_LIVENESS);
                    if engine_own {
                        std::panic::resume_unwind(payload);
                    }
                    log(format!("TASK-PANIC ordinal={} name={:?}: the panic ends this task only", this.ordinal, this.name));
                    Poll::Ready(())
                }
            }
        } else {
            this.inner.as_mut().unwrap().as_mut().poll(cx)
        };
        match polled {
            Poll::Ready(()) => {
                this.inner.take();
                this.shared.finished.store(true, Ordering::SeqCst);
                Poll::Ready(())
            }
            Poll::Pending => Poll::Pending,
        }
    }
}

fn spawn_wrapped(role: &str, name: Option<&str>, seam: bool, fut: LocalBoxFuture) -> Arc<TaskShared> {
    let shared = Arc::new(TaskShared {
        aborted: AtomicBool::new(false),
        finished: AtomicBool::new(false),
        waker: Mutex::new(None),
    });
    let usable = with_exec(|e| e.active).unwrap_or(false) && !std::thread::panicking();
    if !usable {
        // no execution (or it is being torn down): the task can never run
        drop(fut);
        shared.finished.store(true, Ordering::SeqCst);
        return shared;
    }
    let (ordinal, cut_at) = with_exec(|e| {
        if !seam {
            return (usize::MAX, None);
        }
        let ordinal = e.spawn_ordinal;
        e.spawn_ordinal += 1;
        e.polls.push((name.map(|s| s.to_string()), 0));
        let cut_at = e
            .cfg
            .cuts
            .iter()
            .find(|c| match &c.sel {
                Sel::Ordinal(o) => *o == ordinal,
                Sel::Name(n) => Some(n.as_str()) == name,
            })
            .map(|c| c.at_poll);
        (ordinal, cut_at)
    })
    .unwrap();
    // tasks whose scheduling points are explored start parked at a point (see Wrapper)
    let park = with_exec(|e| {
        if e.final_phase {
            return false;
        }
        match &e.cfg.filter {
            None => false,
            Some(f) => f(
                PointKind::Other,
                "task.start",
                &TaskInfo {
                    id: usize::MAX,
                    role: role.to_string(),
                    name: name.map(|s| s.to_string()),
                    ordinal,
                },
            ),
        }
    })
    .unwrap_or(false);
    let w = Wrapper {
        inner: Some(fut),
        shared: shared.clone(),
        role: role.to_string(),
        name: name.map(|s| s.to_string()),
        ordinal,
        cut_at,
        polls: 0,
        registered: false,
        park_at_start: if park { Some(me()) } else { None },
    };
    with_exec(|e| e.in_spawn = true);
    let jh = shuttle::future::spawn_local(w);
    with_exec(|e| e.in_spawn = false);
    drop(jh); // detached: the execution ends when the main task does
    if park {
        with_exec(|e| e.force_next = Some(Force::Newest));
        shuttle::thread::yield_now();
    }
    shared
}

fn sched_point(kind: PointKind, label: &'static str) {
    sched_point_op(kind, label, 0, OP_EXCLUSIVE)
}

fn sched_point_op(kind: PointKind, label: &'static str, obj: usize, class: u8) {
    if IN_SCHEDULER.with(|c| c.get()) {
        return; // observation code run by the scheduler itself (invariants)
    }
    let take = with_exec(|e| {
        if !e.active || e.final_phase {
            return false;
        }
        e.points_seen += 1;
        let take = match &e.cfg.filter {
            None => false,
            Some(f) => {
                let id = me();
                let info = e.info(id);
                let take = f(kind, label, &info);
                if take {
                    e.set_pending(id, (obj, class));
                }
                take
            }
        };
        if take {
            e.points_taken += 1;
        }
        take
    })
    .unwrap_or(false);
    if take && !std::thread::panicking() {
        // (trace only: must not advance the logical clock, or traced and untraced runs would differ)
        let who = shuttle_me_or_none();
        with_exec(|e| {
            if e.cfg.keep_trace {
                let (lc, now) = (e.lc, e.now);
                e.trace.push((lc, now, who, format!("point {label}")));
            }
        });
        shuttle::thread::yield_now();
    }
}

struct H;
impl Hooks for H {
    fn spawn(&self, name: Option<&str>, fut: LocalBoxFuture) -> Box<dyn TaskCtl> {
        Box::new(Ctl(spawn_wrapped("lib", name, true, fut)))
    }
    fn now_nanos(&self) -> u64 {
        with_exec(|e| e.now).unwrap_or(0)
    }
    fn sleep_until(&self, deadline_nanos: u64) -> Pin<Box<dyn Future<Output = ()> + Send>> {
        Box::pin(Sleep {
            deadline: deadline_nanos,
            key: None,
        })
    }
    fn point(&self, kind: PointKind, label: &'static str, obj: usize) {
        sched_point_op(kind, label, obj, OP_EXCLUSIVE)
    }
    fn contended(&self, obj: usize) {
        let ok = with_exec(|e| {
            if !e.active {
                return false;
            }
            e.contended = true;
            let id = me();
            e.set_pending(id, (obj, OP_EXCLUSIVE));
            true
        })
        .unwrap_or(false);
        if !ok || std::thread::panicking() {
            // outside an execution nobody can release the resource cooperatively
            eprintln!("vsched: MACHINERY ERROR: contended({obj:#x}) outside a live execution");
            std::process::exit(2);
        }
        shuttle::thread::yield_now();
    }
    fn choose(&self, label: &'static str, n: usize) -> usize {
        if !active() {
            return 0;
        }
        match with_exec(|e| e.choose(label, n, false)).unwrap_or(Ok(0)) {
            Ok(c) => c,
            Err(()) => {
                with_exec(|e| e.active = false);
                std::panic::panic_any(PANIC_DIVERGENCE)
            }
        }
    }
}
static HOOKS: H = H;

// ------------------------------------------------------------------------------------------------
// virtual time
// ------------------------------------------------------------------------------------------------

struct Sleep {
    deadline: u64,
    key: Option<(u64, u64)>,
}
impl Future for Sleep {
    type Output = ();
    fn poll(mut self: Pin<&mut Self>, cx: &mut Context<'_>) -> Poll<()> {
        let deadline = self.deadline;
        let key = self.key;
        let r = with_exec(|e| {
            if e.now >= deadline {
                if let Some(k) = key {
                    e.timers.remove(&k);
                }
                return (true, None);
            }
            let k = key.unwrap_or_else(|| {
                e.tseq += 1;
                (deadline, e.tseq)
            });
            e.timers.insert(k, cx.waker().clone());
            (false, Some(k))
        });
        match r {
            Some((true, _)) => {
                self.key = None;
                Poll::Ready(())
            }
            Some((false, k)) => {
                self.key = k;
                Poll::Pending
            }
            // no execution: time never advances
            None => Poll::Pending,
        }
    }
}
impl Drop for Sleep {
    fn drop(&mut self) {
        if let Some(k) = self.key.take() {
            with_exec(|e| {
                e.timers.remove(&k);
            });
        }
    }
}

async fn clock_task() {
    loop {
        if let Some(div) = with_exec(|e| if e.abort { Some(e.divergence.is_some()) } else { None }).flatten() {
            std::panic::panic_any(if div { PANIC_DIVERGENCE } else { PANIC_LIVENESS });
        }
        let due: Vec<Waker> = with_exec(|e| {
            let Some((d, _)) = e.timers.keys().next().copied() else {
                return vec![];
            };
            if d > e.now {
                e.now = d;
            }
            let now = e.now;
            let keys: Vec<_> = e.timers.range(..=(now, u64::MAX)).map(|(k, _)| *k).collect();
            keys.into_iter().filter_map(|k| e.timers.remove(&k)).collect()
        })
        .unwrap_or_default();
        for w in due {
            w.wake();
        }
        shuttle::future::yield_now().await;
    }
}

// ------------------------------------------------------------------------------------------------
// harness API (call from inside a body)
// ------------------------------------------------------------------------------------------------

/// Virtual time in nanoseconds
pub fn now() -> u64 {
    with_exec(|e| e.now).unwrap_or(0)
}

/// Consume virtual time without yielding (models computation that takes time)
pub fn burn(d: std::time::Duration) {
    with_exec(|e| e.now = e.now.saturating_add(d.as_nanos() as u64));
}

/// Next value of the logical clock (a total order over everything the harness stamps)
pub fn stamp() -> u64 {
    sched_point_op(PointKind::Other, "stamp", LC_OBJ, OP_EXCLUSIVE);
    with_exec(|e| {
        e.lc += 1;
        e.lc
    })
    .unwrap_or(0)
}

/// Stamp taken immediately before calling an operation under test. Oracles may only compare it
/// with return stamps ("the call began after that operation had returned").
pub fn call_stamp() -> u64 {
    sched_point_op(PointKind::Other, "stamp.call", LC_OBJ, OP_STAMP_CALL);
    with_exec(|e| {
        e.lc += 1;
        e.lc
    })
    .unwrap_or(0)
}

/// Stamp taken immediately after an operation under test returned (see [call_stamp])
pub fn ret_stamp() -> u64 {
    sched_point_op(PointKind::Other, "stamp.ret", LC_OBJ, OP_STAMP_RET);
    with_exec(|e| {
        e.lc += 1;
        e.lc
    })
    .unwrap_or(0)
}

/// Append an event to the execution's trace; returns its logical time
pub fn log(text: impl Into<String>) -> u64 {
    let text = text.into();
    let who = if with_exec(|e| e.active).unwrap_or(false) && !std::thread::panicking() {
        shuttle_me_or_none()
    } else {
        usize::MAX
    };
    with_exec(|e| {
        e.lc += 1;
        let lc = e.lc;
        if e.cfg.keep_trace {
            e.trace.push((lc, e.now, who, text));
        }
        lc
    })
    .unwrap_or(0)
}

/// Install an invariant that is evaluated at every scheduling step of this execution. The closure
/// must only observe (no ractor call that can block, no scheduling point).
pub fn set_invariant(f: impl Fn() -> Vec<String> + 'static) {
    with_exec(|e| e.invariant = Some(std::rc::Rc::new(f)));
}

/// An explored environment answer (must be listed in `ExecCfg::choose_labels`)
pub fn choose(label: &'static str, n: usize) -> usize {
    HOOKS.choose(label, n)
}

/// Switch schedule exploration off / on for a phase of the body (set-up, uninteresting prefixes):
/// while off, every scheduling decision takes its default and is not recorded.
pub fn explore_schedules(on: bool) {
    with_exec(|e| e.no_explore = !on);
}

/// A *free* choice: scenario enumeration (e.g. "which event comes next in the history"). Every
/// alternative is explored whatever the deviation bound; it never counts as a deviation.
pub fn choose_free(label: &'static str, n: usize) -> usize {
    if !active() {
        return 0;
    }
    match with_exec(|e| e.choose(label, n, true)).unwrap_or(Ok(0)) {
        Ok(c) => c,
        Err(()) => {
            with_exec(|e| e.active = false);
            std::panic::panic_any(PANIC_DIVERGENCE)
        }
    }
}

/// A harness-level scheduling point (subject to the job's filter, kind `Other`)
pub fn point(label: &'static str) {
    sched_point(PointKind::Other, label)
}

/// Handle to a harness task
pub struct Join<T> {
    slot: Arc<Mutex<(Option<T>, Option<Waker>, bool)>>,
    shared: Arc<TaskShared>,
}
impl<T> Join<T> {
    pub fn abort(&self) {
        Ctl(self.shared.clone()).abort()
    }
    pub fn is_finished(&self) -> bool {
        self.shared.finished.load(Ordering::SeqCst)
    }
}
impl<T> Future for Join<T> {
    /// `None` if the task was aborted / cut
    type Output = Option<T>;
    fn poll(self: Pin<&mut Self>, cx: &mut Context<'_>) -> Poll<Option<T>> {
        let mut s = self.slot.lock().unwrap();
        if let Some(v) = s.0.take() {
            return Poll::Ready(Some(v));
        }
        if s.2 {
            return Poll::Ready(None);
        }
        s.1 = Some(cx.waker().clone());
        Poll::Pending
    }
}

struct Done<T>(Arc<Mutex<(Option<T>, Option<Waker>, bool)>>);
impl<T> Drop for Done<T> {
    fn drop(&mut self) {
        let w = {
            let mut s = self.0.lock().unwrap();
            s.2 = true;
            s.1.take()
        };
        if let Some(w) = w {
            if with_exec(|e| e.active).unwrap_or(false) && !std::thread::panicking() {
                w.wake();
            }
        }
    }
}

/// Spawn a harness task with a role (roles drive the yield filter and the focus set)
pub fn spawn<T: 'static>(role: &str, fut: impl Future<Output = T> + 'static) -> Join<T> {
    let slot = Arc::new(Mutex::new((None, None, false)));
    let done = Done(slot.clone());
    let shared = spawn_wrapped(
        role,
        None,
        false,
        Box::pin(async move {
            let v = fut.await;
            done.0.lock().unwrap().0 = Some(v);
            drop(done);
        }),
    );
    Join { slot, shared }
}

/// Wait until every other task is blocked (virtual time stands still)
pub fn quiesce() {
    quiesce_mode(QuiesceMode::NoTime)
}

/// Wait until every other task is blocked and no timer is pending (or the virtual horizon)
pub fn quiesce_time() {
    quiesce_mode(QuiesceMode::WithTime)
}

fn quiesce_mode(mode: QuiesceMode) {
    if !with_exec(|e| e.active).unwrap_or(false) || std::thread::panicking() {
        return;
    }
    let id = me();
    with_exec(|e| e.quiescing = Some((id, mode)));
    loop {
        shuttle::thread::yield_now();
        if with_exec(|e| e.quiescing.is_none()).unwrap_or(true) {
            break;
        }
    }
}

/// Run `fut` but drop it before its `at_poll`-th poll (1-based); `None` if it was cut
pub async fn cut<T>(fut: impl Future<Output = T>, at_poll: usize) -> Option<T> {
    let mut fut = Box::pin(fut);
    let mut polls = 0usize;
    let mut slot = Some(());
    std::future::poll_fn(move |cx| {
        if slot.is_none() {
            return Poll::Ready(None);
        }
        polls += 1;
        if polls == at_poll {
            slot = None;
            log(format!("CUT harness future before poll {polls}"));
            // drop happens when the closure is dropped; signal the caller now
            return Poll::Ready(None);
        }
        match fut.as_mut().poll(cx) {
            Poll::Ready(v) => Poll::Ready(Some(v)),
            Poll::Pending => Poll::Pending,
        }
    })
    .await
}

/// Poll `fut` up to `polls` times and drop it right after the last of them returned Pending (without waiting
/// to be woken again, unlike [`cut`]): a caller that sends its request and walks away. `None` if dropped.
pub async fn poll_then_drop<T>(fut: impl Future<Output = T>, polls: usize) -> Option<T> {
    let mut fut = Some(Box::pin(fut));
    let mut done = 0usize;
    std::future::poll_fn(move |cx| {
        let Some(f) = fut.as_mut() else { return Poll::Ready(None) };
        done += 1;
        match f.as_mut().poll(cx) {
            Poll::Ready(v) => Poll::Ready(Some(v)),
            Poll::Pending if done >= polls => {
                log(format!("DROP harness future after poll {done}"));
                fut = None;
                Poll::Ready(None)
            }
            Poll::Pending => Poll::Pending,
        }
    })
    .await
}

/// Count how often a future is polled until it completes
pub async fn count_polls<T>(fut: impl Future<Output = T>) -> (T, usize) {
    let mut fut = Box::pin(fut);
    let mut polls = 0usize;
    let v = std::future::poll_fn(|cx| {
        polls += 1;
        fut.as_mut().poll(cx)
    })
    .await;
    (v, polls)
}

/// Yield to the scheduler from synchronous code running inside a task (for instance a callback that the code
/// under test invokes in the middle of one of its handlers): the other runnable tasks get a turn before the
/// caller continues. Outside an execution it does nothing.
pub fn yield_sync() {
    if !active() || std::thread::panicking() {
        return;
    }
    with_exec(|e| e.yielded = true);
    shuttle::thread::yield_now();
}

/// Yield once to the scheduler from async harness code: by default the longest-waiting runnable
/// task runs next (the yielding task stays an alternative)
pub async fn yield_now() {
    with_exec(|e| e.yielded = true);
    shuttle::future::yield_now().await
}

/// Sleep on the virtual clock
pub async fn sleep(d: std::time::Duration) {
    let deadline = now().saturating_add(d.as_nanos() as u64);
    Sleep { deadline, key: None }.await
}

// ------------------------------------------------------------------------------------------------
// running one execution
// ------------------------------------------------------------------------------------------------

/// What a body reports
#[derive(Debug, Clone, Default)]
pub struct Outcome {
    /// canonical description of what was observed (distinct keys = distinct outcomes)
    pub key: String,
    /// violated clauses (empty = the property held on this execution)
    pub violations: Vec<String>,
}

pub type BodyFut = Pin<Box<dyn Future<Output = Outcome>>>;
pub type Body = Arc<dyn Fn() -> BodyFut + Send + Sync>;

#[derive(Debug, Clone, Default)]
pub struct ExecResult {
    pub path: Vec<Choice>,
    pub steps: usize,
    /// steps executed after the replayed prefix (the part of the tree this execution added)
    pub new_steps: usize,
    pub outcome: Option<Outcome>,
    /// partial-order reduction: every enabled move was already covered elsewhere (not a verdict)
    pub blocked: bool,
    pub liveness: Option<String>,
    pub panic: Option<String>,
    pub divergence: Option<String>,
    pub trace: Vec<(u64, u64, usize, String)>,
    pub tasks: Vec<String>,
    pub polls: Vec<(Option<String>, usize)>,
    pub residue: Vec<String>,
    pub virtual_ns: u64,
    pub points_seen: usize,
    pub points_taken: usize,
    pub invariant_violations: Vec<String>,
}

static INIT: std::sync::Once = std::sync::Once::new();

/// Install the hooks, silence the panic hook, initialise process-wide statics deterministically
pub fn init() {
    INIT.call_once(|| {
        ractor::verif::install(&HOOKS);
        // let shuttle install its (chatty) panic hook once, then replace it with a silent one that
        // only remembers the last message
        let mut cfg = shuttle::Config::new();
        cfg.failure_persistence = shuttle::FailurePersistence::None;
        shuttle::Runner::new(OneShot { started: false }, cfg).run(|| {});
        std::panic::set_hook(Box::new(|info| {
            let msg = if let Some(s) = info.payload().downcast_ref::<&str>() {
                s.to_string()
            } else if let Some(s) = info.payload().downcast_ref::<String>() {
                s.clone()
            } else {
                "<non-string panic>".to_string()
            };
            if msg == PANIC_LIVENESS || msg == PANIC_DIVERGENCE {
                return;
            }
            let loc = info.location().map(|l| format!(" at {}:{}", l.file(), l.line())).unwrap_or_default();
            if std::env::var_os("VSCHED_VERBOSE").is_some() {
                eprintln!("[panic] {msg}{loc}");
            }
            LAST_PANIC.with(|p| *p.borrow_mut() = Some(format!("{msg}{loc}")));
        }));
        // process-wide lazily created maps: create them now, on a thread with the canonical seed,
        // so that their hasher keys do not depend on which execution touches them first
        shim::reset(0);
        std::thread::spawn(|| {
            let _ = ractor::registry::where_is("");
            let _ = ractor::pg::which_groups();
            let _ = ractor::verif::inspect::reset_globals();
        })
        .join()
        .unwrap();
    });
}

// One execution = one request to an *executor*: an OS thread that owns a shuttle `Runner` whose
// scheduler asks for the next request in `new_execution()`. A persistent executor (harnesses that do
// not depend on std hashing) reuses shuttle's coroutine pool across executions; a one-shot executor
// (fresh thread, hence fresh per-thread hash keys) serves a single request.

struct Req {
    cfg: ExecCfg,
    body: Body,
    prefix: Vec<Choice>,
}

thread_local! {
    static CUR_BODY: RefCell<Option<Body>> = const { RefCell::new(None) };
    static CUR_OUT: RefCell<Option<Outcome>> = const { RefCell::new(None) };
    static CUR_RESIDUE: RefCell<Vec<String>> = const { RefCell::new(Vec::new()) };
}

fn setup_exec(req: Req) {
    let residue = ractor::verif::inspect::reset_globals();
    CUR_RESIDUE.with(|r| *r.borrow_mut() = residue);
    CUR_OUT.with(|o| *o.borrow_mut() = None);
    CUR_BODY.with(|b| *b.borrow_mut() = Some(req.body));
    LAST_PANIC.with(|p| *p.borrow_mut() = None);
    EXEC.with(|e| {
        *e.borrow_mut() = Some(Exec {
            cfg: req.cfg,
            active: true,
            final_phase: false,
            now: 0,
            timers: BTreeMap::new(),
            tseq: 0,
            clock_task: None,
            prefix: req.prefix,
            path: Vec::new(),
            steps: 0,
            prefix_done_at: 0,
            queue: Vec::new(),
            contended: false,
            yielded: false,
            no_explore: false,
            contended_streak: 0,
            parked: Vec::new(),
            in_spawn: false,
            force_next: None,
            pending: Vec::new(),
            sleep: Vec::new(),
            blocked: false,
            quiescing: None,
            tasks: Vec::new(),
            spawn_ordinal: 0,
            polls: Vec::new(),
            lc: 0,
            trace: Vec::new(),
            liveness: None,
            divergence: None,
            abort: false,
            points_seen: 0,
            points_taken: 0,
            invariant: None,
            invariant_violations: Vec::new(),
        })
    });
}

fn take_result(panic: Option<Box<dyn std::any::Any + Send>>) -> Option<ExecResult> {
    let e = EXEC.with(|e| e.borrow_mut().take())?;
    let mut res = ExecResult {
        path: e.path,
        steps: e.steps,
        new_steps: e.steps - e.prefix_done_at.min(e.steps),
        outcome: CUR_OUT.with(|o| o.borrow_mut().take()),
        blocked: e.blocked,
        liveness: e.liveness.map(|l| match l {
            Liveness::Hang(s) => format!("HANG: {s}"),
            Liveness::Deadlock(s) => format!("DEADLOCK: {s}"),
            Liveness::Livelock(s) => format!("LIVELOCK: {s}"),
        }),
        panic: None,
        divergence: e.divergence,
        trace: e.trace,
        tasks: e
            .tasks
            .iter()
            .flatten()
            .map(|t| format!("{}:{}{}", t.id, t.role, t.name.as_ref().map(|n| format!("({n})")).unwrap_or_default()))
            .collect(),
        polls: e.polls,
        residue: CUR_RESIDUE.with(|r| std::mem::take(&mut *r.borrow_mut())),
        virtual_ns: e.now,
        points_seen: e.points_seen,
        points_taken: e.points_taken,
        invariant_violations: e.invariant_violations,
    };
    CUR_BODY.with(|b| *b.borrow_mut() = None);
    if let Some(p) = panic {
        let msg = if let Some(s) = p.downcast_ref::<&str>() {
            s.to_string()
        } else if let Some(s) = p.downcast_ref::<String>() {
            s.clone()
        } else {
            "<non-string panic>".to_string()
        };
        if msg == PANIC_LIVENESS {
            if res.liveness.is_none() && !res.blocked {
                res.liveness = Some("HANG: (no detail)".into());
            }
        } else if msg == PANIC_DIVERGENCE {
            if res.divergence.is_none() {
                res.divergence = Some("(no detail)".into());
            }
        } else if msg.starts_with("deadlock!") {
            res.liveness = Some(format!("HANG: {msg}"));
        } else {
            let detail = LAST_PANIC.with(|p| p.borrow().clone()).unwrap_or_default();
            res.panic = Some(format!("{msg} [{detail}]"));
        }
    }
    Some(res)
}

/// the closure every execution's main task runs
fn main_task() {
    with_exec(|e| {
        e.set_info(TaskInfo {
            id: 0,
            role: "main".into(),
            name: None,
            ordinal: usize::MAX,
        })
    });
    // the clock is the first task spawned: id 1
    with_exec(|e| e.in_spawn = true);
    let clock = shuttle::future::spawn(clock_task());
    with_exec(|e| {
        e.in_spawn = false;
        e.clock_task = Some(1);
        e.set_info(TaskInfo {
            id: 1,
            role: "clock".into(),
            name: None,
            ordinal: usize::MAX,
        });
    });
    drop(clock);
    let body = CUR_BODY.with(|b| b.borrow().clone()).expect("vsched: no body");
    let o = shuttle::future::block_on((body)());
    CUR_OUT.with(|c| *c.borrow_mut() = Some(o));
    // let whatever is still runnable run until it blocks, taking defaults only and without
    // scheduling points, so that no task is torn down in the middle of a critical section
    with_exec(|e| e.final_phase = true);
    quiesce();
    with_exec(|e| e.active = false);
}

struct Served {
    rx: std::sync::mpsc::Receiver<Option<Req>>,
    tx: std::sync::mpsc::Sender<ExecResult>,
    one_shot: bool,
    served: usize,
    stop: Arc<AtomicBool>,
}

impl Scheduler for Served {
    fn new_execution(&mut self) -> Option<Schedule> {
        // the previous execution (if any) ended normally and has been cleaned up
        if let Some(r) = take_result(None) {
            let _ = self.tx.send(r);
        }
        if self.one_shot && self.served > 0 {
            self.stop.store(true, Ordering::SeqCst);
            return None;
        }
        match self.rx.recv() {
            Ok(Some(req)) => {
                self.served += 1;
                setup_exec(req);
                Some(Schedule::new(0))
            }
            _ => {
                self.stop.store(true, Ordering::SeqCst);
                None
            }
        }
    }
    fn next_task(&mut self, runnable: &[&Task], current: Option<TaskId>, y: bool) -> Option<TaskId> {
        OneShot { started: true }.next_task(runnable, current, y)
    }
    fn next_u64(&mut self) -> u64 {
        0
    }
}

fn executor_thread(
    rx: std::sync::mpsc::Receiver<Option<Req>>,
    tx: std::sync::mpsc::Sender<ExecResult>,
    stack: usize,
    one_shot: bool,
) {
    let stop = Arc::new(AtomicBool::new(false));
    let rx = Arc::new(Mutex::new(Some(rx)));
    let mut served_total = 0usize;
    loop {
        let mut scfg = shuttle::Config::new();
        scfg.stack_size = stack;
        scfg.failure_persistence = shuttle::FailurePersistence::None;
        scfg.max_steps = shuttle::MaxSteps::None;
        scfg.silence_warnings = true;
        let Some(my_rx) = rx.lock().unwrap().take() else { return };
        // the receiver must survive a panicking runner: park it in a cell the scheduler gives back
        let back = rx.clone();
        struct GiveBack {
            inner: Option<Served>,
            back: Arc<Mutex<Option<std::sync::mpsc::Receiver<Option<Req>>>>>,
            count: Arc<std::sync::atomic::AtomicUsize>,
        }
        impl Drop for GiveBack {
            fn drop(&mut self) {
                if let Some(s) = self.inner.take() {
                    self.count.store(s.served, Ordering::SeqCst);
                    *self.back.lock().unwrap() = Some(s.rx);
                }
            }
        }
        impl Scheduler for GiveBack {
            fn new_execution(&mut self) -> Option<Schedule> {
                self.inner.as_mut().unwrap().new_execution()
            }
            fn next_task(&mut self, r: &[&Task], c: Option<TaskId>, y: bool) -> Option<TaskId> {
                self.inner.as_mut().unwrap().next_task(r, c, y)
            }
            fn next_u64(&mut self) -> u64 {
                0
            }
        }
        let count = Arc::new(std::sync::atomic::AtomicUsize::new(0));
        let sched = GiveBack {
            inner: Some(Served {
                rx: my_rx,
                tx: tx.clone(),
                one_shot,
                served: if one_shot { served_total } else { 0 },
                stop: stop.clone(),
            }),
            back,
            count: count.clone(),
        };
        let runner = shuttle::Runner::new(sched, scfg);
        let r = std::panic::catch_unwind(std::panic::AssertUnwindSafe(|| {
            runner.run(main_task);
        }));
        served_total += count.load(Ordering::SeqCst);
        match r {
            Ok(_) => return, // the scheduler said stop
            Err(p) => {
                // the execution was abandoned by a panic (violation paths): report it, start over
                if let Some(res) = take_result(Some(p)) {
                    let _ = tx.send(res);
                }
                if one_shot || stop.load(Ordering::SeqCst) {
                    return;
                }
            }
        }
    }
}

struct Executor {
    tx: std::sync::mpsc::Sender<Option<Req>>,
    rx: std::sync::mpsc::Receiver<ExecResult>,
    stack: usize,
    handle: Option<std::thread::JoinHandle<()>>,
}

impl Executor {
    fn start(stack: usize, one_shot: bool) -> Executor {
        let (tx, rx_req) = std::sync::mpsc::channel::<Option<Req>>();
        let (tx_res, rx) = std::sync::mpsc::channel::<ExecResult>();
        let handle = std::thread::Builder::new()
            .name("vsched-exec".into())
            .stack_size(1 << 21)
            .spawn(move || executor_thread(rx_req, tx_res, stack, one_shot))
            .expect("spawn executor thread");
        Executor {
            tx,
            rx,
            stack,
            handle: Some(handle),
        }
    }
    fn run(&mut self, req: Req) -> ExecResult {
        self.tx.send(Some(req)).expect("executor gone");
        match self.rx.recv() {
            Ok(r) => r,
            Err(_) => {
                eprintln!("vsched: MACHINERY ERROR: executor thread died without a result");
                std::process::exit(2);
            }
        }
    }
}
impl Drop for Executor {
    fn drop(&mut self) {
        let _ = self.tx.send(None);
        if let Some(h) = self.handle.take() {
            let _ = h.join();
        }
    }
}

thread_local! {
    static PERSISTENT: RefCell<Option<Executor>> = const { RefCell::new(None) };
}

/// Run one execution of `body` following `prefix`, then defaults
pub fn run_one(cfg: &ExecCfg, body: &Body, prefix: &[Choice]) -> ExecResult {
    init();
    let req = Req {
        cfg: cfg.clone(),
        body: body.clone(),
        prefix: prefix.to_vec(),
    };
    if cfg.fresh_thread {
        shim::reset(cfg.hash_seed);
        let mut ex = Executor::start(cfg.stack, true);
        ex.run(req)
    } else {
        PERSISTENT.with(|p| {
            let mut p = p.borrow_mut();
            if p.as_ref().is_some_and(|e| e.stack != cfg.stack) {
                *p = None;
            }
            let ex = p.get_or_insert_with(|| Executor::start(cfg.stack, false));
            ex.run(req)
        })
    }
}
