use std::sync::Arc;
use ractor::verif::atomic::AtomicUsize;
use std::sync::atomic::Ordering;
use vsched::explore::{explore, Job, JobEnd};
use vsched::{ExecCfg, Outcome, PointKind};

fn body(shared: bool, ops: usize, tasks: usize) -> vsched::Body {
    Arc::new(move || {
        Box::pin(async move {
            let objs: Vec<Arc<AtomicUsize>> = (0..tasks).map(|_| Arc::new(AtomicUsize::new(0))).collect();
            let mut hs = vec![];
            for t in 0..tasks {
                let o = if shared { objs[0].clone() } else { objs[t].clone() };
                hs.push(vsched::spawn("w", async move {
                    let mut seen = vec![];
                    for _ in 0..ops {
                        seen.push(o.fetch_add(1, Ordering::SeqCst));
                    }
                    seen
                }));
            }
            vsched::quiesce();
            let mut all = vec![];
            for h in hs {
                all.push(h.await.unwrap());
            }
            Outcome { key: format!("{all:?}"), violations: vec![] }
        })
    })
}

fn main() {
    let args: Vec<String> = std::env::args().collect();
    let shared = args.get(1).map(|s| s == "shared").unwrap_or(false);
    let ops: usize = args.get(2).and_then(|s| s.parse().ok()).unwrap_or(2);
    let tasks: usize = args.get(3).and_then(|s| s.parse().ok()).unwrap_or(2);
    let por = args.get(4).map(|s| s != "nopor").unwrap_or(true);
    let cfg = ExecCfg {
        filter: Some(vsched::filter_roles(&[PointKind::Atomic, PointKind::Other], &["w"])),
        fresh_thread: false,
        keep_trace: false,
        stack: 1 << 16,
        ..Default::default()
    };
    let mut job = Job::new("selftest", cfg, None, body(shared, ops, tasks));
    job.por = por;
    let t = std::time::Instant::now();
    match explore(&job) {
        JobEnd::Done(st) => println!(
            "execs={} total={} blocked={} nodes={} outcomes={} bound={:?} wall={:.2}s per_exec={:.1}us",
            st.execs, st.execs_total, st.sleep_blocked, st.nodes, st.outcomes.len(), st.bound_completed, t.elapsed().as_secs_f64(),
            t.elapsed().as_secs_f64() * 1e6 / st.execs_total as f64
        ),
        JobEnd::Violation(_, v) => println!("violation {:?}", v.clauses),
        JobEnd::Machinery(m) => println!("machinery {m}"),
    }
}
