//! Shared harness actors: `Probe` (runs a small program in every callback and logs
//! Enter / Tick / Exit|Cancelled with logical and virtual time) and `Sup` (logs every supervision event).
#![allow(dead_code)]

use std::future::Future;
use std::pin::Pin;
use std::sync::{Arc, Mutex};

use ractor::{Actor, ActorProcessingErr, ActorRef, RpcReplyPort, SupervisionEvent};

pub type BoxFut = Pin<Box<dyn Future<Output = Result<(), ActorProcessingErr>> + Send>>;
pub type CustomFn = Arc<dyn Fn(ActorRef<PMsg>) -> BoxFut + Send + Sync>;

#[derive(Clone)]
pub enum Step {
    Tick,
    Yield,
    SleepMs(u64),
    SendSelf(u32),
    Err(&'static str),
    Panic(&'static str),
    StopSelf,
    KillSelf,
    Custom(&'static str, CustomFn),
}

impl std::fmt::Debug for Step {
    fn fmt(&self, f: &mut std::fmt::Formatter<'_>) -> std::fmt::Result {
        match self {
            Step::Tick => write!(f, "Tick"),
            Step::Yield => write!(f, "Yield"),
            Step::SleepMs(d) => write!(f, "Sleep({d}ms)"),
            Step::SendSelf(t) => write!(f, "SendSelf({t})"),
            Step::Err(m) => write!(f, "Err({m})"),
            Step::Panic(m) => write!(f, "Panic({m})"),
            Step::StopSelf => write!(f, "StopSelf"),
            Step::KillSelf => write!(f, "KillSelf"),
            Step::Custom(n, _) => write!(f, "Custom({n})"),
        }
    }
}

#[derive(Clone, Debug, Default)]
pub struct Prog {
    pub pre_start: Vec<Step>,
    pub post_start: Vec<Step>,
    /// run by `handle_supervisor_evt` after logging the event (the default "stop on child exit"
    /// behaviour is NOT applied: supervisors in the harness decide through this program)
    pub sup: Vec<Step>,
    pub post_stop: Vec<Step>,
    /// the actor's state panics when it is dropped (unless the thread is unwinding already)
    pub state_drop_panics: bool,
}

#[cfg(feature = "alt")]
impl ractor::Message for PMsg {}

pub enum PMsg {
    Do { tag: u32, steps: Vec<Step> },
    Call { tag: u32, reply: RpcReplyPort<u32>, steps: Vec<Step> },
}

#[derive(Clone, Debug, PartialEq, Eq)]
pub enum Cb {
    PreStart,
    PostStart,
    Handle(u32),
    Sup(String),
    PostStop,
}

#[derive(Clone, Debug, PartialEq, Eq)]
pub enum EvKind {
    Enter,
    Tick(u32),
    ExitOk,
    ExitErr,
    Panicked,
    Cancelled,
}

#[derive(Clone, Debug)]
pub struct Ev {
    pub lc: u64,
    pub vt: u64,
    pub actor: String,
    pub cb: Cb,
    pub kind: EvKind,
    pub version: u64,
}

#[derive(Clone, Default)]
pub struct Log(pub Arc<Mutex<Vec<Ev>>>);

impl Log {
    pub fn push(&self, actor: &str, cb: &Cb, kind: EvKind, version: u64) -> u64 {
        let lc = vsched::log(format!("{actor} {cb:?} {kind:?} v{version}"));
        self.0.lock().unwrap().push(Ev {
            lc,
            vt: vsched::now(),
            actor: actor.to_string(),
            cb: cb.clone(),
            kind,
            version,
        });
        lc
    }
    pub fn snapshot(&self) -> Vec<Ev> {
        self.0.lock().unwrap().clone()
    }
    pub fn of(&self, actor: &str) -> Vec<Ev> {
        self.0.lock().unwrap().iter().filter(|e| e.actor == actor).cloned().collect()
    }
    /// compact rendering used as outcome key
    pub fn render(&self) -> String {
        self.0
            .lock()
            .unwrap()
            .iter()
            .map(|e| {
                let cb = match &e.cb {
                    Cb::PreStart => "pre".to_string(),
                    Cb::PostStart => "post".to_string(),
                    Cb::Handle(t) => format!("h{t}"),
                    Cb::Sup(s) => format!("sup[{s}]"),
                    Cb::PostStop => "stop".to_string(),
                };
                let k = match &e.kind {
                    EvKind::Enter => "+".to_string(),
                    EvKind::Tick(n) => format!(".{n}"),
                    EvKind::ExitOk => "-".to_string(),
                    EvKind::ExitErr => "-E".to_string(),
                    EvKind::Panicked => "-P".to_string(),
                    EvKind::Cancelled => "-C".to_string(),
                };
                format!("{}:{cb}{k}", e.actor)
            })
            .collect::<Vec<_>>()
            .join(" ")
    }
}

#[derive(Clone)]
pub struct ProbeArgs {
    pub id: String,
    pub prog: Prog,
    pub log: Log,
}

pub struct ProbeState {
    pub id: String,
    pub prog: Prog,
    pub log: Log,
    pub version: u64,
}
impl Drop for ProbeState {
    fn drop(&mut self) {
        if self.prog.state_drop_panics && !std::thread::panicking() {
            panic!("the state's destructor panics");
        }
    }
}

struct CbGuard<'a> {
    log: &'a Log,
    id: &'a str,
    cb: Cb,
    version: u64,
    done: bool,
}
impl Drop for CbGuard<'_> {
    fn drop(&mut self) {
        if !self.done {
            let k = if std::thread::panicking() { EvKind::Panicked } else { EvKind::Cancelled };
            self.log.push(self.id, &self.cb, k, self.version);
        }
    }
}

async fn run_steps(
    steps: &[Step],
    myself: &ActorRef<PMsg>,
    log: &Log,
    id: &str,
    cb: &Cb,
    version: &mut u64,
) -> Result<(), ActorProcessingErr> {
    let mut tick = 0u32;
    for s in steps {
        match s {
            Step::Tick => {
                tick += 1;
                *version += 1;
                log.push(id, cb, EvKind::Tick(tick), *version);
            }
            Step::Yield => vsched::yield_now().await,
            Step::SleepMs(ms) => ractor::concurrency::sleep(std::time::Duration::from_millis(*ms)).await,
            Step::SendSelf(tag) => {
                let _ = myself.cast(PMsg::Do { tag: *tag, steps: vec![] });
            }
            Step::Err(m) => return Err(From::from(*m)),
            Step::Panic(m) => panic!("{}", m),
            Step::StopSelf => myself.stop(None),
            Step::KillSelf => myself.kill(),
            Step::Custom(_, f) => f(myself.clone()).await?,
        }
    }
    Ok(())
}

async fn callback(
    steps: &[Step],
    myself: &ActorRef<PMsg>,
    log: &Log,
    id: &str,
    cb: Cb,
    version: &mut u64,
) -> Result<(), ActorProcessingErr> {
    log.push(id, &cb, EvKind::Enter, *version);
    let mut g = CbGuard {
        log,
        id,
        cb: cb.clone(),
        version: *version,
        done: false,
    };
    let r = run_steps(steps, myself, log, id, &cb, version).await;
    g.done = true;
    log.push(id, &cb, if r.is_ok() { EvKind::ExitOk } else { EvKind::ExitErr }, *version);
    r
}

/// The callback was *invoked*: logged at once, synchronously, by the callback function itself (the default
/// build writes the callbacks in the explicit `fn ... -> impl Future` form, so this happens when the runtime
/// calls the function, not when it first polls what the function returned). Dropping the guard without
/// `finish` logs a cancellation (or a panic).
pub struct Entered {
    log: Log,
    id: String,
    cb: Cb,
    version: u64,
    done: bool,
}
impl Entered {
    pub fn now(log: &Log, id: &str, cb: Cb, version: u64) -> Self {
        log.push(id, &cb, EvKind::Enter, version);
        Entered { log: log.clone(), id: id.to_string(), cb, version, done: false }
    }
}
impl Drop for Entered {
    fn drop(&mut self) {
        if !self.done {
            let k = if std::thread::panicking() { EvKind::Panicked } else { EvKind::Cancelled };
            self.log.push(&self.id, &self.cb, k, self.version);
        }
    }
}

/// the asynchronous rest of a callback whose invocation was already logged
pub async fn run_entered(mut g: Entered, steps: Vec<Step>, myself: ActorRef<PMsg>, version: &mut u64) -> Result<(), ActorProcessingErr> {
    let (log, id, cb) = (g.log.clone(), g.id.clone(), g.cb.clone());
    let r = run_steps(&steps, &myself, &log, &id, &cb, version).await;
    g.version = *version;
    g.done = true;
    log.push(&id, &cb, if r.is_ok() { EvKind::ExitOk } else { EvKind::ExitErr }, *version);
    r
}

pub fn describe_event(e: &SupervisionEvent) -> String {
    match e {
        SupervisionEvent::ActorStarted(c) => format!("Started({})", c.get_id()),
        SupervisionEvent::ActorTerminated(c, st, reason) => {
            format!("Terminated({},state={},reason={:?})", c.get_id(), st.is_some(), reason)
        }
        SupervisionEvent::ActorFailed(c, err) => format!("Failed({},{})", c.get_id(), err),
        SupervisionEvent::ProcessGroupChanged(m) => match m {
            ractor::pg::GroupChangeMessage::Join(s, g, a) => {
                format!("PgJoin({s},{g},{:?})", a.iter().map(|c| c.get_id().to_string()).collect::<Vec<_>>())
            }
            ractor::pg::GroupChangeMessage::Leave(s, g, a) => {
                format!("PgLeave({s},{g},{:?})", a.iter().map(|c| c.get_id().to_string()).collect::<Vec<_>>())
            }
        },
        #[allow(unreachable_patterns)]
        _ => "Other".to_string(),
    }
}

/// default build: a program whose first step is `Panic("..prelude")` panics in the SYNCHRONOUS part of the callback
/// (the explicit `fn .. -> impl Future` form has one), i.e. when the runtime calls the function, before there is a
/// future it could guard; the invocation has been logged by then, so the log shows Enter + Panicked
pub fn prelude_panic(steps: &[Step]) {
    if let Some(Step::Panic(m)) = steps.first() {
        if m.ends_with("prelude") {
            panic!("{}", m);
        }
    }
}

/// The programmable actor. `Default`, so it can also be spawned as a thread-local actor through
/// ractor's blanket `ThreadLocalActor` implementation (which runs thread_local/inner.rs).
#[derive(Default)]
pub struct Probe;

/// default build: the callbacks are written in the explicit form the trait declares (`fn .. -> impl Future`),
/// with a synchronous prelude that logs the invocation; the alt build (async-trait) uses `async fn`
#[cfg(not(feature = "alt"))]
impl Actor for Probe {
    type Msg = PMsg;
    type State = ProbeState;
    type Arguments = ProbeArgs;

    fn pre_start(&self, myself: ActorRef<PMsg>, a: ProbeArgs) -> impl std::future::Future<Output = Result<ProbeState, ActorProcessingErr>> + Send {
        let g = Entered::now(&a.log, &a.id, Cb::PreStart, 0);
        // a first step Panic("prelude") panics HERE, in the synchronous part of the callback, before there is a
        // future the runtime could guard
        prelude_panic(&a.prog.pre_start);
        async move {
            let mut version = 0;
            run_entered(g, a.prog.pre_start.clone(), myself, &mut version).await?;
            Ok(ProbeState { id: a.id, prog: a.prog, log: a.log, version })
        }
    }
    fn post_start(&self, myself: ActorRef<PMsg>, s: &mut ProbeState) -> impl std::future::Future<Output = Result<(), ActorProcessingErr>> + Send {
        let g = Entered::now(&s.log, &s.id, Cb::PostStart, s.version);
        let steps = s.prog.post_start.clone();
        prelude_panic(&steps);
        async move { run_entered(g, steps, myself, &mut s.version).await }
    }
    fn handle(&self, myself: ActorRef<PMsg>, m: PMsg, s: &mut ProbeState) -> impl std::future::Future<Output = Result<(), ActorProcessingErr>> + Send {
        let tag = match &m {
            PMsg::Do { tag, .. } | PMsg::Call { tag, .. } => *tag,
        };
        let g = Entered::now(&s.log, &s.id, Cb::Handle(tag), s.version);
        match &m {
            PMsg::Do { steps, .. } | PMsg::Call { steps, .. } => prelude_panic(steps),
        }
        async move {
            match m {
                PMsg::Do { steps, .. } => run_entered(g, steps, myself, &mut s.version).await,
                PMsg::Call { tag, reply, steps } => {
                    let r = run_entered(g, steps, myself, &mut s.version).await;
                    let _ = reply.send(tag);
                    r
                }
            }
        }
    }
    fn handle_supervisor_evt(&self, myself: ActorRef<PMsg>, e: SupervisionEvent, s: &mut ProbeState) -> impl std::future::Future<Output = Result<(), ActorProcessingErr>> + Send {
        let g = Entered::now(&s.log, &s.id, Cb::Sup(describe_event(&e)), s.version);
        let steps = s.prog.sup.clone();
        prelude_panic(&steps);
        async move { run_entered(g, steps, myself, &mut s.version).await }
    }
    fn post_stop(&self, myself: ActorRef<PMsg>, s: &mut ProbeState) -> impl std::future::Future<Output = Result<(), ActorProcessingErr>> + Send {
        let g = Entered::now(&s.log, &s.id, Cb::PostStop, s.version);
        let steps = s.prog.post_stop.clone();
        prelude_panic(&steps);
        async move { run_entered(g, steps, myself, &mut s.version).await }
    }
}

#[cfg(feature = "alt")]
#[ractor::async_trait]
impl Actor for Probe {
    type Msg = PMsg;
    type State = ProbeState;
    type Arguments = ProbeArgs;

    async fn pre_start(&self, myself: ActorRef<PMsg>, a: ProbeArgs) -> Result<ProbeState, ActorProcessingErr> {
        let mut version = 0;
        callback(&a.prog.pre_start, &myself, &a.log, &a.id, Cb::PreStart, &mut version).await?;
        Ok(ProbeState {
            id: a.id,
            prog: a.prog,
            log: a.log,
            version,
        })
    }
    async fn post_start(&self, myself: ActorRef<PMsg>, s: &mut ProbeState) -> Result<(), ActorProcessingErr> {
        let steps = s.prog.post_start.clone();
        callback(&steps, &myself, &s.log, &s.id, Cb::PostStart, &mut s.version).await
    }
    async fn handle(&self, myself: ActorRef<PMsg>, m: PMsg, s: &mut ProbeState) -> Result<(), ActorProcessingErr> {
        match m {
            PMsg::Do { tag, steps } => callback(&steps, &myself, &s.log, &s.id, Cb::Handle(tag), &mut s.version).await,
            PMsg::Call { tag, reply, steps } => {
                let r = callback(&steps, &myself, &s.log, &s.id, Cb::Handle(tag), &mut s.version).await;
                let _ = reply.send(tag);
                r
            }
        }
    }
    async fn handle_supervisor_evt(
        &self,
        myself: ActorRef<PMsg>,
        e: SupervisionEvent,
        s: &mut ProbeState,
    ) -> Result<(), ActorProcessingErr> {
        let steps = s.prog.sup.clone();
        callback(&steps, &myself, &s.log, &s.id, Cb::Sup(describe_event(&e)), &mut s.version).await
    }
    async fn post_stop(&self, myself: ActorRef<PMsg>, s: &mut ProbeState) -> Result<(), ActorProcessingErr> {
        let steps = s.prog.post_stop.clone();
        callback(&steps, &myself, &s.log, &s.id, Cb::PostStop, &mut s.version).await
    }
}

pub fn args(id: &str, prog: Prog, log: &Log) -> ProbeArgs {
    ProbeArgs {
        id: id.to_string(),
        prog,
        log: log.clone(),
    }
}

/// the message type of a derived reference to a Probe (`ActorRef::get_derived`): converts into `PMsg::Do`
pub struct DMsg(pub u32, pub Vec<Step>);
impl From<DMsg> for PMsg {
    fn from(d: DMsg) -> PMsg {
        PMsg::Do { tag: d.0, steps: d.1 }
    }
}
impl TryFrom<PMsg> for DMsg {
    type Error = ();
    fn try_from(m: PMsg) -> Result<DMsg, ()> {
        match m {
            PMsg::Do { tag, steps } => Ok(DMsg(tag, steps)),
            _ => Err(()),
        }
    }
}
#[cfg(feature = "alt")]
impl ractor::Message for DMsg {}

pub fn do_msg(tag: u32, steps: Vec<Step>) -> PMsg {
    PMsg::Do { tag, steps }
}

// ------------------------------------------------------------------------------------------------
// lifecycle automaton (C01 clauses, reused by other checks as a side oracle)
// ------------------------------------------------------------------------------------------------

/// What the harness knows about how the actor was made to exit
#[derive(Debug, Clone, Default)]
pub struct ExitFacts {
    /// logical time at which a kill() of this actor returned, if any
    pub kill_returned: Option<u64>,
}

/// Checks the per-actor callback trace against the lifecycle rules of C01.
pub fn check_lifecycle(evs: &[Ev], actor: &str, facts: &ExitFacts) -> Vec<String> {
    let mut bad = Vec::new();
    let mine: Vec<&Ev> = evs.iter().filter(|e| e.actor == actor).collect();
    let mut open: Option<&Cb> = None;
    let mut pre_starts = 0;
    let mut post_starts = 0;
    let mut post_stops = 0;
    let mut pre_ok = false;
    let mut post_start_ok = false;
    let mut failed = false; // a callback ended in Err / panic
    let mut cancelled = false;
    let mut post_stop_entered = false;
    for e in &mine {
        match &e.kind {
            EvKind::Enter => {
                if let Some(o) = open {
                    bad.push(format!("{actor}: {:?} began while {:?} had not returned (overlap)", e.cb, o));
                }
                open = Some(&e.cb);
                if post_stop_entered {
                    bad.push(format!("{actor}: {:?} began after post_stop", e.cb));
                }
                match &e.cb {
                    Cb::PreStart => {
                        pre_starts += 1;
                        if pre_starts > 1 {
                            bad.push(format!("{actor}: pre_start ran twice"));
                        }
                        if mine.first().map(|f| f.lc) != Some(e.lc) {
                            bad.push(format!("{actor}: pre_start was not the first callback"));
                        }
                    }
                    Cb::PostStart => {
                        post_starts += 1;
                        if post_starts > 1 {
                            bad.push(format!("{actor}: post_start ran twice"));
                        }
                        if !pre_ok {
                            bad.push(format!("{actor}: post_start began without a successful pre_start"));
                        }
                    }
                    Cb::Handle(_) | Cb::Sup(_) => {
                        if !post_start_ok {
                            bad.push(format!("{actor}: {:?} began before post_start returned Ok", e.cb));
                        }
                        if failed {
                            bad.push(format!("{actor}: {:?} began after a callback had failed", e.cb));
                        }
                    }
                    Cb::PostStop => {
                        post_stops += 1;
                        post_stop_entered = true;
                        if post_stops > 1 {
                            bad.push(format!("{actor}: post_stop ran twice"));
                        }
                        if failed {
                            bad.push(format!("{actor}: post_stop ran after a handler error / panic"));
                        }
                        if cancelled {
                            bad.push(format!("{actor}: post_stop ran after a callback was cancelled (kill)"));
                        }
                        if !post_start_ok {
                            bad.push(format!("{actor}: post_stop ran although post_start never returned Ok"));
                        }
                        if let Some(k) = facts.kill_returned {
                            if e.lc > k {
                                bad.push(format!("{actor}: post_stop began after kill() had returned"));
                            }
                        }
                    }
                }
                if let Some(k) = facts.kill_returned {
                    if e.lc > k && !matches!(e.cb, Cb::PostStop) {
                        bad.push(format!("{actor}: {:?} began after kill() had returned", e.cb));
                    }
                }
            }
            EvKind::Tick(_) => {
                if open != Some(&e.cb) {
                    bad.push(format!("{actor}: tick of {:?} outside its Enter/Exit", e.cb));
                }
            }
            EvKind::ExitOk | EvKind::ExitErr | EvKind::Panicked | EvKind::Cancelled => {
                if open != Some(&e.cb) {
                    bad.push(format!("{actor}: {:?} ended ({:?}) but {:?} was the open callback", e.cb, e.kind, open));
                }
                open = None;
                match (&e.cb, &e.kind) {
                    (Cb::PreStart, EvKind::ExitOk) => pre_ok = true,
                    (Cb::PostStart, EvKind::ExitOk) => post_start_ok = true,
                    (_, EvKind::ExitErr) | (_, EvKind::Panicked) => failed = true,
                    (_, EvKind::Cancelled) => cancelled = true,
                    _ => {}
                }
            }
        }
    }
    bad
}

/// `true` in the third build of this harness (ractor features cluster + async-trait + monitors)
pub const ALT: bool = cfg!(feature = "alt");

/// body of a unit that belongs to another build of the harness
pub fn wrong_build() -> vsched::Body {
    std::sync::Arc::new(|| Box::pin(async { vsched::Outcome { key: "wrong build".into(), violations: vec!["MACHINERY: unit scheduled on the wrong build".into()] } }))
}

/// a unit that runs on the cluster / async-trait build of the harness
pub fn alt_unit(name: String, cfg: vsched::ExecCfg, bound: Option<usize>, body: vsched::Body, split: usize) -> vsched::report::Unit {
    let b = if ALT { body } else { wrong_build() };
    let mut u = vsched::report::Unit::explore_split(vsched::explore::Job::new(name, cfg, bound, b), split);
    u.exe_suffix = Some("-alt");
    u
}
