//! C06 — shutdown waits are accurate and never miss the wake-up.
use std::sync::{Arc, Mutex};
use std::time::Duration;

use ractor::{Actor, ActorRef, ActorStatus};
use vsched::explore::Job;
use vsched::report::{Plan, Unit};
use vsched::{CutSpec, ExecCfg, Outcome, PointKind, Sel};

use crate::common::*;

#[derive(Clone, Copy, Debug, PartialEq, Eq)]
enum Cause {
    Stop,
    Kill,
    Drain,
    Err,
    Panic,
    Abort(usize),
}

/// lets tasks that are suspended inside a pg operation (holding a guard into its tables) finish that operation
async fn pg_quiet() {
    let mut n = 0;
    while !ractor::pg::verif_quiet() && n < 200 {
        vsched::yield_now().await;
        n += 1;
    }
}

/// everything that must already be true when a wait returns Ok
fn observe(a: &ActorRef<PMsg>, log: &Log, who: &str, graceful: bool) -> Vec<String> {
    let mut bad = Vec::new();
    let st = a.get_status();
    if st != ActorStatus::Stopped {
        bad.push(format!("{who} returned while the status was {st:?}"));
    }
    if graceful {
        let done = log.of("A").iter().any(|e| e.cb == Cb::PostStop && e.kind == EvKind::ExitOk);
        if !done {
            bad.push(format!("{who} returned before post_stop had returned"));
        }
    }
    let id = a.get_id();
    if ractor::registry::verif_snapshot().iter().any(|(n, _)| n == "A") {
        bad.push(format!("{who} returned while the name was still registered"));
    }
    // (the raw snapshot needs every guard into the pg tables released: a suspended task, e.g. the pg racer waiting
    // for a lock, may hold one; callers let such tasks move on first, see `pg_quiet`)
    if ractor::pg::verif_quiet() {
        let pg = ractor::pg::verif_snapshot();
        if pg.groups.iter().any(|(_, _, m, l)| m.contains(&id) || l.contains(&id))
            || pg.world_listeners.iter().any(|(_, _, l)| l.contains(&id))
            || pg.relations.iter().any(|r| r.0 == id)
        {
            bad.push(format!("{who} returned while the actor was still known to pg: {pg:?}"));
        }
    } else if ractor::pg::get_scoped_members(&"__default_scope__".to_string(), &"g1".to_string()).iter().any(|c| c.get_id() == id) {
        bad.push(format!("{who} returned while the actor was still a member of g1"));
    }
    if !a.get_children().is_empty() {
        bad.push(format!("{who} returned while the actor still had children"));
    }
    if a.try_get_supervisor().is_some() {
        bad.push(format!("{who} returned while the actor was still linked to its supervisor"));
    }
    bad
}

fn body(cause: Cause) -> vsched::Body {
    body_x(cause, false)
}

/// `twin`: the second concurrent waiter uses the same closing API as the first (two kill_and_wait / stop_and_wait
/// / drain_and_wait callers at once: the one whose request comes second must wait all the same)
fn body_x(cause: Cause, twin: bool) -> vsched::Body {
    body_y(cause, twin, false)
}

/// `pg_racer`: while A exits, another task leaves and re-joins A's group on A's behalf and installs a monitor for
/// it (the exit path walks the same tables; whatever the interleaving, the exit completes and the waits return)
fn body_y(cause: Cause, twin: bool, pg_racer: bool) -> vsched::Body {
    body_z(cause, twin, pg_racer, Mon::None)
}

/// monitors build: who monitors A when it exits
#[derive(Clone, Copy, Debug, PartialEq, Eq)]
enum Mon {
    None,
    /// a monitor that stopped (without un-monitoring) before A's exit began: its port refuses the event
    Dead,
    /// the same next to a live monitor, which must be told exactly once
    DeadAndLive,
    /// the monitor is stopped by another task while A exits
    DyingMeanwhile,
}

fn body_z(cause: Cause, twin: bool, pg_racer: bool, mon: Mon) -> vsched::Body {
    if mon != Mon::None && !ALT {
        return wrong_build();
    }
    Arc::new(move || {
        Box::pin(async move {
            let log = Log::default();
            let bad: Arc<Mutex<Vec<String>>> = Arc::new(Mutex::new(Vec::new()));
            let (s, sh) = Actor::spawn(None, Probe, args("S", Prog::default(), &log)).await.expect("S");
            let (m, mh) = Actor::spawn(None, Probe, args("M", Prog::default(), &log)).await.expect("M");
            let (a, ah) = Actor::spawn_linked(Some("A".into()), Probe, args("A", Prog::default(), &log), s.get_cell())
                .await
                .expect("A");
            let (c, ch) = Actor::spawn_linked(None, Probe, args("C", Prog::default(), &log), a.get_cell())
                .await
                .expect("C");
            ractor::pg::monitor("g1".into(), m.get_cell());
            ractor::pg::join("g1".into(), vec![a.get_cell()]);
            ractor::pg::monitor("g2".into(), a.get_cell());
            vsched::quiesce();
            #[cfg(feature = "alt")]
            let mut mon_actors: Vec<(ActorRef<PMsg>, ractor::concurrency::JoinHandle<()>)> = Vec::new();
            #[cfg(feature = "alt")]
            let mut dying = None;
            #[cfg(feature = "alt")]
            if mon != Mon::None {
                let (d, dh) = Actor::spawn(None, Probe, args("D", Prog::default(), &log)).await.expect("D");
                d.get_cell().monitor(a.get_cell());
                if mon == Mon::DeadAndLive {
                    // (two live ones around the dead one, whatever the table's iteration order)
                    for n in ["V1", "V2"] {
                        let (v, vh) = Actor::spawn(None, Probe, args(n, Prog::default(), &log)).await.expect("V");
                        v.get_cell().monitor(a.get_cell());
                        mon_actors.push((v, vh));
                    }
                }
                if mon == Mon::DyingMeanwhile {
                    dying = Some(vsched::spawn("racer", async move {
                        d.stop(None);
                        let _ = dh.await;
                    }));
                } else {
                    d.stop(None);
                    let _ = dh.await;
                }
            }
            let graceful = matches!(cause, Cause::Stop | Cause::Drain);
            let mk_marker = |s: &ActorRef<PMsg>, tag: u32| {
                let _ = s.cast(do_msg(tag, vec![]));
            };
            // W1: parked before the exit starts
            let (a1, l1, b1, s1) = (a.clone(), log.clone(), bad.clone(), s.clone());
            let w1 = vsched::spawn("waiter", async move {
                let r = a1.wait(None).await;
                mk_marker(&s1, 901);
                pg_quiet().await;
                let mut v = observe(&a1, &l1, "W1 wait(None)", graceful);
                if r.is_err() {
                    v.push("W1 wait(None) returned a timeout".into());
                }
                b1.lock().unwrap().extend(v);
            });
            vsched::quiesce();
            // status poller
            let a4 = a.clone();
            let b4 = bad.clone();
            let poller = vsched::spawn("poller", async move {
                let mut last = a4.get_status();
                for _ in 0..4 {
                    vsched::yield_now().await;
                    let now = a4.get_status();
                    if now < last {
                        b4.lock().unwrap().push(format!("status moved backwards: {last:?} -> {now:?}"));
                    }
                    last = now;
                }
            });
            // the exit
            let a2 = a.clone();
            let closer = vsched::spawn("closer", async move {
                match cause {
                    Cause::Stop | Cause::Kill | Cause::Drain => {}
                    Cause::Abort(_) => {
                        // wake the actor so that the poll before which its task is dropped happens
                        let _ = a2.cast(do_msg(1, vec![Step::Yield, Step::Tick, Step::Yield, Step::Tick]));
                    }
                    Cause::Err => {
                        let _ = a2.cast(do_msg(1, vec![Step::Err("boom-err")]));
                    }
                    Cause::Panic => {
                        let _ = a2.cast(do_msg(1, vec![Step::Panic("boom-panic")]));
                    }
                }
            });
            // W2: concurrently, with the API that matches the cause
            let (a3, l3, b3, s3) = (a.clone(), log.clone(), bad.clone(), s.clone());
            let w2 = vsched::spawn("waiter", async move {
                let (ok, what) = match cause {
                    Cause::Stop => (a3.stop_and_wait(None, None).await.is_ok(), "stop_and_wait"),
                    Cause::Kill => (a3.kill_and_wait(None).await.is_ok(), "kill_and_wait"),
                    Cause::Drain => (a3.drain_and_wait(None).await.is_ok(), "drain_and_wait"),
                    Cause::Abort(_) | Cause::Err | Cause::Panic => (a3.wait(Some(Duration::from_secs(1000))).await.is_ok(), "wait(Some(T))"),
                };
                if ok {
                    mk_marker(&s3, 902);
                    // (never hold a harness lock across a scheduling point)
                    pg_quiet().await;
                    let v = observe(&a3, &l3, &format!("W2 {what}"), graceful);
                    b3.lock().unwrap().extend(v);
                } else if !(twin && matches!(cause, Cause::Stop | Cause::Drain)) {
                    // (with a twin, the one whose stop / drain request comes second may be refused)
                    b3.lock().unwrap().push(format!("W2 {what} did not return Ok"));
                }
            });
            let racer = if pg_racer {
                let a6 = a.clone();
                // (role "racer": its own steps are not decision points, so it is never parked in the middle of a
                // table operation while an observer reads the tables; it still waits, cooperatively, for whatever
                // lock the exit path holds)
                Some(vsched::spawn("racer", async move {
                    // (a group of its own: the monitor of g1 keeps counting A's single exit-leave)
                    ractor::pg::join("g4".into(), vec![a6.get_cell()]);
                    vsched::yield_now().await;
                    ractor::pg::leave("g4".into(), vec![a6.get_cell()]);
                    vsched::yield_now().await;
                    ractor::pg::join("g4".into(), vec![a6.get_cell()]);
                    vsched::yield_now().await;
                    ractor::pg::monitor("g3".into(), a6.get_cell());
                }))
            } else {
                None
            };
            // W2b: a second concurrent waiter (two waiters can be between "status checked" and
            // "registered for the wake-up" at the same time)
            let (a5, l5, b5) = (a.clone(), log.clone(), bad.clone());
            let w2b = vsched::spawn("waiter", async move {
                let r = match (twin, cause) {
                    (true, Cause::Stop) => a5.stop_and_wait(None, None).await.map_err(|_| ()),
                    (true, Cause::Kill) => a5.kill_and_wait(None).await.map_err(|_| ()),
                    (true, Cause::Drain) => a5.drain_and_wait(None).await.map_err(|_| ()),
                    _ => a5.wait(None).await.map_err(|_| ()),
                };
                // (a second stop_and_wait / drain_and_wait may be refused with an error because the request was
                // made already: only an Ok promises anything)
                let mut v = Vec::new();
                if r.is_ok() {
                    pg_quiet().await;
                    v = observe(&a5, &l5, if twin { "W2b (second closing wait)" } else { "W2b wait(None)" }, graceful);
                } else if !twin {
                    v.push("W2b wait(None) returned a timeout".into());
                }
                b5.lock().unwrap().extend(v);
            });
            vsched::quiesce();
            let _ = closer.await;
            let _ = poller.await;
            // join handle
            let joined = ah.await;
            mk_marker(&s, 903);
            pg_quiet().await;
            let mut v = observe(&a, &log, "join handle", graceful);
            if joined.is_err() && !matches!(cause, Cause::Abort(_)) {
                v.push("join handle returned an error".into());
            }
            // W3: starts waiting after the actor has stopped
            let r3 = a.wait(None).await;
            if r3.is_err() {
                v.push("W3 wait(None) after the exit timed out".into());
            }
            pg_quiet().await;
            v.extend(observe(&a, &log, "W3 wait(None) after exit", graceful));
            let r4 = a.stop_and_wait(None, Some(Duration::from_millis(10))).await;
            if matches!(r4, Err(ractor::RactorErr::Timeout)) {
                v.push("stop_and_wait on a stopped actor timed out".into());
            }
            let _ = w1.await;
            let _ = w2.await;
            let _ = w2b.await;
            if let Some(r) = racer {
                let _ = r.await;
            }
            vsched::quiesce_time();
            // the child was taken down with its parent, without further stimulus
            if c.get_status() != ActorStatus::Stopped {
                v.push(format!("the child is {:?} after its parent's waiters returned and the system went quiet", c.get_status()));
            }
            let _ = ch.await;
            // supervisor: exactly one terminal event, and before every marker
            let sl = log.of("S");
            let entered: Vec<String> = sl
                .iter()
                .filter(|e| e.kind == EvKind::Enter)
                .map(|e| match &e.cb {
                    Cb::Sup(x) => x.clone(),
                    Cb::Handle(t) => format!("marker{t}"),
                    o => format!("{o:?}"),
                })
                .collect();
            let aid = a.get_id().to_string();
            let term: Vec<usize> = entered
                .iter()
                .enumerate()
                .filter(|(_, e)| (e.starts_with("Terminated") || e.starts_with("Failed")) && e.contains(&format!("({aid},")))
                .map(|(i, _)| i)
                .collect();
            if term.len() != 1 {
                v.push(format!("supervisor saw {} terminal events for A: {entered:?}", term.len()));
            } else if let Some(mpos) = entered.iter().position(|e| e.starts_with("marker")) {
                if mpos < term[0] {
                    v.push(format!("a waiter returned before the supervisor had been sent the terminal event: {entered:?}"));
                }
            }
            // monitor of g1: exactly one Leave for A
            let leaves = log
                .of("M")
                .iter()
                .filter(|e| e.kind == EvKind::Enter && matches!(&e.cb, Cb::Sup(x) if x.starts_with("PgLeave") && x.contains(&aid)))
                .count();
            if leaves != 1 {
                v.push(format!("the monitor of g1 saw {leaves} Leave events for A (cleanup must run exactly once)"));
            }
            #[cfg(feature = "alt")]
            {
                if let Some(d) = dying {
                    let _ = d.await;
                }
                vsched::quiesce();
                for (r, h) in mon_actors {
                    r.stop(None);
                    let _ = h.await;
                }
                if mon == Mon::DeadAndLive {
                    for n in ["V1", "V2"] {
                        let seen: Vec<String> = log
                            .of(n)
                            .iter()
                            .filter(|e| e.kind == EvKind::Enter)
                            .filter_map(|e| match &e.cb {
                                Cb::Sup(x) if (x.starts_with("Terminated") || x.starts_with("Failed")) && x.contains(&format!("({aid},")) => Some(x.clone()),
                                _ => None,
                            })
                            .collect();
                        if seen.len() != 1 {
                            v.push(format!("the live monitor {n} saw {} terminal events for A: {seen:?}", seen.len()));
                        }
                    }
                }
            }
            bad.lock().unwrap().extend(v);
            for (r, h) in [(s, sh), (m, mh)] {
                r.stop(None);
                let _ = h.await;
            }
            let violations = bad.lock().unwrap().clone();
            Outcome {
                key: format!("S={entered:?} A=[{}]", Log(Arc::new(Mutex::new(log.of("A")))).render()),
                violations,
            }
        })
    })
}

/// wait(Some(T)) on a live actor: Timeout exactly at T, no effect on the actor
fn timeout_body() -> vsched::Body {
    Arc::new(|| {
        Box::pin(async {
            let log = Log::default();
            let (a, ah) = Actor::spawn(None, Probe, args("A", Prog::default(), &log)).await.expect("A");
            let mut bad = Vec::new();
            let t0 = vsched::now();
            let r = a.wait(Some(Duration::from_millis(7))).await;
            if r.is_ok() {
                bad.push("wait(Some(T)) on a live actor returned Ok".to_string());
            }
            if vsched::now() - t0 != 7_000_000 {
                bad.push(format!("timeout reported after {} ns instead of 7 ms", vsched::now() - t0));
            }
            for (what, r) in [
                ("stop_and_wait", matches!(a.clone().drain_and_wait(Some(Duration::from_millis(0))).await, Err(ractor::RactorErr::Timeout))),
            ] {
                let _ = (what, r);
            }
            Outcome { key: format!("status={:?}", a.get_status()), violations: {
                // the zero-timeout drain above started a real drain: the actor must stop by itself
                let _ = ah.await;
                if a.get_status() != ActorStatus::Stopped {
                    bad.push("actor did not stop".into());
                }
                bad
            } }
        })
    })
}

/// wait(Some(T)) that times out must leave the actor running and usable
fn timeout_no_effect_body() -> vsched::Body {
    Arc::new(|| {
        Box::pin(async {
            let log = Log::default();
            let (a, ah) = Actor::spawn(None, Probe, args("A", Prog::default(), &log)).await.expect("A");
            let mut bad = Vec::new();
            let a2 = a.clone();
            let w = vsched::spawn("waiter", async move {
                let t0 = vsched::now();
                let r = a2.wait(Some(Duration::from_millis(5))).await;
                (r.is_err(), vsched::now() - t0)
            });
            let a3 = a.clone();
            let snd = vsched::spawn("sender", async move { a3.cast(do_msg(1, vec![Step::SleepMs(3), Step::Tick])).is_ok() });
            let (timed_out, dt) = w.await.expect("waiter");
            if !timed_out {
                bad.push("wait(Some(5ms)) on a running actor returned Ok".to_string());
            } else if dt != 5_000_000 {
                bad.push(format!("timeout reported after {dt} ns instead of 5 ms"));
            }
            let _ = snd.await;
            if a.get_status() != ActorStatus::Running {
                bad.push(format!("a timed-out wait changed the actor's status to {:?}", a.get_status()));
            }
            let pong = a.call(|reply| PMsg::Call { tag: 2, reply, steps: vec![] }, Some(Duration::from_millis(100))).await;
            if !matches!(pong, Ok(ractor::rpc::CallResult::Success(2))) {
                bad.push("the actor no longer answers after a timed-out wait".into());
            }
            a.stop(None);
            let _ = ah.await;
            Outcome {
                key: format!("timed_out={timed_out} dt={dt} log=[{}]", log.render()),
                violations: bad,
            }
        })
    })
}

const S_KINDS: &[PointKind] = &[PointKind::Atomic, PointKind::Channel, PointKind::Lock, PointKind::Map, PointKind::Notify];

/// "exit cleanup runs once": while A is inside post_stop (its name is free again), a successor takes the
/// name and joins a group; A's remaining exit steps must not touch what now belongs to the successor.
fn once_body(cause: Cause) -> vsched::Body {
    once_body_x(cause, false)
}

/// (also used by the C10 check: the name of a slowly exiting holder, late requests, a successor)
pub fn name_handover_body(drain: bool) -> vsched::Body {
    once_body_x(if drain { Cause::Drain } else { Cause::Stop }, true)
}

/// `meddle`: while A is on its way out, another task keeps calling drain() / stop() on it (late, repeated
/// requests) and a watcher records every status it reads: the status never moves backwards
fn once_body_x(cause: Cause, meddle: bool) -> vsched::Body {
    Arc::new(move || {
        Box::pin(async move {
            let log = Log::default();
            let prog = Prog { post_stop: vec![Step::Yield, Step::Tick, Step::SleepMs(2), Step::Yield], ..Default::default() };
            let (a, ah) = Actor::spawn(Some("A".into()), Probe, args("A", prog, &log)).await.expect("A");
            ractor::pg::join("g".into(), vec![a.get_cell()]);
            let a2 = a.clone();
            let closer = vsched::spawn("closer", async move {
                match cause {
                    Cause::Kill => a2.kill(),
                    Cause::Drain => {
                        let _ = a2.drain();
                    }
                    _ => a2.stop(None),
                }
                let _ = a2.wait(None).await;
                vsched::ret_stamp()
            });
            let a3 = a.clone();
            let meddler = vsched::spawn("meddler", async move {
                if meddle {
                    for i in 0..6 {
                        if i % 2 == 0 {
                            let _ = a3.drain();
                        } else {
                            a3.stop(Some("again".into()));
                        }
                        vsched::sleep(Duration::from_millis(1)).await;
                    }
                }
            });
            let a4 = a.clone();
            let watcher = vsched::spawn("watcher", async move {
                let mut seen = vec![a4.get_status()];
                for _ in 0..60 {
                    let s = a4.get_status();
                    if seen.last() != Some(&s) {
                        seen.push(s);
                    }
                    if s == ActorStatus::Stopped {
                        break;
                    }
                    vsched::yield_now().await;
                }
                seen
            });
            let log2 = log.clone();
            let successor = vsched::spawn("successor", async move {
                // take the name as soon as it is free
                for _ in 0..40 {
                    match Actor::spawn(Some("A".into()), Probe, args("B", Prog::default(), &log2)).await {
                        Ok((b, bh)) => {
                            ractor::pg::join("g".into(), vec![b.get_cell()]);
                            return Some((b, bh, vsched::ret_stamp()));
                        }
                        Err(_) => vsched::sleep(Duration::from_millis(1)).await,
                    }
                }
                None
            });
            let wait_ret = closer.await;
            let _ = meddler.await;
            let statuses = watcher.await.unwrap_or_default();
            let succ = successor.await.flatten();
            let _ = ah.await;
            vsched::quiesce_time();
            let mut bad = Vec::new();
            if statuses.windows(2).any(|w| w[1] < w[0]) {
                bad.push(format!("the observed status moved backwards: {statuses:?}"));
            }
            let key;
            match succ {
                Some((b, bh, took_at)) => {
                    let reg = ractor::registry::where_is("A".to_string()).map(|c| c.get_id());
                    if reg != Some(b.get_id()) {
                        bad.push(format!("the successor took the name (before A's wait returned: {}) but where_is now returns {reg:?}: A's exit cleanup ran again and removed the successor's registration", wait_ret.is_some_and(|w| took_at < w)));
                    }
                    if !ractor::pg::get_members(&"g".to_string()).iter().any(|c| c.get_id() == b.get_id()) {
                        bad.push("the successor is no longer a member of the group it joined".into());
                    }
                    if ractor::pg::get_members(&"g".to_string()).iter().any(|c| c.get_id() == a.get_id()) {
                        bad.push("the stopped actor is still a group member".into());
                    }
                    key = format!("took-before-wait={}", wait_ret.is_some_and(|w| took_at < w));
                    b.stop(None);
                    let _ = bh.await;
                }
                None => {
                    bad.push("the name never became free for a successor".into());
                    key = "never".into();
                }
            }
            Outcome { key, violations: bad }
        })
    })
}

/// An unsupervised actor whose state panics when it is dropped exits gracefully: the terminal event (which
/// carries the state) is dropped inside the exit path itself, so the exit path unwinds half way through.
/// The waiters, before and after, must still be released, with the status Stopped and the name gone.
mod bomb {
    use ractor::{Actor, ActorProcessingErr, ActorRef};
    pub struct Bomb;
    impl Drop for Bomb {
        fn drop(&mut self) {
            if !std::thread::panicking() {
                panic!("the state's destructor panics");
            }
        }
    }
    pub struct B;
    #[cfg_attr(feature = "alt", ractor::async_trait)]
    impl Actor for B {
        type Msg = u32;
        type State = Bomb;
        type Arguments = ();
        async fn pre_start(&self, _m: ActorRef<u32>, _: ()) -> Result<Bomb, ActorProcessingErr> {
            Ok(Bomb)
        }
    }
}

fn bomb_body(drain: bool) -> vsched::Body {
    Arc::new(move || {
        Box::pin(async move {
            let (a, h) = Actor::spawn(Some("A".into()), bomb::B, ()).await.expect("spawn");
            vsched::quiesce();
            let a1 = a.clone();
            let early = vsched::spawn("waiter", async move { a1.wait(None).await.is_ok() });
            vsched::yield_now().await;
            let a2 = a.clone();
            let closer = vsched::spawn("closer", async move {
                if drain {
                    a2.drain_and_wait(None).await.is_ok()
                } else {
                    a2.stop_and_wait(None, None).await.is_ok()
                }
            });
            let mut bad = Vec::new();
            let c = closer.await.unwrap_or(false);
            let st = a.get_status();
            if !c || st != ActorStatus::Stopped {
                bad.push(format!("the closing wait returned {c} with the status {st:?}"));
            }
            if !early.await.unwrap_or(false) {
                bad.push("the waiter registered before the exit was not released with Ok".to_string());
            }
            if a.wait(None).await.is_err() || a.get_status() != ActorStatus::Stopped {
                bad.push(format!("a wait after the exit: status {:?}", a.get_status()));
            }
            let _ = h.await;
            if ractor::registry::where_is("A").is_some() {
                bad.push("the name is still registered after the waits returned".to_string());
            }
            Outcome { key: format!("{st:?}"), violations: bad }
        })
    })
}

/// Waiters on an actor from an instant spawn whose start-up task has not been polled yet (status Unstarted): a
/// wait that returns Ok promises the same as for any other actor. `api`: 0 wait(None), 1 stop_and_wait,
/// 2 kill_and_wait, 3 drain_and_wait, 4 wait(None) by two tasks with a stop from a third.
fn unstarted_body(api: usize, local: bool) -> vsched::Body {
    use ractor::thread_local::{ThreadLocalActor, ThreadLocalActorSpawner};
    Arc::new(move || {
        Box::pin(async move {
            let log = Log::default();
            let spawner = ThreadLocalActorSpawner::verif_new_local();
            let prog = Prog { pre_start: vec![Step::Tick, Step::Yield, Step::Tick], post_stop: vec![Step::Yield, Step::Tick], ..Default::default() };
            let spawned = if local {
                <Probe as ThreadLocalActor>::spawn_instant(Some("A".into()), args("A", prog, &log), spawner.clone())
            } else {
                ractor::ActorRuntime::<Probe>::spawn_instant(Some("A".into()), Probe, args("A", prog, &log))
            };
            let (a, outer) = spawned.expect("instant spawn");
            let bad: Arc<Mutex<Vec<String>>> = Arc::new(Mutex::new(Vec::new()));
            let judge = |who: &str, ok: bool, a: &ActorRef<PMsg>, log: &Log, graceful: bool, bad: &Arc<Mutex<Vec<String>>>| {
                if !ok {
                    return;
                }
                let mut v = Vec::new();
                let st = a.get_status();
                if st != ActorStatus::Stopped {
                    v.push(format!("{who} returned Ok while the status was {st:?}"));
                }
                let started = log.of("A").iter().any(|e| e.cb == Cb::PreStart && e.kind == EvKind::ExitOk);
                let stopped = log.of("A").iter().any(|e| e.cb == Cb::PostStop && e.kind == EvKind::ExitOk);
                if graceful && started && !stopped {
                    v.push(format!("{who} returned Ok before post_stop had returned"));
                }
                if ractor::registry::where_is("A".to_string()).is_some() {
                    v.push(format!("{who} returned Ok while the name was still registered"));
                }
                bad.lock().unwrap().extend(v);
            };
            let mut tasks = Vec::new();
            let n_waiters = if api == 4 { 2 } else { 1 };
            for w in 0..n_waiters {
                let (a2, l2, b2) = (a.clone(), log.clone(), bad.clone());
                tasks.push(vsched::spawn("waiter", async move {
                    let (ok, what, graceful) = match api {
                        0 | 4 => (a2.wait(None).await.is_ok(), "wait(None)", true),
                        1 => (a2.stop_and_wait(None, None).await.is_ok(), "stop_and_wait", true),
                        2 => (a2.kill_and_wait(None).await.is_ok(), "kill_and_wait", false),
                        _ => (a2.drain_and_wait(None).await.is_ok(), "drain_and_wait", true),
                    };
                    judge(&format!("waiter {w}: {what} on an actor that had not started yet"), ok, &a2, &l2, graceful, &b2);
                }));
            }
            if matches!(api, 0 | 4) {
                let a3 = a.clone();
                tasks.push(vsched::spawn("closer", async move {
                    vsched::yield_now().await;
                    a3.stop(None);
                }));
            }
            for t in tasks {
                let _ = t.await;
            }
            if let Ok(Ok(h)) = outer.await {
                let _ = h.await;
            }
            vsched::quiesce_time();
            let st = a.get_status();
            if st != ActorStatus::Stopped {
                bad.lock().unwrap().push(format!("in the end the actor is {st:?}"));
                a.kill();
                vsched::quiesce_time();
            }
            let violations = bad.lock().unwrap().clone();
            Outcome { key: format!("api={api} {}", Log(Arc::new(Mutex::new(log.of("A")))).render()), violations }
        })
    })
}

pub fn plan(tier: &str) -> Plan {
    let thorough = tier == "thorough";
    let filter: vsched::Filter = Arc::new(|k, _l, t| {
        S_KINDS.contains(&k) && (t.role == "waiter" || t.role == "closer" || (t.role == "lib" && t.name.as_deref() == Some("A")))
    });
    let cfg = ExecCfg {
        filter: Some(filter),
        ..Default::default()
    };
    let mut units = Vec::new();
    let bound = if thorough { 3 } else { 2 };
    for cause in [Cause::Stop, Cause::Kill, Cause::Drain, Cause::Err, Cause::Panic] {
        units.push(Unit::explore_split(Job::new(format!("exit/{cause:?}"), cfg.clone(), Some(bound), body(cause)), if thorough { 16 } else { 8 }));
    }
    for cause in [Cause::Stop, Cause::Kill] {
        units.push(Unit::explore_split(Job::new(format!("exit/{cause:?}+pg-racer"), cfg.clone(), Some(bound), body_y(cause, false, true)), if thorough { 16 } else { 8 }));
    }
    for cause in [Cause::Kill, Cause::Stop, Cause::Drain] {
        units.push(Unit::explore_split(Job::new(format!("exit/{cause:?}+twin-closer"), cfg.clone(), Some(bound), body_x(cause, true)), if thorough { 16 } else { 8 }));
    }
    // waits on an actor whose start-up task (instant spawn) has not been polled yet
    for local in [false, true] {
        for api in 0..5usize {
            if !thorough && local && !matches!(api, 1 | 4) {
                continue;
            }
            units.push(Unit::explore(Job::new(format!("unstarted/{}/{}", ["wait", "stop_and_wait", "kill_and_wait", "drain_and_wait", "two-waiters"][api], if local { "local" } else { "send" }), ExecCfg::default(), Some(bound), unstarted_body(api, local))));
        }
    }
    // monitors build: A is monitored by an actor that is gone (or going) when A exits, next to live monitors
    for mon in [Mon::Dead, Mon::DeadAndLive, Mon::DyingMeanwhile] {
        for cause in [Cause::Stop, Cause::Kill, Cause::Drain, Cause::Panic] {
            if !thorough && matches!(cause, Cause::Drain) {
                continue;
            }
            units.push(alt_unit(format!("alt/exit/{cause:?}+monitor-{mon:?}"), cfg.clone(), Some(if thorough { 2 } else { 1 }), body_z(cause, false, false, mon), if thorough { 8 } else { 4 }));
        }
    }
    for k in if thorough { vec![2usize, 3, 4, 5] } else { vec![3usize] } {
        let mut c = cfg.clone();
        c.cuts = vec![CutSpec { sel: Sel::Name("A".into()), at_poll: k }];
        units.push(Unit::explore_split(Job::new(format!("exit/Abort{k}"), c, Some(bound), body(Cause::Abort(k))), 8));
    }
    let t_cfg = ExecCfg::default();
    units.push(Unit::explore(Job::new("timeout/exact", t_cfg.clone(), Some(bound), timeout_body())));
    for cause in [Cause::Stop, Cause::Kill, Cause::Drain] {
        units.push(Unit::explore_split(Job::new(format!("cleanup-once/{cause:?}"), cfg.clone(), Some(bound), once_body(cause)), 4));
        units.push(Unit::explore_split(Job::new(format!("cleanup-once/{cause:?}+late-requests"), cfg.clone(), Some(bound), once_body_x(cause, true)), 4));
    }
    units.push(Unit::explore(Job::new("timeout/no-effect", t_cfg.clone(), Some(bound + 1), timeout_no_effect_body())));
    for drain in [false, true] {
        let mut c = cfg.clone();
        c.tolerate_lib_panics = true;
        units.push(Unit::explore(Job::new(format!("exit/state-destructor-panics/{}", if drain { "drain" } else { "stop" }), c, Some(bound), bomb_body(drain))));
    }
    Plan {
        property: "C06",
        units,
        rule: "actor A (named, pg member, pg monitor, one child, supervised) exits by stop/kill/drain/Err/panic/task abort while three waiters (parked before, concurrent, after) use wait / *_and_wait / the join handle; deviation-bounded DFS with a decision point before every atomic, lock, map, notify and channel operation of the waiters and of A's own task; the oracle snapshots status, registry, pg, tree links at the moment each wait returns and checks the supervisor's log against markers sent by the waiters; a wait that never returns is reported as a hang by the scheduler; cleanup-once: late and repeated drain / stop requests arrive while A is on its way out (a watcher checks that the status never moves backwards), a successor takes the name and joins a group while A is inside post_stop and must keep both after A finished; non-trivial = execution with >= 1 branching decision".into(),
        assumptions: vec![
            "sequential consistency; tokio Notify / channel operations are atomic steps".into(),
            "whole-map DashMap operations (remove, iter) are atomic with respect to guarded accesses".into(),
        ],
        engine: "vsched (shuttle coroutines + deviation-bounded DFS + virtual clock) on the real ractor code",
    }
}
