//! C16 — output ports fan out in order without duplicates (default port and `output-port-v2`).
use std::sync::{Arc, Mutex};

use ractor::{Actor, ActorProcessingErr, ActorRef, OutputPort};
use vsched::explore::Job;
use vsched::report::{Plan, Unit};
use vsched::{ExecCfg, Outcome};

type L = Arc<Mutex<Vec<u32>>>;

struct Sink {
    /// (subscriber, value) in global reception order: shows that schedules really differ
    global: Arc<Mutex<Vec<(u8, u32)>>>,
    id: u8,
    log: L,
    stop_after: Option<usize>,
    slow_ms: u64,
}
#[cfg_attr(feature = "alt", ractor::async_trait)]
impl Actor for Sink {
    type Msg = u32;
    type State = usize;
    type Arguments = ();
    async fn pre_start(&self, _m: ActorRef<u32>, _: ()) -> Result<usize, ActorProcessingErr> {
        Ok(0)
    }
    async fn handle(&self, me: ActorRef<u32>, m: u32, n: &mut usize) -> Result<(), ActorProcessingErr> {
        if self.slow_ms > 0 {
            ractor::concurrency::sleep(std::time::Duration::from_millis(self.slow_ms)).await;
        }
        self.log.lock().unwrap().push(m);
        self.global.lock().unwrap().push((self.id, m));
        *n += 1;
        if self.stop_after == Some(*n) {
            me.stop(None);
        }
        Ok(())
    }
}

#[derive(Clone, Copy, Debug)]
struct Sc {
    n: u32,
    /// S2 subscribes after this many publications
    late_at: u32,
    /// S4 stops itself after this many messages
    stop_after: usize,
    slow: bool,
    publisher_yields: bool,
    /// a sixth subscriber created with spawn_instant and subscribed before its start-up task ever ran
    instant: bool,
    /// the self-stopping subscriber is the ONLY one at first: the port runs empty when it goes, and the late
    /// subscriber arrives into an empty port while the forwarding machinery is still dropping the dead one
    solo: bool,
    /// S1 (from the start) and S2 (late, one publication after its first subscription) subscribe a second
    /// time with another converter (odd values, + 5000): the two subscriptions of one actor are independent
    twice: bool,
}

fn body(sc: Sc, v2: bool) -> vsched::Body {
    Arc::new(move || {
        Box::pin(async move {
            let port: Arc<OutputPort<u32>> = Arc::new(OutputPort::default());
            let global: Arc<Mutex<Vec<(u8, u32)>>> = Arc::new(Mutex::new(vec![]));
            let mk = |id: u8, stop_after: Option<usize>, slow_ms: u64| {
                let log: L = Arc::new(Mutex::new(vec![]));
                let l2 = log.clone();
                let global = global.clone();
                async move {
                    let (r, h) = Actor::spawn(None, Sink { global, id, log: l2, stop_after, slow_ms }, ()).await.expect("sink");
                    (r, h, log)
                }
            };
            let (s1, h1, l1) = mk(1, None, 0).await;
            let (s2, h2, l2) = mk(2, None, 0).await;
            let (s3, h3, l3) = mk(3, None, 0).await;
            let (s4, h4, l4) = mk(4, Some(sc.stop_after), 0).await;
            let (s5, h5, l5) = mk(5, None, if sc.slow { 3 } else { 0 }).await;
            let l6: L = Arc::new(Mutex::new(vec![]));
            let s6 = if sc.instant {
                let (r, outer) = ractor::ActorRuntime::<Sink>::spawn_instant(None, Sink { global: global.clone(), id: 6, log: l6.clone(), stop_after: None, slow_ms: 0 }, ()).expect("instant sink");
                port.subscribe(r.clone(), Some);
                Some((r, outer))
            } else {
                None
            };
            if sc.twice {
                port.subscribe(s1.clone(), |v| if v % 2 == 1 { Some(v + 5000) } else { None });
            }
            if !sc.solo {
                port.subscribe(s1.clone(), Some);
                port.subscribe(s3.clone(), |v| if v % 2 == 1 { None } else { Some(v + 1000) });
            }
            port.subscribe(s4.clone(), Some);
            if !sc.solo {
                port.subscribe(s5.clone(), Some);
            }
            // subscriptions are established before the first publication (v2 applies them in order
            // with the data; v1 creates the receiver inside subscribe())
            let p2 = port.clone();
            let publisher = vsched::spawn("publisher", async move {
                for i in 0..sc.n {
                    if i == sc.late_at {
                        p2.subscribe(s2.clone(), Some);
                    }
                    if sc.twice && i == sc.late_at + 1 {
                        p2.subscribe(s2.clone(), |v| if v % 2 == 1 { Some(v + 5000) } else { None });
                    }
                    p2.send(i);
                    if sc.publisher_yields {
                        vsched::yield_now().await;
                    }
                }
                if sc.late_at >= sc.n {
                    p2.subscribe(s2.clone(), Some);
                }
            });
            let _ = publisher.await;
            vsched::quiesce_time();
            let published: Vec<u32> = (0..sc.n).collect();
            let mut bad = Vec::new();
            let increasing = |v: &Vec<u32>| v.windows(2).all(|w| w[0] < w[1]);
            let check = |name: &str, got: &Vec<u32>, want: &Vec<u32>, complete: bool, bad: &mut Vec<String>| {
                if !increasing(got) {
                    bad.push(format!("{name} received out of order or twice: {got:?}"));
                }
                for g in got {
                    if !want.contains(g) {
                        bad.push(format!("{name} received {g}, which was not published to it (expected subset of {want:?})"));
                    }
                }
                if complete && got != want {
                    bad.push(format!("{name} received {got:?}, expected {want:?}"));
                }
            };
            // without lag nothing may be skipped: the default port buffers 10, streams of <= 10 cannot lag
            let no_lag = v2 || sc.n <= 10;
            // second subscriptions (values + 5000) are judged separately from the first ones
            let second = |l: &L| -> Vec<u32> { l.lock().unwrap().iter().copied().filter(|v| *v >= 5000).collect() };
            if sc.twice {
                let want1: Vec<u32> = published.iter().copied().filter(|v| v % 2 == 1).map(|v| v + 5000).collect();
                check("S1's second subscription (odd values)", &second(&l1), &want1, no_lag, &mut bad);
                let want2: Vec<u32> = published.iter().copied().filter(|v| v % 2 == 1 && *v > sc.late_at).map(|v| v + 5000).collect();
                check("S2's second subscription (late, odd values)", &second(&l2), &want2, no_lag, &mut bad);
            }
            let g1: Vec<u32> = l1.lock().unwrap().iter().copied().filter(|v| *v < 5000).collect();
            if !sc.solo {
                check("S1 (subscribed from the start)", &g1, &published, no_lag, &mut bad);
            }
            let g2: Vec<u32> = l2.lock().unwrap().iter().copied().filter(|v| *v < 5000).collect();
            let want2: Vec<u32> = published.iter().copied().filter(|v| *v >= sc.late_at).collect();
            check("S2 (late subscriber)", &g2, &want2, no_lag, &mut bad);
            let g3 = l3.lock().unwrap().clone();
            let want3: Vec<u32> = published.iter().copied().filter(|v| v % 2 == 0).map(|v| v + 1000).collect();
            if !sc.solo {
                check("S3 (converter skips odd values)", &g3, &want3, no_lag, &mut bad);
            }
            let g4 = l4.lock().unwrap().clone();
            let want4: Vec<u32> = published.iter().copied().take(sc.stop_after).collect();
            check("S4 (stops itself)", &g4, &published, false, &mut bad);
            if no_lag && g4 != want4 {
                bad.push(format!("S4 stopped after {} messages but handled {g4:?}", sc.stop_after));
            }
            let g5 = l5.lock().unwrap().clone();
            if !sc.solo {
                check("S5 (slow subscriber)", &g5, &published, no_lag, &mut bad);
            }
            let g6 = l6.lock().unwrap().clone();
            if sc.instant {
                check("S6 (spawn_instant, subscribed before its start-up ran)", &g6, &published, no_lag, &mut bad);
            }
            if !no_lag {
                // a lagging subscriber of the default port may miss messages but keeps receiving later ones
                for (name, g) in [("S1", &g1), ("S5", &g5)] {
                    if g.last() != published.last() {
                        bad.push(format!("{name} fell behind and never caught up with the latest publication: {g:?}"));
                    }
                }
            }
            for (r, h) in [(s1, h1), (s3, h3), (s4, h4), (s5, h5)] {
                r.stop(None);
                let _ = h.await;
            }
            if let Some((r, outer)) = s6 {
                r.stop(None);
                if let Ok(Ok(h)) = outer.await {
                    let _ = h.await;
                }
            }
            // s2 was moved into the publisher
            drop(port);
            vsched::quiesce_time();
            let _ = h2;
            Outcome {
                key: format!(
                    "s1={g1:?} s2={g2:?} s3={g3:?} s4={g4:?} s5={g5:?} s6={g6:?} order={:?}",
                    global.lock().unwrap().iter().take(10).collect::<Vec<_>>()
                ),
                violations: bad,
            }
        })
    })
}

pub const V2: bool = cfg!(feature = "v2");

/// Default port only: the publisher emits bursts larger than the port's buffer, and the forwarding task can be
/// preempted before each of its receive operations, so it can fall behind again right after it was told that
/// it had fallen behind. A lagging subscriber may miss messages but keeps receiving later ones, in order: it
/// ends up with the last publication.
fn lag_body(bursts: u32, per: u32) -> vsched::Body {
    Arc::new(move || {
        Box::pin(async move {
            let port: Arc<OutputPort<u32>> = Arc::new(OutputPort::default());
            let global: Arc<Mutex<Vec<(u8, u32)>>> = Arc::new(Mutex::new(vec![]));
            let l1: L = Arc::new(Mutex::new(vec![]));
            let l2: L = Arc::new(Mutex::new(vec![]));
            let (s1, h1) = Actor::spawn(None, Sink { global: global.clone(), id: 1, log: l1.clone(), stop_after: None, slow_ms: 0 }, ()).await.expect("sink");
            let (s2, h2) = Actor::spawn(None, Sink { global: global.clone(), id: 2, log: l2.clone(), stop_after: None, slow_ms: 0 }, ()).await.expect("sink");
            port.subscribe(s1.clone(), Some);
            port.subscribe(s2.clone(), |v| if v % 2 == 0 { Some(v) } else { None });
            let p2 = port.clone();
            let publisher = vsched::spawn("publisher", async move {
                for b in 0..bursts {
                    for i in 0..per {
                        p2.send(b * per + i);
                    }
                    vsched::yield_now().await;
                }
            });
            let _ = publisher.await;
            vsched::quiesce_time();
            let last = bursts * per - 1;
            let mut bad = Vec::new();
            for (name, l, want_last) in [("S1", &l1, last), ("S2 (even values)", &l2, if last % 2 == 0 { last } else { last - 1 })] {
                let got = l.lock().unwrap().clone();
                if !got.windows(2).all(|w| w[0] < w[1]) {
                    bad.push(format!("{name} received out of order or twice: {got:?}"));
                }
                if got.last() != Some(&want_last) {
                    bad.push(format!("{name} fell behind and never caught up: the last publication it should have is {want_last}, it received {got:?}"));
                }
            }
            let key = format!("{}+{}", l1.lock().unwrap().len(), l2.lock().unwrap().len());
            for (r, h) in [(s1, h1), (s2, h2)] {
                r.stop(None);
                let _ = h.await;
            }
            drop(port);
            vsched::quiesce();
            Outcome { key, violations: bad }
        })
    })
}

/// Default port only: a subscribe() by another task is in progress (it holds the subscription list) at the very
/// moment of a publication. The established subscriber still receives every publication; the newcomer receives
/// those published after its subscription.
fn subscribe_race_body() -> vsched::Body {
    Arc::new(move || {
        Box::pin(async move {
            let port: Arc<OutputPort<u32>> = Arc::new(OutputPort::default());
            let global: Arc<Mutex<Vec<(u8, u32)>>> = Arc::new(Mutex::new(vec![]));
            let l1: L = Arc::new(Mutex::new(vec![]));
            let l2: L = Arc::new(Mutex::new(vec![]));
            let (s1, h1) = Actor::spawn(None, Sink { global: global.clone(), id: 1, log: l1.clone(), stop_after: None, slow_ms: 0 }, ()).await.expect("sink");
            let (s2, h2) = Actor::spawn(None, Sink { global: global.clone(), id: 2, log: l2.clone(), stop_after: None, slow_ms: 0 }, ()).await.expect("sink");
            port.subscribe(s1.clone(), Some);
            let p2 = port.clone();
            let publisher = vsched::spawn("publisher", async move {
                for i in 0..5u32 {
                    p2.send(i);
                    vsched::yield_now().await;
                }
            });
            let (p3, s2b) = (port.clone(), s2.clone());
            let subscriber = vsched::spawn("subscriber", async move {
                for _ in 0..vsched::choose_free("subscribe-delay", 4) {
                    vsched::yield_now().await;
                }
                p3.subscribe(s2b, Some);
            });
            let _ = publisher.await;
            let _ = subscriber.await;
            vsched::quiesce_time();
            let mut bad = Vec::new();
            let g1 = l1.lock().unwrap().clone();
            if g1 != vec![0, 1, 2, 3, 4] {
                bad.push(format!("the established subscriber received {g1:?}, expected every publication [0, 1, 2, 3, 4] (another actor was subscribing meanwhile)"));
            }
            let g2 = l2.lock().unwrap().clone();
            if !g2.windows(2).all(|w| w[0] + 1 == w[1]) || (!g2.is_empty() && g2.last() != Some(&4)) {
                bad.push(format!("the newcomer received {g2:?}: not a gap-free tail of the publications"));
            }
            let key = format!("{g2:?}");
            for (r, h) in [(s1, h1), (s2, h2)] {
                r.stop(None);
                let _ = h.await;
            }
            drop(port);
            vsched::quiesce();
            Outcome { key, violations: bad }
        })
    })
}

/// Two subscribers stop between the same two publications (found dead in the same fan-out pass), with a live
/// subscriber before them and (optionally) one behind them; publications follow, and a late subscriber arrives.
/// The survivors get everything, the late one everything from its subscription on.
fn two_stoppers_body(live_behind: bool, three: bool) -> vsched::Body {
    Arc::new(move || {
        Box::pin(async move {
            let port: Arc<OutputPort<u32>> = Arc::new(OutputPort::default());
            let global: Arc<Mutex<Vec<(u8, u32)>>> = Arc::new(Mutex::new(vec![]));
            let mk = |id: u8, stop_after: Option<usize>| {
                let log: L = Arc::new(Mutex::new(vec![]));
                let l2 = log.clone();
                let global = global.clone();
                async move {
                    let (r, h) = Actor::spawn(None, Sink { global, id, log: l2, stop_after, slow_ms: 0 }, ()).await.expect("sink");
                    (r, h, log)
                }
            };
            let (a, ha, la) = mk(1, None).await;
            let (x, hx, lx) = mk(2, Some(1)).await;
            let (y, hy, ly) = mk(3, Some(1)).await;
            let (z, hz, lz) = mk(6, Some(1)).await;
            let (b, hb, lb) = mk(4, None).await;
            let (d, hd, ld) = mk(5, None).await;
            port.subscribe(a.clone(), Some);
            port.subscribe(x.clone(), Some);
            port.subscribe(y.clone(), Some);
            if three {
                port.subscribe(z.clone(), Some);
            }
            if live_behind {
                port.subscribe(b.clone(), Some);
            }
            vsched::explore_schedules(true);
            port.send(0);
            vsched::quiesce_time();
            let _ = hx.await;
            let _ = hy.await;
            let mut hz = Some(hz);
            if three {
                let _ = hz.take().unwrap().await;
            }
            port.send(1);
            port.send(2);
            vsched::quiesce_time();
            port.subscribe(d.clone(), Some);
            port.send(3);
            port.send(4);
            vsched::quiesce_time();
            vsched::explore_schedules(false);
            let mut bad = Vec::new();
            let get = |l: &L| l.lock().unwrap().clone();
            if get(&la) != vec![0, 1, 2, 3, 4] {
                bad.push(format!("the subscriber in front of the two that stopped received {:?}, expected [0, 1, 2, 3, 4]", get(&la)));
            }
            if live_behind && get(&lb) != vec![0, 1, 2, 3, 4] {
                bad.push(format!("the subscriber behind the two that stopped received {:?}, expected [0, 1, 2, 3, 4]", get(&lb)));
            }
            if get(&ld) != vec![3, 4] {
                bad.push(format!("the late subscriber received {:?}, expected [3, 4]", get(&ld)));
            }
            for (n, l) in [("first", &lx), ("second", &ly)] {
                if get(l) != vec![0] {
                    bad.push(format!("the {n} stopping subscriber received {:?}, expected [0]", get(l)));
                }
            }
            let _ = lz;
            let key = format!("a={:?} b={:?} d={:?}", get(&la), get(&lb), get(&ld));
            for r in [&a, &b, &d, &z] {
                r.stop(None);
            }
            for h in [ha, hb, hd] {
                let _ = h.await;
            }
            if let Some(h) = hz {
                let _ = h.await;
            }
            drop(port);
            vsched::quiesce();
            Outcome { key, violations: bad }
        })
    })
}

pub fn plan(tier: &str) -> Plan {
    let thorough = tier == "thorough";
    let cfg = ExecCfg::default();
    let bound = if thorough { 3 } else { 2 };
    let mut units = Vec::new();
    let mut scs = vec![
        Sc { n: 6, late_at: 0, stop_after: 1, slow: false, publisher_yields: true, instant: false, solo: false, twice: false },
        Sc { n: 6, late_at: 2, stop_after: 3, slow: false, publisher_yields: true, instant: false, solo: false, twice: false },
        Sc { n: 6, late_at: 5, stop_after: 3, slow: true, publisher_yields: false, instant: false, solo: false, twice: false },
        Sc { n: 6, late_at: 6, stop_after: 1, slow: true, publisher_yields: true, instant: false, solo: false, twice: false },
    ];
    if thorough {
        for late_at in [1, 3, 4] {
            for stop_after in [2, 5] {
                scs.push(Sc { n: 6, late_at, stop_after, slow: false, publisher_yields: late_at % 2 == 0, instant: stop_after == 5, solo: false, twice: false });
            }
        }
    }
    scs.push(Sc { n: 4, late_at: 1, stop_after: 2, slow: false, publisher_yields: false, instant: true, solo: false, twice: false });
    scs.push(Sc { n: 4, late_at: 4, stop_after: 1, slow: false, publisher_yields: true, instant: true, solo: false, twice: false });
    // the only subscriber stops, the port runs empty, a late subscriber arrives
    scs.push(Sc { n: 6, late_at: 3, stop_after: 1, slow: false, publisher_yields: true, instant: false, solo: true, twice: false });
    scs.push(Sc { n: 6, late_at: 2, stop_after: 1, slow: false, publisher_yields: false, instant: false, solo: true, twice: false });
    scs.push(Sc { n: 6, late_at: 4, stop_after: 2, slow: false, publisher_yields: true, instant: false, solo: true, twice: false });
    // one actor, two subscriptions with different converters
    scs.push(Sc { n: 4, late_at: 1, stop_after: 2, slow: false, publisher_yields: true, instant: false, solo: false, twice: true });
    scs.push(Sc { n: 6, late_at: 3, stop_after: 1, slow: false, publisher_yields: false, instant: false, solo: false, twice: true });
    // a long stream: subscribers of the default port lag behind (buffer 10)
    scs.push(Sc { n: 25, late_at: 12, stop_after: 4, slow: true, publisher_yields: false, instant: false, solo: false, twice: false });
    // repeated lag on the default port, with a decision point before every receive of the forwarding tasks
    {
        let fine = ExecCfg { filter: Some(Arc::new(|k, l, _t| k == vsched::PointKind::Channel && l == "broadcast.recv")), ..Default::default() };
        for (bursts, per) in [(3u32, 12u32), (2, 25)] {
            let b: vsched::Body = if V2 { Arc::new(|| Box::pin(async { Outcome { key: "wrong build".into(), violations: vec!["MACHINERY: unit scheduled on the wrong build".into()] } })) } else { lag_body(bursts, per) };
            units.push(Unit::explore_split(Job::new(format!("v1/repeated-lag/{bursts}x{per}"), fine.clone(), Some(bound), b), 4));
        }
    }
    // a subscribe in progress at the moment of a publication (decision points at the subscription list's lock)
    {
        let fine = ExecCfg { filter: Some(Arc::new(|k, l, t: &vsched::TaskInfo| k == vsched::PointKind::Lock && l.starts_with("rwlock") && (t.role == "publisher" || t.role == "subscriber"))), ..Default::default() };
        let b: vsched::Body = if V2 { Arc::new(|| Box::pin(async { Outcome { key: "wrong build".into(), violations: vec!["MACHINERY: unit scheduled on the wrong build".into()] } })) } else { subscribe_race_body() };
        units.push(Unit::explore_split(Job::new("v1/subscribe-vs-publish".to_string(), fine, Some(bound), b), 4));
    }
    // v2: a subscriber that stops in the middle of a batch, i.e. between two sends of the fan-out task (which is
    // preemptible before each of its sends here); the subscribers behind it still get the whole batch
    {
        let fine = ExecCfg { filter: Some(Arc::new(|k, l, t: &vsched::TaskInfo| k == vsched::PointKind::Channel && l == "mpsc.send" && t.role == "lib")), ..Default::default() };
        for (n, stop_after) in [(3u32, 1usize), (4, 2)] {
            let sc = Sc { n, late_at: 0, stop_after, slow: false, publisher_yields: false, instant: false, solo: false, twice: false };
            let b: vsched::Body = if V2 { body(sc, true) } else { Arc::new(|| Box::pin(async { Outcome { key: "wrong build".into(), violations: vec!["MACHINERY: unit scheduled on the wrong build".into()] } })) };
            let mut u = Unit::explore_split(Job::new(format!("v2/stop-mid-batch/n{n}-stop{stop_after}"), fine.clone(), Some(bound), b), 4);
            u.exe_suffix = Some("-v2");
            units.push(u);
        }
    }
    // two (three) subscribers found stopped in one pass
    for build_v2 in [false, true] {
        for (live_behind, three) in [(true, false), (false, false), (true, true)] {
            let b: vsched::Body = if build_v2 == V2 { two_stoppers_body(live_behind, three) } else { Arc::new(|| Box::pin(async { Outcome { key: "wrong build".into(), violations: vec!["MACHINERY: unit scheduled on the wrong build".into()] } })) };
            let mut u = Unit::explore(Job::new(format!("{}/{}-stop-together/{}", if build_v2 { "v2" } else { "v1" }, if three { "three" } else { "two" }, if live_behind { "live-subscriber-behind" } else { "they-are-last" }), cfg.clone(), Some(bound.min(2)), b));
            u.exe_suffix = if build_v2 { Some("-v2") } else { None };
            units.push(u);
        }
    }
    for build_v2 in [false, true] {
        for sc in &scs {
            let name = format!("{}/n{}-late{}-stop{}-slow{}-yield{}{}", if build_v2 { "v2" } else { "v1" }, sc.n, sc.late_at, sc.stop_after, sc.slow, sc.publisher_yields, if sc.instant { "-instant" } else if sc.solo { "-solo" } else if sc.twice { "-twice" } else { "" });
            let b: vsched::Body = if build_v2 == V2 {
                body(*sc, build_v2)
            } else {
                Arc::new(|| Box::pin(async { Outcome { key: "wrong build".into(), violations: vec!["MACHINERY: unit scheduled on the wrong build".into()] } }))
            };
            let mut u = Unit::explore_split(Job::new(name, cfg.clone(), Some(if sc.n > 10 { bound.min(2) } else { bound }), b), if build_v2 { 2 } else { 8 });
            u.exe_suffix = if build_v2 { Some("-v2") } else { None };
            units.push(u);
        }
    }
    Plan {
        property: "C16",
        units,
        rule: "a publisher sends 0..N on an output port with five or six subscribers (from the start, late at every chosen point, filtering converter, self-stopping, slow, created by spawn_instant and subscribed before its start-up ran), for the default port and for output-port-v2 (two builds of the harness); deviation-bounded DFS over task-level schedules of the real forwarding tasks; oracle per subscriber: strictly increasing, only values published after its subscription and mapped to Some, complete when no lag is possible (v2 always; default port for streams within its buffer), survivors unaffected by a stopped or slow peer, a lagging default-port subscriber still receives the latest publications; non-trivial = execution with >= 1 branching decision".into(),
        assumptions: vec![
            "tokio's broadcast channel is trusted (each of its operations is one atomic step)".into(),
            "publishing is synchronous by type (no await), so 'never blocks' is the absence of a hang".into(),
        ],
        engine: "vsched (shuttle coroutines + deviation-bounded DFS + virtual clock) on the real ractor code, builds: default and output-port-v2",
    }
}
