//! C01 — one handler at a time, in lifecycle order.
use vsched::explore::Job;
use vsched::report::{Plan, Unit};
#[allow(unused_imports)]
use vsched::{ExecCfg, Outcome};

use crate::common::*;
use crate::lifecycle::*;

fn oracle(run: &Run) -> Vec<String> {
    let mut bad = Vec::new();
    for actor in ["A", "C", "S", "B", "X"] {
        let facts = ExitFacts {
            kill_returned: if actor == "A" { run.kill_ret } else { None },
        };
        bad.extend(check_lifecycle(&run.evs, actor, &facts));
    }
    let sc = &run.sc;
    if sc.site == Site::PreStart && matches!(sc.prog, P::Err | P::Panic) && run.spawn_err.is_none() {
        bad.push("pre_start failed but the spawn did not return Err".into());
    }
    if run.spawn_err.is_some() {
        // no handler of A may ever have run
        for e in run.evs.iter().filter(|e| e.actor == "A") {
            if !matches!(e.cb, Cb::PreStart) && sc.site == Site::PreStart && matches!(sc.prog, P::Err | P::Panic) {
                bad.push(format!("A: {:?} ran although pre_start failed", e.cb));
            }
        }
    } else if run.join_ok != Some(true) {
        bad.push(format!("join handle of A did not complete normally: {:?} {:?}", run.join_ok, run.outer_join));
    }
    bad
}

/// Cluster build: messages that reach a LOCAL actor in serialized form (what a cluster session hands over for a
/// peer's cast, `ActorCell::send_serialized`) are subject to the same rules: a handler that returns Err for one
/// of them ends the actor, no further handler and no post_stop run, the supervisor is told of a failure.
#[cfg(feature = "alt")]
fn serialized_err_body(fail_with_panic: bool) -> vsched::Body {
    use ractor::{Actor, ActorProcessingErr, ActorRef, BytesConvertable};
    use std::sync::{Arc, Mutex};
    struct Num {
        log: Arc<Mutex<Vec<String>>>,
        panic: bool,
    }
    #[ractor::async_trait]
    impl Actor for Num {
        type Msg = u32;
        type State = ();
        type Arguments = ();
        async fn pre_start(&self, _m: ActorRef<u32>, _: ()) -> Result<(), ActorProcessingErr> {
            Ok(())
        }
        async fn handle(&self, _m: ActorRef<u32>, m: u32, _: &mut ()) -> Result<(), ActorProcessingErr> {
            self.log.lock().unwrap().push(format!("h{m}"));
            if m == 13 {
                if self.panic {
                    panic!("handler panics on 13");
                }
                return Err("handler fails on 13".into());
            }
            Ok(())
        }
        async fn post_stop(&self, _m: ActorRef<u32>, _: &mut ()) -> Result<(), ActorProcessingErr> {
            self.log.lock().unwrap().push("post_stop".into());
            Ok(())
        }
    }
    Arc::new(move || {
        Box::pin(async move {
            let plog = Log::default();
            let log = Arc::new(Mutex::new(Vec::new()));
            let (s, sh) = Actor::spawn(None, Probe, args("S", Prog::default(), &plog)).await.expect("S");
            let (a, ah) = Actor::spawn_linked(None, Num { log: log.clone(), panic: fail_with_panic }, (), s.get_cell()).await.expect("A");
            vsched::quiesce();
            let cell = a.get_cell();
            let mut accepted = Vec::new();
            for m in [1u32, 13, 2] {
                accepted.push(cell.send_serialized(ractor::message::SerializedMessage::Cast { variant: String::new(), args: m.into_bytes(), metadata: None }).is_ok());
            }
            vsched::quiesce_time();
            let mut bad = Vec::new();
            let l = log.lock().unwrap().clone();
            if l != vec!["h1".to_string(), "h13".to_string()] {
                bad.push(format!("serialized casts 1, 13, 2 (accepted {accepted:?}), the handler fails on 13: the callbacks ran as {l:?}, expected [h1, h13] and nothing after the failure"));
            }
            if a.get_status() != ractor::ActorStatus::Stopped {
                bad.push(format!("the actor is {:?} after its handler failed", a.get_status()));
                a.kill();
            }
            let _ = ah.await;
            let sup: Vec<String> = plog.of("S").iter().filter_map(|e| if let Cb::Sup(x) = &e.cb { Some(x.clone()) } else { None }).collect();
            if !sup.iter().any(|e| e.starts_with("Failed")) || sup.iter().any(|e| e.starts_with("Terminated")) {
                bad.push(format!("the supervisor was told {sup:?}, expected a failure and no clean termination"));
            }
            s.stop(None);
            let _ = sh.await;
            Outcome { key: format!("{l:?}"), violations: bad }
        })
    })
}
#[cfg(not(feature = "alt"))]
fn serialized_err_body(_fail_with_panic: bool) -> vsched::Body {
    wrong_build()
}

pub fn scenarios(thorough: bool) -> Vec<Sc> {
    let mut v = Vec::new();
    let base = |kind, variant, site, prog, closer: Closer| Sc {
        kind,
        variant,
        site,
        prog,
        closer,
        senders: 2,
        child: false,
        pg_event: false,
        busy_sup: false,
        sup_drains: false,
        stale_unlink: false,
    };
    for kind in [Kind::Send, Kind::Local] {
        let mut a = base(kind, Variant::Linked, Site::Handle, P::Awaits, Closer::Stop(Some("bye")));
        a.child = true;
        v.push(a);
        v.push(base(kind, Variant::Plain, Site::Handle, P::Awaits, Closer::Kill));
        v.push(base(kind, Variant::Linked, Site::Handle, P::Err, Closer::None));
        v.push(base(kind, Variant::Linked, Site::Handle, P::Panic, Closer::None));
        v.push(base(kind, Variant::Instant, Site::PostStart, P::Awaits, Closer::Kill));
        let mut s = base(kind, Variant::Linked, Site::Sup, P::Awaits, Closer::Stop(None));
        s.child = true;
        s.senders = 1;
        v.push(s);
        v.push(base(kind, Variant::Plain, Site::PostStop, P::Awaits, Closer::Stop(None)));
        v.push(base(kind, Variant::Linked, Site::PreStart, P::Err, Closer::None));
        // a post_start that fails: no handler and no post_stop afterwards
        v.push(base(kind, Variant::Linked, Site::PostStart, P::Err, Closer::None));
        v.push(base(kind, Variant::Plain, Site::PostStart, P::Panic, Closer::Stop(None)));
        v.push(base(kind, Variant::Plain, Site::Sup, P::Err, Closer::None));
        v.push(base(kind, Variant::Plain, Site::Handle, P::SendsSelf, Closer::Drain));
        v.push(base(kind, Variant::Linked, Site::Handle, P::SelfKill, Closer::None));
        // a stopper, a drainer and a killer at once
        v.push(base(kind, Variant::Linked, Site::Handle, P::Awaits, Closer::StopDrainKill));
        v.push(base(kind, Variant::Plain, Site::PostStop, P::Awaits, Closer::StopDrainKill));
        // a failure while the actor is draining a backlog is still a failure
        v.push(base(kind, Variant::Linked, Site::Handle, P::Err, Closer::Drain));
        v.push(base(kind, Variant::Plain, Site::Handle, P::Panic, Closer::Drain));
        let mut sd = base(kind, Variant::Linked, Site::Sup, P::Err, Closer::Drain);
        sd.child = true;
        sd.senders = 1;
        v.push(sd);
        let mut p = base(kind, Variant::LinkedInstant, Site::Handle, P::Awaits, Closer::Drain);
        p.pg_event = true;
        p.senders = 1;
        v.push(p);
    }
    if thorough {
        for kind in [Kind::Send, Kind::Local] {
            for variant in [Variant::Plain, Variant::Linked, Variant::Instant, Variant::LinkedInstant] {
                for site in [Site::PreStart, Site::PostStart, Site::Handle, Site::Sup, Site::PostStop] {
                    for prog in [P::Straight, P::Awaits, P::SendsSelf, P::SleepsMs, P::Err, P::Panic, P::SelfKill, P::SelfStop] {
                        for closer in [Closer::None, Closer::Stop(Some("r")), Closer::Kill, Closer::Drain] {
                            let mut s = base(kind, variant, site, prog, closer);
                            s.senders = 1;
                            s.child = site == Site::Sup;
                            if !v.iter().any(|x: &Sc| x.name() == s.name()) {
                                v.push(s);
                            }
                        }
                    }
                }
            }
        }
    }
    v
}

pub fn plan(tier: &str) -> Plan {
    let thorough = tier == "thorough";
    let cfg = ExecCfg::default();
    let mut units = Vec::new();
    let quick_names: Vec<String> = scenarios(false).iter().map(|s| s.name()).collect();
    for sc in scenarios(thorough) {
        let core = quick_names.contains(&sc.name());
        let bound = if thorough && core { 3 } else { 2 };
        let split = if thorough && core { 4 } else { 1 };
        units.push(Unit::explore_split(Job::new(format!("c01/{}", sc.name()), cfg.clone(), Some(bound), body(sc, oracle)), split));
    }
    // the quick scenarios once more on the async-trait (+ cluster + monitors) build of the harness:
    // callbacks are boxed `dyn Future`s there and the exit path also serves monitors
    for sc in scenarios(false) {
        units.push(alt_unit(format!("alt/c01/{}", sc.name()), cfg.clone(), Some(2), body(sc, oracle), 1));
    }
    for p in [false, true] {
        units.push(alt_unit(format!("alt/c01/serialized-delivery/handler-{}", if p { "panics" } else { "err" }), cfg.clone(), Some(1), serialized_err_body(p), 1));
    }
    // the same racing closers at the granularity of the runtime's own steps: a decision point before every
    // atomic, lock, map and channel operation of the actor's task and of the closers (the windows inside
    // set_status' clean-up, between two port polls, ... only exist at this granularity)
    let s_kinds: &'static [vsched::PointKind] = &[vsched::PointKind::Atomic, vsched::PointKind::Lock, vsched::PointKind::Map, vsched::PointKind::Channel];
    let fine = ExecCfg {
        filter: Some(std::sync::Arc::new(move |k, _l, t: &vsched::TaskInfo| s_kinds.contains(&k) && (t.role == "closer" || (t.role == "lib" && t.name.as_deref() == Some("A"))))),
        ..Default::default()
    };
    for sc in scenarios(false).into_iter().filter(|s| s.closer == Closer::StopDrainKill) {
        units.push(Unit::explore_split(Job::new(format!("fine/c01/{}", sc.name()), fine.clone(), Some(if thorough { 3 } else { 2 }), body(sc, oracle)), 8));
    }
    Plan {
        property: "C01",
        units,
        rule: "per scenario (actor kind x spawn variant x callback program x exit cause x stimuli) a stateless DFS over task-level schedules of the real actor loop (decision point wherever a task blocks, finishes, or several are runnable), deviation-bounded; the oracle is a per-actor automaton over the Enter/Tick/Exit/Cancelled trace logged by the callbacks; non-trivial = execution with >= 1 branching decision; distinct = distinct choice vectors".into(),
        assumptions: vec![
            "task granularity: a callback is only interleaved with other tasks at its await points (what one executor thread can produce)".into(),
            "tokio-flavoured select! (the async-std feature is not built); the alt/ units run on a second build of the harness with ractor's async-trait, cluster and monitors features".into(),
        ],
        engine: "vsched (shuttle coroutines + deviation-bounded DFS) on the real ractor code, builds: default and async-trait",
    }
}
