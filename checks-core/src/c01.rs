//! C01 — one handler at a time, in lifecycle order.
use vsched::explore::Job;
use vsched::report::{Plan, Unit};
use vsched::ExecCfg;

use crate::common::*;
use crate::lifecycle::*;

fn oracle(run: &Run) -> Vec<String> {
    let mut bad = Vec::new();
    for actor in ["A", "C", "S", "B", "X"] {
        let facts = ExitFacts {
            kill_returned: if actor == "A" { run.kill_ret } else { None },
        };
        bad.extend(check_lifecycle(&run.evs, actor, &facts));
    }
    let sc = &run.sc;
    if sc.site == Site::PreStart && matches!(sc.prog, P::Err | P::Panic) && run.spawn_err.is_none() {
        bad.push("pre_start failed but the spawn did not return Err".into());
    }
    if run.spawn_err.is_some() {
        // no handler of A may ever have run
        for e in run.evs.iter().filter(|e| e.actor == "A") {
            if !matches!(e.cb, Cb::PreStart) && sc.site == Site::PreStart && matches!(sc.prog, P::Err | P::Panic) {
                bad.push(format!("A: {:?} ran although pre_start failed", e.cb));
            }
        }
    } else if run.join_ok != Some(true) {
        bad.push(format!("join handle of A did not complete normally: {:?} {:?}", run.join_ok, run.outer_join));
    }
    bad
}

pub fn scenarios(thorough: bool) -> Vec<Sc> {
    let mut v = Vec::new();
    let base = |kind, variant, site, prog, closer: Closer| Sc {
        kind,
        variant,
        site,
        prog,
        closer,
        senders: 2,
        child: false,
        pg_event: false,
        busy_sup: false,
        sup_drains: false,
        stale_unlink: false,
    };
    for kind in [Kind::Send, Kind::Local] {
        let mut a = base(kind, Variant::Linked, Site::Handle, P::Awaits, Closer::Stop(Some("bye")));
        a.child = true;
        v.push(a);
        v.push(base(kind, Variant::Plain, Site::Handle, P::Awaits, Closer::Kill));
        v.push(base(kind, Variant::Linked, Site::Handle, P::Err, Closer::None));
        v.push(base(kind, Variant::Linked, Site::Handle, P::Panic, Closer::None));
        v.push(base(kind, Variant::Instant, Site::PostStart, P::Awaits, Closer::Kill));
        let mut s = base(kind, Variant::Linked, Site::Sup, P::Awaits, Closer::Stop(None));
        s.child = true;
        s.senders = 1;
        v.push(s);
        v.push(base(kind, Variant::Plain, Site::PostStop, P::Awaits, Closer::Stop(None)));
        v.push(base(kind, Variant::Linked, Site::PreStart, P::Err, Closer::None));
        // a post_start that fails: no handler and no post_stop afterwards
        v.push(base(kind, Variant::Linked, Site::PostStart, P::Err, Closer::None));
        v.push(base(kind, Variant::Plain, Site::PostStart, P::Panic, Closer::Stop(None)));
        v.push(base(kind, Variant::Plain, Site::Sup, P::Err, Closer::None));
        v.push(base(kind, Variant::Plain, Site::Handle, P::SendsSelf, Closer::Drain));
        v.push(base(kind, Variant::Linked, Site::Handle, P::SelfKill, Closer::None));
        // a stopper, a drainer and a killer at once
        v.push(base(kind, Variant::Linked, Site::Handle, P::Awaits, Closer::StopDrainKill));
        v.push(base(kind, Variant::Plain, Site::PostStop, P::Awaits, Closer::StopDrainKill));
        // a failure while the actor is draining a backlog is still a failure
        v.push(base(kind, Variant::Linked, Site::Handle, P::Err, Closer::Drain));
        v.push(base(kind, Variant::Plain, Site::Handle, P::Panic, Closer::Drain));
        let mut sd = base(kind, Variant::Linked, Site::Sup, P::Err, Closer::Drain);
        sd.child = true;
        sd.senders = 1;
        v.push(sd);
        let mut p = base(kind, Variant::LinkedInstant, Site::Handle, P::Awaits, Closer::Drain);
        p.pg_event = true;
        p.senders = 1;
        v.push(p);
    }
    if thorough {
        for kind in [Kind::Send, Kind::Local] {
            for variant in [Variant::Plain, Variant::Linked, Variant::Instant, Variant::LinkedInstant] {
                for site in [Site::PreStart, Site::PostStart, Site::Handle, Site::Sup, Site::PostStop] {
                    for prog in [P::Straight, P::Awaits, P::SendsSelf, P::SleepsMs, P::Err, P::Panic, P::SelfKill, P::SelfStop] {
                        for closer in [Closer::None, Closer::Stop(Some("r")), Closer::Kill, Closer::Drain] {
                            let mut s = base(kind, variant, site, prog, closer);
                            s.senders = 1;
                            s.child = site == Site::Sup;
                            if !v.iter().any(|x: &Sc| x.name() == s.name()) {
                                v.push(s);
                            }
                        }
                    }
                }
            }
        }
    }
    v
}

pub fn plan(tier: &str) -> Plan {
    let thorough = tier == "thorough";
    let cfg = ExecCfg::default();
    let mut units = Vec::new();
    let quick_names: Vec<String> = scenarios(false).iter().map(|s| s.name()).collect();
    for sc in scenarios(thorough) {
        let core = quick_names.contains(&sc.name());
        let bound = if thorough && core { 3 } else { 2 };
        let split = if thorough && core { 4 } else { 1 };
        units.push(Unit::explore_split(Job::new(format!("c01/{}", sc.name()), cfg.clone(), Some(bound), body(sc, oracle)), split));
    }
    // the quick scenarios once more on the async-trait (+ cluster + monitors) build of the harness:
    // callbacks are boxed `dyn Future`s there and the exit path also serves monitors
    for sc in scenarios(false) {
        units.push(alt_unit(format!("alt/c01/{}", sc.name()), cfg.clone(), Some(2), body(sc, oracle), 1));
    }
    // the same racing closers at the granularity of the runtime's own steps: a decision point before every
    // atomic, lock, map and channel operation of the actor's task and of the closers (the windows inside
    // set_status' clean-up, between two port polls, ... only exist at this granularity)
    let s_kinds: &'static [vsched::PointKind] = &[vsched::PointKind::Atomic, vsched::PointKind::Lock, vsched::PointKind::Map, vsched::PointKind::Channel];
    let fine = ExecCfg {
        filter: Some(std::sync::Arc::new(move |k, _l, t: &vsched::TaskInfo| s_kinds.contains(&k) && (t.role == "closer" || (t.role == "lib" && t.name.as_deref() == Some("A"))))),
        ..Default::default()
    };
    for sc in scenarios(false).into_iter().filter(|s| s.closer == Closer::StopDrainKill) {
        units.push(Unit::explore_split(Job::new(format!("fine/c01/{}", sc.name()), fine.clone(), Some(if thorough { 3 } else { 2 }), body(sc, oracle)), 8));
    }
    Plan {
        property: "C01",
        units,
        rule: "per scenario (actor kind x spawn variant x callback program x exit cause x stimuli) a stateless DFS over task-level schedules of the real actor loop (decision point wherever a task blocks, finishes, or several are runnable), deviation-bounded; the oracle is a per-actor automaton over the Enter/Tick/Exit/Cancelled trace logged by the callbacks; non-trivial = execution with >= 1 branching decision; distinct = distinct choice vectors".into(),
        assumptions: vec![
            "task granularity: a callback is only interleaved with other tasks at its await points (what one executor thread can produce)".into(),
            "tokio-flavoured select! (the async-std feature is not built); the alt/ units run on a second build of the harness with ractor's async-trait, cluster and monitors features".into(),
        ],
        engine: "vsched (shuttle coroutines + deviation-bounded DFS) on the real ractor code, builds: default and async-trait",
    }
}
