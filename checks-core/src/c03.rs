//! C03 — kill > stop > supervision > messages; stop is graceful, kill immediate.
use vsched::explore::Job;
use vsched::report::{Plan, Unit};
use vsched::ExecCfg;

use crate::common::*;
use crate::lifecycle::*;

fn oracle(run: &Run) -> Vec<String> {
    let mut bad = Vec::new();
    let a: Vec<&Ev> = run.evs.iter().filter(|e| e.actor == "A").collect();
    let self_kill = run.sc.prog == P::SelfKill;
    // --- kill
    if let Some(k) = run.kill_ret {
        for e in &a {
            if e.lc > k && matches!(e.kind, EvKind::Enter) {
                bad.push(format!("callback {:?} started after kill() had returned", e.cb));
            }
            if e.lc > k && matches!(e.kind, EvKind::Tick(_)) && !self_kill {
                bad.push(format!("callback {:?} made progress (tick) after kill() had returned", e.cb));
            }
            if e.lc > k && matches!(e.kind, EvKind::ExitOk | EvKind::ExitErr) && !self_kill {
                bad.push(format!("callback {:?} ran to completion after kill() had returned", e.cb));
            }
        }
    }
    if self_kill {
        // steps: KillSelf, Tick, Yield, Tick — the tick before the suspension point is allowed, the
        // one after it is not
        for e in &a {
            if let (Cb::Handle(_) | Cb::PostStart | Cb::Sup(_) | Cb::PostStop | Cb::PreStart, EvKind::Tick(n)) = (&e.cb, &e.kind) {
                let site_matches = matches!(
                    (&e.cb, run.sc.site),
                    (Cb::Handle(_), Site::Handle) | (Cb::PostStart, Site::PostStart) | (Cb::Sup(_), Site::Sup) | (Cb::PostStop, Site::PostStop) | (Cb::PreStart, Site::PreStart)
                );
                if site_matches && *n >= 2 {
                    bad.push(format!("{:?} progressed past its suspension point after killing itself", e.cb));
                }
            }
        }
    }
    // --- stop
    if let Some(s) = run.stop_ret {
        for e in &a {
            if e.lc > s && matches!(e.kind, EvKind::Enter) && matches!(e.cb, Cb::Handle(_) | Cb::Sup(_)) {
                bad.push(format!("handler {:?} started after stop() had returned", e.cb));
            }
        }
        // the handler that was running when stop() returned finishes, then post_stop sees its state
        let killed = run.kill_ret.is_some() || a.iter().any(|e| matches!(e.kind, EvKind::Cancelled));
        let failed = a.iter().any(|e| matches!(e.kind, EvKind::ExitErr | EvKind::Panicked));
        let started = a.iter().any(|e| e.cb == Cb::PostStart && e.kind == EvKind::ExitOk);
        if !killed && !failed && started && !self_kill {
            let open_at_stop = a
                .iter()
                .filter(|e| e.lc < s && matches!(e.kind, EvKind::Enter) && matches!(e.cb, Cb::Handle(_) | Cb::Sup(_)))
                .next_back()
                .filter(|en| !a.iter().any(|x| x.cb == en.cb && x.lc > en.lc && x.lc < s && !matches!(x.kind, EvKind::Tick(_))));
            let ps = a.iter().find(|e| e.cb == Cb::PostStop && e.kind == EvKind::Enter);
            match ps {
                None => bad.push("graceful stop but post_stop never ran".into()),
                Some(ps) => {
                    if let Some(en) = open_at_stop {
                        match a.iter().find(|x| x.cb == en.cb && x.lc > en.lc && matches!(x.kind, EvKind::ExitOk)) {
                            None => bad.push(format!("handler {:?} was running when stop() returned but did not finish", en.cb)),
                            Some(ex) => {
                                if ps.lc < ex.lc {
                                    bad.push("post_stop began before the running handler finished".into());
                                }
                            }
                        }
                    }
                    let last_version = a.iter().filter(|e| e.lc < ps.lc).map(|e| e.version).max().unwrap_or(0);
                    if ps.version != last_version {
                        bad.push(format!("post_stop saw state version {} but the handlers left {}", ps.version, last_version));
                    }
                }
            }
        }
    }
    // --- supervision before messages
    if let Some(p) = run.pg_ret {
        let sup_enter = a.iter().find(|e| matches!(&e.cb, Cb::Sup(s) if s.starts_with("PgJoin")) && e.kind == EvKind::Enter).map(|e| e.lc);
        for e in &a {
            if let (Cb::Handle(t), EvKind::Enter) = (&e.cb, &e.kind) {
                if e.lc > p && sup_enter.is_none_or(|s| s > e.lc) {
                    bad.push(format!(
                        "message handler h{t} started at #{} while a supervision event enqueued at #{} was still pending",
                        e.lc, p
                    ));
                }
            }
        }
    }
    bad
}

fn scenarios(thorough: bool) -> Vec<Sc> {
    let mut v = Vec::new();
    let base = |kind, variant, site, prog, closer: Closer, senders, pg| Sc {
        kind,
        variant,
        site,
        prog,
        closer,
        senders,
        child: false,
        pg_event: pg,
        busy_sup: false,
        sup_drains: false,
        stale_unlink: false,
    };
    let kinds: &[Kind] = &[Kind::Send, Kind::Local];
    for &kind in kinds {
        for site in [Site::PreStart, Site::PostStart, Site::Handle, Site::Sup, Site::PostStop] {
            for closer in [Closer::Kill, Closer::Stop(Some("r"))] {
                if !thorough && kind == Kind::Local && !matches!(site, Site::Handle | Site::PostStop) {
                    continue;
                }
                let pg = site == Site::Sup;
                v.push(base(kind, Variant::Plain, site, P::Awaits, closer, if site == Site::Handle { 2 } else { 1 }, pg));
            }
        }
        // a graceful stop whose reason text is "killed" (what a supervisor forwards when it stops itself because a
        // child was killed): post_stop still runs with the final state
        v.push(base(kind, Variant::Plain, Site::Handle, P::Awaits, Closer::Stop(Some("killed")), 2, false));
        v.push(base(kind, Variant::Plain, Site::PostStop, P::Awaits, Closer::Stop(Some("killed")), 1, false));
        // a stopper, a drainer and a killer race: whichever lands first, nothing starts after kill() returned
        v.push(base(kind, Variant::Plain, Site::Handle, P::Awaits, Closer::StopDrainKill, 2, false));
        v.push(base(kind, Variant::Plain, Site::PostStop, P::Awaits, Closer::StopDrainKill, 1, false));
        // a draining actor still honours stop and supervision: drain, then stop / a supervision event, with a backlog
        v.push(base(kind, Variant::Plain, Site::Handle, P::Awaits, Closer::DrainThenStop, 2, false));
        v.push(base(kind, Variant::Plain, Site::Handle, P::Awaits, Closer::Drain, 2, true));
        // supervision events are handled before messages
        v.push(base(kind, Variant::Plain, Site::Handle, P::Awaits, Closer::None, 2, true));
        v.push(base(kind, Variant::Plain, Site::Handle, P::SleepsMs, Closer::Stop(None), 2, true));
        // self kill / self stop from inside a handler
        v.push(base(kind, Variant::Plain, Site::Handle, P::SelfKill, Closer::None, 2, false));
        v.push(base(kind, Variant::Plain, Site::Handle, P::SelfStop, Closer::None, 2, false));
        if thorough {
            for site in [Site::PostStart, Site::Sup, Site::PostStop] {
                v.push(base(kind, Variant::Linked, site, P::SelfKill, Closer::None, 1, site == Site::Sup));
                v.push(base(kind, Variant::Instant, site, P::SleepsMs, Closer::Kill, 1, site == Site::Sup));
                v.push(base(kind, Variant::Instant, site, P::SleepsMs, Closer::Stop(None), 1, site == Site::Sup));
            }
        }
    }
    v
}

pub fn plan(tier: &str) -> Plan {
    let thorough = tier == "thorough";
    let cfg = ExecCfg::default();
    let mut units = Vec::new();
    for sc in scenarios(thorough) {
        let bound = if thorough { 4 } else { 3 };
        units.push(Unit::explore_split(Job::new(format!("c03/{}", sc.name()), cfg.clone(), Some(bound), body(sc, oracle)), if thorough { 8 } else { 4 }));
    }
    // the same racing closers at the granularity of the runtime's own steps: a decision point before every
    // atomic, lock, map and channel operation of the actor's task and of the closers (the windows inside
    // set_status' clean-up, between two port polls, ... only exist at this granularity)
    let s_kinds: &'static [vsched::PointKind] = &[vsched::PointKind::Atomic, vsched::PointKind::Lock, vsched::PointKind::Map, vsched::PointKind::Channel];
    let fine = ExecCfg {
        filter: Some(std::sync::Arc::new(move |k, _l, t: &vsched::TaskInfo| s_kinds.contains(&k) && (t.role == "closer" || (t.role == "lib" && t.name.as_deref() == Some("A"))))),
        ..Default::default()
    };
    for sc in scenarios(false).into_iter().filter(|s| s.closer == Closer::StopDrainKill) {
        units.push(Unit::explore_split(Job::new(format!("fine/c03/{}", sc.name()), fine.clone(), Some(if thorough { 3 } else { 2 }), body(sc, oracle)), 8));
    }
    // a child's exit seen at the granularity of the child's own steps: the supervisor may pick the terminal
    // event while the child is still between sending it and publishing Stopped; a stop() of the supervisor
    // that returns in that window still keeps the supervision handler from starting
    let fine_child = ExecCfg {
        filter: Some(std::sync::Arc::new(move |k, _l, t: &vsched::TaskInfo| s_kinds.contains(&k) && (t.role == "closer" || (t.role == "lib" && matches!(t.name.as_deref(), Some("A") | Some("C")))))),
        ..Default::default()
    };
    for kind in [Kind::Send, Kind::Local] {
        for closer in [Closer::StopAfterChild, Closer::Kill] {
            let sc = Sc { kind, variant: Variant::Linked, site: Site::Sup, prog: P::Awaits, closer, senders: 1, child: true, pg_event: false, busy_sup: false, sup_drains: false, stale_unlink: false };
            units.push(Unit::explore_split(Job::new(format!("fine-child/c03/{}", sc.name()), fine_child.clone(), Some(if thorough { 3 } else { 2 }), body(sc, oracle)), 8));
        }
    }
    // two concurrent requesters of the same kind: the request holds as soon as either call has returned
    for kind in [Kind::Send, Kind::Local] {
        for closer in [Closer::TwoKillers, Closer::TwoStoppers] {
            let sc = Sc { kind, variant: Variant::Linked, site: Site::Handle, prog: P::Awaits, closer, senders: 2, child: false, pg_event: false, busy_sup: false, sup_drains: false, stale_unlink: false };
            units.push(Unit::explore_split(Job::new(format!("fine/c03/{}", sc.name()), fine.clone(), Some(if thorough { 3 } else { 2 }), body(sc, oracle)), 8));
        }
    }
    Plan {
        property: "C03",
        units,
        rule: "per scenario the arrival point of kill / stop / a supervision event (enqueued through a pg monitor) relative to the actor's callbacks is explored by a deviation-bounded DFS over task-level schedules of the real actor loop; the oracle compares logical times of Enter/Tick/Exit events with the return times of kill()/stop()/pg::join(); non-trivial = execution with >= 1 branching decision".into(),
        assumptions: vec![
            "task granularity: the pick in listen_in_priority and the first poll of the chosen callback are one step, which is what makes 'after kill() returned' decidable".into(),
        ],
        engine: "vsched (shuttle coroutines + deviation-bounded DFS) on the real ractor code",
    }
}
