//! C03 — kill > stop > supervision > messages; stop is graceful, kill immediate.
use vsched::explore::Job;
use vsched::report::{Plan, Unit};
use vsched::ExecCfg;

use crate::common::*;
use crate::lifecycle::*;

fn oracle(run: &Run) -> Vec<String> {
    let mut bad = Vec::new();
    let a: Vec<&Ev> = run.evs.iter().filter(|e| e.actor == "A").collect();
    let self_kill = run.sc.prog == P::SelfKill;
    // --- kill
    if let Some(k) = run.kill_ret {
        for e in &a {
            if e.lc > k && matches!(e.kind, EvKind::Enter) {
                bad.push(format!("callback {:?} started after kill() had returned", e.cb));
            }
            if e.lc > k && matches!(e.kind, EvKind::Tick(_)) && !self_kill {
                bad.push(format!("callback {:?} made progress (tick) after kill() had returned", e.cb));
            }
            if e.lc > k && matches!(e.kind, EvKind::ExitOk | EvKind::ExitErr) && !self_kill {
                bad.push(format!("callback {:?} ran to completion after kill() had returned", e.cb));
            }
        }
    }
    if self_kill {
        // steps: KillSelf, Tick, Yield, Tick — the tick before the suspension point is allowed, the
        // one after it is not
        for e in &a {
            if let (Cb::Handle(_) | Cb::PostStart | Cb::Sup(_) | Cb::PostStop | Cb::PreStart, EvKind::Tick(n)) = (&e.cb, &e.kind) {
                let site_matches = matches!(
                    (&e.cb, run.sc.site),
                    (Cb::Handle(_), Site::Handle) | (Cb::PostStart, Site::PostStart) | (Cb::Sup(_), Site::Sup) | (Cb::PostStop, Site::PostStop) | (Cb::PreStart, Site::PreStart)
                );
                if site_matches && *n >= 2 {
                    bad.push(format!("{:?} progressed past its suspension point after killing itself", e.cb));
                }
            }
        }
    }
    // --- stop
    if let Some(s) = run.stop_ret {
        for e in &a {
            if e.lc > s && matches!(e.kind, EvKind::Enter) && matches!(e.cb, Cb::Handle(_) | Cb::Sup(_)) {
                bad.push(format!("handler {:?} started after stop() had returned", e.cb));
            }
        }
        // the handler that was running when stop() returned finishes, then post_stop sees its state
        let killed = run.kill_ret.is_some() || a.iter().any(|e| matches!(e.kind, EvKind::Cancelled));
        let failed = a.iter().any(|e| matches!(e.kind, EvKind::ExitErr | EvKind::Panicked));
        let started = a.iter().any(|e| e.cb == Cb::PostStart && e.kind == EvKind::ExitOk);
        if !killed && !failed && started && !self_kill {
            let open_at_stop = a
                .iter()
                .filter(|e| e.lc < s && matches!(e.kind, EvKind::Enter) && matches!(e.cb, Cb::Handle(_) | Cb::Sup(_)))
                .next_back()
                .filter(|en| !a.iter().any(|x| x.cb == en.cb && x.lc > en.lc && x.lc < s && !matches!(x.kind, EvKind::Tick(_))));
            let ps = a.iter().find(|e| e.cb == Cb::PostStop && e.kind == EvKind::Enter);
            match ps {
                None => bad.push("graceful stop but post_stop never ran".into()),
                Some(ps) => {
                    if let Some(en) = open_at_stop {
                        match a.iter().find(|x| x.cb == en.cb && x.lc > en.lc && matches!(x.kind, EvKind::ExitOk)) {
                            None => bad.push(format!("handler {:?} was running when stop() returned but did not finish", en.cb)),
                            Some(ex) => {
                                if ps.lc < ex.lc {
                                    bad.push("post_stop began before the running handler finished".into());
                                }
                            }
                        }
                    }
                    let last_version = a.iter().filter(|e| e.lc < ps.lc).map(|e| e.version).max().unwrap_or(0);
                    if ps.version != last_version {
                        bad.push(format!("post_stop saw state version {} but the handlers left {}", ps.version, last_version));
                    }
                }
            }
        }
    }
    // --- supervision before messages
    if let Some(p) = run.pg_ret {
        let sup_enter = a.iter().find(|e| matches!(&e.cb, Cb::Sup(s) if s.starts_with("PgJoin")) && e.kind == EvKind::Enter).map(|e| e.lc);
        for e in &a {
            if let (Cb::Handle(t), EvKind::Enter) = (&e.cb, &e.kind) {
                if e.lc > p && sup_enter.is_none_or(|s| s > e.lc) {
                    bad.push(format!(
                        "message handler h{t} started at #{} while a supervision event enqueued at #{} was still pending",
                        e.lc, p
                    ));
                }
            }
        }
    }
    bad
}

fn scenarios(thorough: bool) -> Vec<Sc> {
    let mut v = Vec::new();
    let base = |kind, variant, site, prog, closer: Closer, senders, pg| Sc {
        kind,
        variant,
        site,
        prog,
        closer,
        senders,
        child: false,
        pg_event: pg,
        busy_sup: false,
        sup_drains: false,
        stale_unlink: false,
    };
    let kinds: &[Kind] = &[Kind::Send, Kind::Local];
    for &kind in kinds {
        for site in [Site::PreStart, Site::PostStart, Site::Handle, Site::Sup, Site::PostStop] {
            for closer in [Closer::Kill, Closer::Stop(Some("r"))] {
                if !thorough && kind == Kind::Local && !matches!(site, Site::Handle | Site::PostStop) {
                    continue;
                }
                let pg = site == Site::Sup;
                v.push(base(kind, Variant::Plain, site, P::Awaits, closer, if site == Site::Handle { 2 } else { 1 }, pg));
            }
        }
        // a graceful stop whose reason text is "killed" (what a supervisor forwards when it stops itself because a
        // child was killed): post_stop still runs with the final state
        v.push(base(kind, Variant::Plain, Site::Handle, P::Awaits, Closer::Stop(Some("killed")), 2, false));
        v.push(base(kind, Variant::Plain, Site::PostStop, P::Awaits, Closer::Stop(Some("killed")), 1, false));
        // a stopper, a drainer and a killer race: whichever lands first, nothing starts after kill() returned
        v.push(base(kind, Variant::Plain, Site::Handle, P::Awaits, Closer::StopDrainKill, 2, false));
        v.push(base(kind, Variant::Plain, Site::PostStop, P::Awaits, Closer::StopDrainKill, 1, false));
        // a draining actor still honours stop and supervision: drain, then stop / a supervision event, with a backlog
        v.push(base(kind, Variant::Plain, Site::Handle, P::Awaits, Closer::DrainThenStop, 2, false));
        v.push(base(kind, Variant::Plain, Site::Handle, P::Awaits, Closer::Drain, 2, true));
        // supervision events are handled before messages
        v.push(base(kind, Variant::Plain, Site::Handle, P::Awaits, Closer::None, 2, true));
        v.push(base(kind, Variant::Plain, Site::Handle, P::SleepsMs, Closer::Stop(None), 2, true));
        // self kill / self stop from inside a handler
        v.push(base(kind, Variant::Plain, Site::Handle, P::SelfKill, Closer::None, 2, false));
        v.push(base(kind, Variant::Plain, Site::Handle, P::SelfStop, Closer::None, 2, false));
        if thorough {
            for site in [Site::PostStart, Site::Sup, Site::PostStop] {
                v.push(base(kind, Variant::Linked, site, P::SelfKill, Closer::None, 1, site == Site::Sup));
                v.push(base(kind, Variant::Instant, site, P::SleepsMs, Closer::Kill, 1, site == Site::Sup));
                v.push(base(kind, Variant::Instant, site, P::SleepsMs, Closer::Stop(None), 1, site == Site::Sup));
            }
        }
    }
    v
}

/// Long runs of supervision events: `pre` events are handled one at a time with nothing else pending, the next one
/// holds the actor inside its supervision handler while `burst` further events and one user message (cast before
/// or after them) pile up; when the handler is released every pick finds events and the message pending together.
/// The clause is the property's own: a message handler never starts while a supervision event that was enqueued
/// before the previous callback finished is still unhandled — however many events the actor has handled in a row.
fn streak_body(kind: Kind, pre: usize, burst: usize, msg_first: bool) -> vsched::Body {
    use std::sync::atomic::{AtomicBool, Ordering};
    std::sync::Arc::new(move || {
        Box::pin(async move {
            let log = Log::default();
            let spawner = ractor::thread_local::ThreadLocalActorSpawner::verif_new_local();
            let hold = std::sync::Arc::new(AtomicBool::new(false));
            let h2 = hold.clone();
            let gate: CustomFn = std::sync::Arc::new(move |_me| {
                let h = h2.clone();
                Box::pin(async move {
                    let mut spins = 0;
                    while h.load(Ordering::SeqCst) && spins < 10_000 {
                        vsched::yield_now().await;
                        spins += 1;
                    }
                    Ok(())
                })
            });
            let prog = Prog { sup: vec![Step::Custom("gate", gate)], ..Default::default() };
            let (x_ref, x_h) = ractor::Actor::spawn(None, Probe, args("X", Prog::default(), &log)).await.expect("X");
            let (a_ref, a_h, _) = spawn_probe(kind, Variant::Plain, None, args("A", prog, &log), None, &spawner).await.expect("A");
            let group = "streak".to_string();
            ractor::pg::monitor(group.clone(), a_ref.get_cell());
            let mut enq: Vec<u64> = Vec::new();
            let mut joined = false;
            let mut event = |enq: &mut Vec<u64>| {
                if joined {
                    ractor::pg::leave(group.clone(), vec![x_ref.get_cell()]);
                } else {
                    ractor::pg::join(group.clone(), vec![x_ref.get_cell()]);
                }
                joined = !joined;
                enq.push(vsched::ret_stamp());
            };
            for _ in 0..pre {
                event(&mut enq);
                vsched::quiesce();
            }
            hold.store(true, Ordering::SeqCst);
            event(&mut enq);
            vsched::quiesce();
            let mut cast_ret = 0;
            if msg_first {
                let _ = a_ref.cast(do_msg(1, vec![Step::Tick]));
                cast_ret = vsched::ret_stamp();
            }
            for _ in 0..burst {
                event(&mut enq);
            }
            if !msg_first {
                let _ = a_ref.cast(do_msg(1, vec![Step::Tick]));
                cast_ret = vsched::ret_stamp();
            }
            hold.store(false, Ordering::SeqCst);
            vsched::quiesce();
            if joined {
                ractor::pg::leave(group.clone(), vec![x_ref.get_cell()]);
            }
            ractor::pg::demonitor(group.clone(), a_ref.get_id());
            vsched::quiesce();
            a_ref.stop(None);
            if let Some(h) = a_h {
                let _ = h.await;
            }
            x_ref.stop(None);
            let _ = x_h.await;
            let a = log.of("A");
            let mut bad = Vec::new();
            let sup_enters: Vec<u64> = a.iter().filter(|e| matches!(e.cb, Cb::Sup(_)) && e.kind == EvKind::Enter).map(|e| e.lc).collect();
            if sup_enters.len() < enq.len() {
                bad.push(format!("{} supervision events were enqueued, {} were handled", enq.len(), sup_enters.len()));
            }
            match a.iter().find(|e| e.cb == Cb::Handle(1) && e.kind == EvKind::Enter) {
                None => bad.push("the message was never handled".into()),
                Some(h) => {
                    // the pick that chose the message happened after the previous callback had finished
                    let prev_exit = a.iter().filter(|e| e.lc < h.lc && matches!(e.kind, EvKind::ExitOk | EvKind::ExitErr)).map(|e| e.lc).max().unwrap_or(0);
                    let pending = enq.iter().filter(|&&r| r < prev_exit).count();
                    let handled = sup_enters.iter().filter(|&&l| l < h.lc).count();
                    if handled < pending {
                        bad.push(format!(
                            "the message handler started at #{} after {} supervision events although {} had been enqueued before the previous callback finished (#{}); message cast returned at #{}",
                            h.lc, handled, pending, prev_exit, cast_ret
                        ));
                    }
                }
            }
            let order: String = a
                .iter()
                .filter(|e| e.kind == EvKind::Enter)
                .map(|e| match e.cb {
                    Cb::Sup(_) => 's',
                    Cb::Handle(_) => 'h',
                    _ => '.',
                })
                .collect();
            vsched::Outcome { key: order, violations: bad }
        })
    })
}

pub fn plan(tier: &str) -> Plan {
    let thorough = tier == "thorough";
    let cfg = ExecCfg::default();
    let mut units = Vec::new();
    for kind in [Kind::Send, Kind::Local] {
        let pres: Vec<usize> = if thorough { (0..=34).chain([63, 64, 65, 127, 128, 129, 255, 256, 257]).collect() } else { vec![0, 3, 7, 8, 15, 16, 31, 32] };
        let bursts: &[usize] = if thorough { &[1, 2, 12, 40, 70, 140, 300] } else { &[1, 12, 40] };
        for &pre in &pres {
            for &burst in bursts {
                if thorough && burst > 40 && pre > 2 {
                    continue;
                }
                for msg_first in [true, false] {
                    units.push(Unit::explore(Job::new(
                        format!("streak/c03/{kind:?}/pre{pre}+burst{burst}/{}", if msg_first { "message-first" } else { "message-last" }),
                        cfg.clone(),
                        Some(if thorough { 1 } else { 0 }),
                        streak_body(kind, pre, burst, msg_first),
                    )));
                }
            }
        }
    }
    for sc in scenarios(thorough) {
        let bound = if thorough { 4 } else { 3 };
        units.push(Unit::explore_split(Job::new(format!("c03/{}", sc.name()), cfg.clone(), Some(bound), body(sc, oracle)), if thorough { 8 } else { 4 }));
    }
    // the same racing closers at the granularity of the runtime's own steps: a decision point before every
    // atomic, lock, map and channel operation of the actor's task and of the closers (the windows inside
    // set_status' clean-up, between two port polls, ... only exist at this granularity)
    let s_kinds: &'static [vsched::PointKind] = &[vsched::PointKind::Atomic, vsched::PointKind::Lock, vsched::PointKind::Map, vsched::PointKind::Channel];
    let fine = ExecCfg {
        filter: Some(std::sync::Arc::new(move |k, _l, t: &vsched::TaskInfo| s_kinds.contains(&k) && (t.role == "closer" || (t.role == "lib" && t.name.as_deref() == Some("A"))))),
        ..Default::default()
    };
    for sc in scenarios(false).into_iter().filter(|s| s.closer == Closer::StopDrainKill) {
        units.push(Unit::explore_split(Job::new(format!("fine/c03/{}", sc.name()), fine.clone(), Some(if thorough { 3 } else { 2 }), body(sc, oracle)), 8));
    }
    // a child's exit seen at the granularity of the child's own steps: the supervisor may pick the terminal
    // event while the child is still between sending it and publishing Stopped; a stop() of the supervisor
    // that returns in that window still keeps the supervision handler from starting
    let fine_child = ExecCfg {
        filter: Some(std::sync::Arc::new(move |k, _l, t: &vsched::TaskInfo| s_kinds.contains(&k) && (t.role == "closer" || (t.role == "lib" && matches!(t.name.as_deref(), Some("A") | Some("C")))))),
        ..Default::default()
    };
    for kind in [Kind::Send, Kind::Local] {
        for closer in [Closer::StopAfterChild, Closer::Kill] {
            let sc = Sc { kind, variant: Variant::Linked, site: Site::Sup, prog: P::Awaits, closer, senders: 1, child: true, pg_event: false, busy_sup: false, sup_drains: false, stale_unlink: false };
            units.push(Unit::explore_split(Job::new(format!("fine-child/c03/{}", sc.name()), fine_child.clone(), Some(if thorough { 3 } else { 2 }), body(sc, oracle)), 8));
        }
    }
    // two concurrent requesters of the same kind: the request holds as soon as either call has returned
    for kind in [Kind::Send, Kind::Local] {
        for closer in [Closer::TwoKillers, Closer::TwoStoppers] {
            let sc = Sc { kind, variant: Variant::Linked, site: Site::Handle, prog: P::Awaits, closer, senders: 2, child: false, pg_event: false, busy_sup: false, sup_drains: false, stale_unlink: false };
            units.push(Unit::explore_split(Job::new(format!("fine/c03/{}", sc.name()), fine.clone(), Some(if thorough { 3 } else { 2 }), body(sc, oracle)), 8));
        }
    }
    Plan {
        property: "C03",
        units,
        rule: "per scenario the arrival point of kill / stop / a supervision event (enqueued through a pg monitor) relative to the actor's callbacks is explored by a deviation-bounded DFS over task-level schedules of the real actor loop; the oracle compares logical times of Enter/Tick/Exit events with the return times of kill()/stop()/pg::join(); non-trivial = execution with >= 1 branching decision".into(),
        assumptions: vec![
            "task granularity: the pick in listen_in_priority and the first poll of the chosen callback are one step, which is what makes 'after kill() returned' decidable".into(),
        ],
        engine: "vsched (shuttle coroutines + deviation-bounded DFS) on the real ractor code",
    }
}
