//! Shared scenario runner for C01 (lifecycle order), C03 (priorities) and C04 (failure containment):
//! a probe actor `A` (Send or thread-local, spawned plainly / linked / instantly) supervised by `S`,
//! supervising a child `C`, with a bystander `B` and a stranger `X`; stimulus tasks send messages,
//! stop / kill / drain `A`, stop the child, and enqueue supervision events through a pg monitor.
#![allow(dead_code)]

use std::sync::Arc;

use ractor::concurrency::JoinHandle;
use ractor::thread_local::{ThreadLocalActor, ThreadLocalActorSpawner};
use ractor::{Actor, ActorRef, ActorStatus, SpawnErr};
use vsched::Outcome;

use crate::common::*;

#[derive(Clone, Copy, Debug, PartialEq, Eq)]
pub enum Kind {
    Send,
    Local,
}
#[derive(Clone, Copy, Debug, PartialEq, Eq)]
pub enum Variant {
    Plain,
    Linked,
    Instant,
    LinkedInstant,
}
#[derive(Clone, Copy, Debug, PartialEq, Eq)]
pub enum Site {
    PreStart,
    PostStart,
    Handle,
    Sup,
    PostStop,
}
#[derive(Clone, Copy, Debug, PartialEq, Eq)]
pub enum P {
    Straight,
    Awaits,
    SendsSelf,
    SleepsMs,
    Err,
    Panic,
    SelfKill,
    SelfStop,
    /// the callback panics in its synchronous prelude (default build; with async-trait there is no prelude and it
    /// is an ordinary panic at the first poll)
    PreludePanic,
}
#[derive(Clone, Debug, PartialEq, Eq)]
pub enum Closer {
    /// main stops A once everything else is quiet
    None,
    Stop(Option<&'static str>),
    Kill,
    Drain,
    /// drop A's task before its k-th poll
    Abort(usize),
    /// a stopper, a drainer and a killer race (three tasks)
    StopDrainKill,
    /// drain first, then (one task) stop: the stop request outranks the backlog that is being drained
    DrainThenStop,
    /// two tasks call kill() / stop() at the same time: as soon as EITHER call has returned the request holds
    TwoKillers,
    TwoStoppers,
    /// stop A once its child has been told to stop (and a schedule-chosen number of yields later): the stop
    /// lands while the child's exit, and A's handling of it, are under way
    StopAfterChild,
}

#[derive(Clone, Debug)]
pub struct Sc {
    pub kind: Kind,
    pub variant: Variant,
    pub site: Site,
    pub prog: P,
    pub closer: Closer,
    pub senders: usize,
    /// A supervises a child C that a stimulus stops
    pub child: bool,
    /// a stimulus enqueues a supervision event for A through a pg monitor
    pub pg_event: bool,
    /// S is busy (its supervision handler awaits) instead of idle
    pub busy_sup: bool,
    /// after the spawn A is handed to X and back to S, and then released from X once more (a stale unlink,
    /// documented as a no-op): S is still its supervisor
    pub stale_unlink: bool,
    /// the supervisor is draining a backlog (it is alive and still serves its supervision port) while A exits
    pub sup_drains: bool,
}

impl Sc {
    pub fn name(&self) -> String {
        format!(
            "{:?}/{:?}/{:?}={:?}/{:?}/s{}{}{}{}",
            self.kind,
            self.variant,
            self.site,
            self.prog,
            self.closer,
            self.senders,
            if self.child { "+child" } else { "" },
            if self.pg_event { "+pg" } else { "" },
            if self.stale_unlink { "+staleunlink" } else if self.sup_drains { "+drainsup" } else if self.busy_sup { "+busysup" } else { "" }
        )
        .replace(['(', ')', '"', ' '], "")
    }
    pub fn has_sup(&self) -> bool {
        matches!(self.variant, Variant::Linked | Variant::LinkedInstant)
    }
}

pub fn steps(p: P) -> Vec<Step> {
    match p {
        P::Straight => vec![Step::Tick],
        P::Awaits => vec![Step::Tick, Step::Yield, Step::Tick, Step::Yield, Step::Tick],
        P::SendsSelf => vec![Step::SendSelf(9), Step::Tick],
        P::SleepsMs => vec![Step::Tick, Step::SleepMs(5), Step::Tick],
        P::Err => vec![Step::Tick, Step::Yield, Step::Err("boom-err")],
        P::Panic => vec![Step::Tick, Step::Yield, Step::Panic("boom-panic")],
        P::PreludePanic => vec![Step::Panic("boom-panic-prelude")],
        P::SelfKill => vec![Step::KillSelf, Step::Tick, Step::Yield, Step::Tick],
        P::SelfStop => vec![Step::StopSelf, Step::Tick, Step::Yield, Step::Tick],
    }
}

/// Everything the oracles need about one execution
pub struct Run {
    pub sc: Sc,
    pub evs: Vec<Ev>,
    pub spawn_err: Option<String>,
    pub a_id: Option<String>,
    pub c_id: Option<String>,
    pub join_ok: Option<bool>,
    pub outer_join: Option<String>,
    /// (call, ret, tag, accepted)
    pub sends: Vec<(u64, u64, u32, bool)>,
    pub kill_ret: Option<u64>,
    pub stop_ret: Option<u64>,
    pub drain_ret: Option<u64>,
    /// ret stamp of the pg::join that enqueued a supervision event for A
    pub pg_ret: Option<u64>,
    pub child_stop_ret: Option<u64>,
    pub bystander_ok: bool,
    pub final_status: Option<ActorStatus>,
    pub cut_happened: bool,
    /// the spawn call unwound into the spawner's task
    pub spawn_panicked: bool,
}

impl Run {
    pub fn key(&self) -> String {
        let log = Log(Arc::new(std::sync::Mutex::new(self.evs.clone()))).render();
        format!(
            "spawn_err={:?} join={:?} sends={:?} log=[{}]",
            self.spawn_err.as_ref().map(|s| s.chars().take(40).collect::<String>()),
            self.join_ok,
            self.sends.iter().map(|s| (s.2, s.3)).collect::<Vec<_>>(),
            log
        )
    }
}

pub type Handles = (ActorRef<PMsg>, Option<JoinHandle<()>>, Option<JoinHandle<Result<JoinHandle<()>, SpawnErr>>>);

pub async fn spawn_probe(
    kind: Kind,
    variant: Variant,
    name: Option<String>,
    a: ProbeArgs,
    sup: Option<ractor::ActorCell>,
    spawner: &ThreadLocalActorSpawner,
) -> Result<Handles, SpawnErr> {
    match (kind, variant) {
        (Kind::Send, Variant::Plain) => Actor::spawn(name, Probe, a).await.map(|(r, h)| (r, Some(h), None)),
        (Kind::Send, Variant::Linked) => Actor::spawn_linked(name, Probe, a, sup.unwrap()).await.map(|(r, h)| (r, Some(h), None)),
        (Kind::Send, Variant::Instant) => {
            ractor::ActorRuntime::<Probe>::spawn_instant(name, Probe, a).map(|(r, h)| (r, None, Some(h)))
        }
        (Kind::Send, Variant::LinkedInstant) => {
            ractor::ActorRuntime::<Probe>::spawn_linked_instant(name, Probe, a, sup.unwrap()).map(|(r, h)| (r, None, Some(h)))
        }
        (Kind::Local, Variant::Plain) => <Probe as ThreadLocalActor>::spawn(name, a, spawner.clone())
            .await
            .map(|(r, h)| (r, Some(h), None)),
        (Kind::Local, Variant::Linked) => <Probe as ThreadLocalActor>::spawn_linked(name, a, sup.unwrap(), spawner.clone())
            .await
            .map(|(r, h)| (r, Some(h), None)),
        (Kind::Local, Variant::Instant) => {
            <Probe as ThreadLocalActor>::spawn_instant(name, a, spawner.clone()).map(|(r, h)| (r, None, Some(h)))
        }
        (Kind::Local, Variant::LinkedInstant) => {
            <Probe as ThreadLocalActor>::spawn_linked_instant(name, a, sup.unwrap(), spawner.clone()).map(|(r, h)| (r, None, Some(h)))
        }
    }
}

pub async fn run_scenario(sc: Sc) -> Run {
    let log = Log::default();
    let spawner = ThreadLocalActorSpawner::verif_new_local();
    let mut run = Run {
        sc: sc.clone(),
        evs: vec![],
        spawn_err: None,
        a_id: None,
        c_id: None,
        join_ok: None,
        outer_join: None,
        sends: vec![],
        kill_ret: None,
        stop_ret: None,
        drain_ret: None,
        pg_ret: None,
        child_stop_ret: None,
        bystander_ok: false,
        final_status: None,
        cut_happened: false,
        spawn_panicked: false,
    };
    // supervisor S, bystander B, stranger X
    let sup_prog = Prog {
        sup: if sc.busy_sup { vec![Step::Yield, Step::Tick] } else { vec![] },
        ..Default::default()
    };
    let (s_ref, s_h) = Actor::spawn(None, Probe, args("S", sup_prog, &log)).await.expect("S");
    let (b_ref, b_h) = Actor::spawn(None, Probe, args("B", Prog::default(), &log)).await.expect("B");
    let (x_ref, x_h) = Actor::spawn(None, Probe, args("X", Prog::default(), &log)).await.expect("X");

    let mut prog = Prog::default();
    let st = steps(sc.prog);
    match sc.site {
        Site::PreStart => prog.pre_start = st.clone(),
        Site::PostStart => prog.post_start = st.clone(),
        Site::Sup => prog.sup = st.clone(),
        Site::PostStop => prog.post_stop = st.clone(),
        Site::Handle => {}
    }
    let handle_steps = if sc.site == Site::Handle { st.clone() } else { vec![Step::Tick, Step::Yield, Step::Tick] };
    let sup_cell = if sc.has_sup() { Some(s_ref.get_cell()) } else { None };
    // (a panic of the code under test that unwinds into the spawner's own task is caught here and judged)
    let spawned = match futures::FutureExt::catch_unwind(std::panic::AssertUnwindSafe(spawn_probe(sc.kind, sc.variant, Some("A".into()), args("A", prog, &log), sup_cell, &spawner))).await {
        Ok(r) => r,
        Err(p) => {
            if vsched::is_engine_panic(&*p) {
                std::panic::resume_unwind(p);
            }
            run.spawn_panicked = true;
            Err(SpawnErr::StartupFailed("(the spawn call itself panicked)".into()))
        }
    };
    let (a_ref, a_h, a_outer) = match spawned {
        Ok(x) => x,
        Err(e) => {
            run.spawn_err = Some(format!("{e}"));
            vsched::quiesce();
            // everything else must still work
            run.bystander_ok = ractor::call_t!(b_ref, |reply| PMsg::Call { tag: 77, reply, steps: vec![] }, 1000).is_ok();
            for (r, h) in [(s_ref, s_h), (b_ref, b_h), (x_ref, x_h)] {
                r.stop(None);
                let _ = h.await;
            }
            run.evs = log.snapshot();
            return run;
        }
    };
    run.a_id = Some(a_ref.get_id().to_string());
    // monitors build: the bystander monitors A (no await since the spawn returned, so A cannot be gone yet)
    #[cfg(feature = "alt")]
    b_ref.get_cell().monitor(a_ref.get_cell());

    if sc.stale_unlink && sc.has_sup() {
        let (ac, xc, scell) = (a_ref.get_cell(), x_ref.get_cell(), s_ref.get_cell());
        ac.link(xc.clone());
        ac.link(scell);
        ac.unlink(xc);
    }
    if sc.sup_drains {
        // two slow messages, then the drain request: S stays alive (Draining) for 6 ms of virtual time
        let _ = s_ref.cast(do_msg(90, vec![Step::SleepMs(3)]));
        let _ = s_ref.cast(do_msg(91, vec![Step::SleepMs(3)]));
        let _ = s_ref.drain();
    }
    // stimuli
    let mut tasks = Vec::new();
    for s in 0..sc.senders {
        let a = a_ref.clone();
        let hs = handle_steps.clone();
        tasks.push(vsched::spawn("sender", async move {
            let tag = (s + 1) as u32;
            let call = vsched::call_stamp();
            let r = a.cast(do_msg(tag, hs));
            let ret = vsched::ret_stamp();
            ("send", call, ret, tag, r.is_ok())
        }));
    }
    if sc.pg_event {
        let a = a_ref.clone();
        let x = x_ref.clone();
        let b = b_ref.clone();
        tasks.push(vsched::spawn("pg", async move {
            ractor::pg::monitor("g".to_string(), a.get_cell());
            let call = vsched::call_stamp();
            ractor::pg::join("g".to_string(), vec![x.get_cell()]);
            let ret = vsched::ret_stamp();
            // a second event right behind the first: two supervision events can be pending at once
            ractor::pg::join("g".to_string(), vec![b.get_cell()]);
            ("pg", call, ret, 0, true)
        }));
    }
    let child_told = Arc::new(std::sync::atomic::AtomicBool::new(false));
    let child_told2 = child_told.clone();
    let mut child = None;
    if sc.child {
        // C is spawned by a stimulus task so that its start may land anywhere in A's life
        let a = a_ref.clone();
        let log2 = log.clone();
        child = Some(vsched::spawn("childspawn", async move {
            match Actor::spawn_linked(Some("C".into()), Probe, args("C", Prog::default(), &log2), a.get_cell()).await {
                Ok((c, h)) => {
                    let id = c.get_id().to_string();
                    let call = vsched::call_stamp();
                    c.stop(Some("child-done".into()));
                    let ret = vsched::ret_stamp();
                    child_told2.store(true, std::sync::atomic::Ordering::SeqCst);
                    let _ = h.await;
                    Some((id, call, ret))
                }
                Err(_) => None,
            }
        }));
    }
    let mut extra_closers = Vec::new();
    if sc.closer == Closer::StopDrainKill {
        let (a1, a2) = (a_ref.clone(), a_ref.clone());
        extra_closers.push(vsched::spawn("closer", async move {
            a1.stop(Some("raced".into()));
            ("stop", vsched::ret_stamp())
        }));
        extra_closers.push(vsched::spawn("closer", async move {
            let _ = a2.drain();
            ("drain", vsched::ret_stamp())
        }));
    }
    if matches!(sc.closer, Closer::TwoKillers | Closer::TwoStoppers) {
        let a1 = a_ref.clone();
        let kill = sc.closer == Closer::TwoKillers;
        extra_closers.push(vsched::spawn("closer", async move {
            if kill {
                a1.kill();
                ("kill", vsched::ret_stamp())
            } else {
                a1.stop(Some("second".into()));
                ("stop", vsched::ret_stamp())
            }
        }));
    }
    let a = a_ref.clone();
    let closer_kind = sc.closer.clone();
    let closer = vsched::spawn("closer", async move {
        match closer_kind {
            Closer::None | Closer::Abort(_) => ("none", 0),
            Closer::StopDrainKill => {
                a.kill();
                ("kill", vsched::ret_stamp())
            }
            Closer::DrainThenStop => {
                let _ = a.drain();
                vsched::yield_now().await;
                a.stop(Some("after-drain".into()));
                ("stop", vsched::ret_stamp())
            }
            Closer::Stop(reason) => {
                a.stop(reason.map(|s| s.to_string()));
                ("stop", vsched::ret_stamp())
            }
            Closer::Kill | Closer::TwoKillers => {
                a.kill();
                ("kill", vsched::ret_stamp())
            }
            Closer::TwoStoppers => {
                a.stop(Some("first".into()));
                ("stop", vsched::ret_stamp())
            }
            Closer::StopAfterChild => {
                let mut spins = 0;
                while !child_told.load(std::sync::atomic::Ordering::SeqCst) && spins < 200 {
                    vsched::yield_now().await;
                    spins += 1;
                }
                for _ in 0..vsched::choose_free("closer-delay", 5) {
                    vsched::yield_now().await;
                }
                a.stop(Some("after-child".into()));
                ("stop", vsched::ret_stamp())
            }
            Closer::Drain => {
                let _ = a.drain();
                ("drain", vsched::ret_stamp())
            }
        }
    });
    // instant spawns: resolve the outer handle first
    let inner_handle = match (a_h, a_outer) {
        (Some(h), _) => Some(h),
        (None, Some(outer)) => match outer.await {
            Ok(Ok(h)) => Some(h),
            Ok(Err(e)) => {
                run.spawn_err = Some(format!("{e}"));
                None
            }
            Err(e) => {
                run.outer_join = Some(format!("outer join error: {e:?}"));
                None
            }
        },
        (None, None) => None,
    };
    for t in tasks {
        if let Some((what, call, ret, tag, ok)) = t.await {
            match what {
                "send" => run.sends.push((call, ret, tag, ok)),
                "pg" => run.pg_ret = Some(ret),
                _ => {}
            }
        }
    }
    if let Some(c) = child {
        if let Some(Some((id, _call, ret))) = c.await {
            run.c_id = Some(id);
            run.child_stop_ret = Some(ret);
        }
    }
    for x in extra_closers {
        if let Some((what, ret)) = x.await {
            match what {
                "stop" => run.stop_ret = Some(ret),
                "kill" => run.kill_ret = Some(ret),
                "drain" => run.drain_ret = Some(ret),
                _ => {}
            }
        }
    }
    if let Some((what, ret)) = closer.await {
        // (with two requesters of the same kind the earlier return counts)
        match what {
            "stop" => run.stop_ret = Some(run.stop_ret.map_or(ret, |r| r.min(ret))),
            "kill" => run.kill_ret = Some(run.kill_ret.map_or(ret, |r| r.min(ret))),
            "drain" => run.drain_ret = Some(ret),
            _ => {}
        }
    }
    if matches!(sc.closer, Closer::None | Closer::Abort(_)) {
        // let A finish whatever it accepted (time included), then stop it
        vsched::quiesce_time();
        a_ref.stop(Some("end-of-scenario".into()));
    }
    if let Some(h) = inner_handle {
        run.join_ok = Some(h.await.is_ok());
    }
    vsched::quiesce_time();
    run.final_status = Some(a_ref.get_status());
    run.bystander_ok = ractor::call_t!(b_ref, |reply| PMsg::Call { tag: 77, reply, steps: vec![] }, 1000).is_ok();
    ractor::pg::demonitor("g".to_string(), a_ref.get_id());
    ractor::pg::leave("g".to_string(), vec![x_ref.get_cell(), b_ref.get_cell()]);
    for (r, h) in [(s_ref, s_h), (b_ref, b_h), (x_ref, x_h)] {
        r.stop(None);
        let _ = h.await;
    }
    run.evs = log.snapshot();
    run.cut_happened = false;
    run
}

pub fn body(sc: Sc, oracle: fn(&Run) -> Vec<String>) -> vsched::Body {
    Arc::new(move || {
        let sc = sc.clone();
        Box::pin(async move {
            let run = run_scenario(sc).await;
            Outcome {
                key: run.key(),
                violations: oracle(&run),
            }
        })
    })
}
