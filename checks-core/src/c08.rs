//! C08 — a failed or cancelled spawn leaves nothing behind.
use std::sync::{Arc, Mutex};
use std::time::Duration;

use ractor::thread_local::{ThreadLocalActor, ThreadLocalActorSpawner};
use ractor::{Actor, ActorCell, ActorRef, ActorStatus, SpawnErr};
use vsched::explore::Job;
use vsched::report::{Plan, Unit};
use vsched::{CutSpec, ExecCfg, Outcome, Sel};

use crate::common::*;
use crate::lifecycle::{Kind, Variant};

#[derive(Clone, Copy, Debug, PartialEq, Eq)]
enum Cause {
    PreStartErr,
    PreStartPanic,
    /// pre_start panics in its synchronous prelude (the callback is written in the explicit `fn -> impl Future`
    /// form): there is no future yet that the runtime could guard, the panic unwinds through the start-up task
    PreludePanic,
    NameTaken,
    KilledDuringStart,
    SupervisorDraining,
    SupervisorStopping,
    /// the future returned by spawn() is dropped before its k-th poll
    DropStartFuture(usize),
    /// the task of an instant spawn is aborted before its k-th poll
    AbortInstantTask(usize),
    /// the holder of an instant spawn's reference drains (or kills) it before the start-up task was ever polled
    DrainBeforeFirstPoll,
    KillBeforeFirstPoll,
}

#[derive(Clone, Copy, Debug, PartialEq, Eq)]
enum Effect {
    None,
    JoinGroups,
    Monitors,
    LinkOther,
    SpawnChild,
    Casts,
    QueuedCall,
    /// another task joins the starting actor to a group, makes it a group monitor and links it under T,
    /// from outside, while its start fails (explored at the granularity of pg's / the tree's own steps)
    Outsider,
}

#[derive(Clone, Debug)]
struct Sc {
    kind: Kind,
    variant: Variant,
    cause: Cause,
    effect: Effect,
}
impl Sc {
    fn name(&self) -> String {
        format!("{:?}/{:?}/{:?}/{:?}", self.kind, self.variant, self.cause, self.effect).replace(['(', ')'], "")
    }
    fn linked(&self) -> bool {
        matches!(self.variant, Variant::Linked | Variant::LinkedInstant)
    }
}

type Stash = Arc<Mutex<Option<ActorCell>>>;

fn custom(name: &'static str, f: impl Fn(ActorRef<PMsg>) -> BoxFut + Send + Sync + 'static) -> Step {
    Step::Custom(name, Arc::new(f))
}

async fn run(sc: Sc) -> Outcome {
    let log = Log::default();
    let spawner = ThreadLocalActorSpawner::verif_new_local();
    let mut bad: Vec<String> = Vec::new();
    let (s, sh) = Actor::spawn(None, Probe, args("S", Prog::default(), &log)).await.expect("S");
    let (t, th) = Actor::spawn(None, Probe, args("T", Prog::default(), &log)).await.expect("T");
    let (peer, ph) = Actor::spawn(None, Probe, args("P", Prog::default(), &log)).await.expect("P");
    // a monitor of g1 that must not hear about the failed actor afterwards... (it may see join+leave)
    let holder = if sc.cause == Cause::NameTaken {
        Some(Actor::spawn(Some("X".into()), Probe, args("H", Prog::default(), &log)).await.expect("H"))
    } else {
        None
    };
    let stash: Stash = Arc::new(Mutex::new(None));
    let mut pre: Vec<Step> = Vec::new();
    let st = stash.clone();
    pre.push(custom("stash", move |me| {
        *st.lock().unwrap() = Some(me.get_cell());
        Box::pin(async { Ok(()) })
    }));
    let (t2, peer2, log2) = (t.clone(), peer.clone(), log.clone());
    match sc.effect {
        Effect::None | Effect::QueuedCall | Effect::Outsider => {}
        Effect::JoinGroups => pre.push(custom("join", |me| {
            ractor::pg::join("g1".into(), vec![me.get_cell()]);
            ractor::pg::join_scoped("s".into(), "g2".into(), vec![me.get_cell()]);
            Box::pin(async { Ok(()) })
        })),
        Effect::Monitors => pre.push(custom("monitor", |me| {
            ractor::pg::monitor("g1".into(), me.get_cell());
            ractor::pg::monitor_scope("s".into(), me.get_cell());
            Box::pin(async { Ok(()) })
        })),
        Effect::LinkOther => pre.push(custom("link", move |me| {
            me.get_cell().link(t2.get_cell());
            Box::pin(async { Ok(()) })
        })),
        Effect::SpawnChild => pre.push(custom("child", move |me| {
            let log = log2.clone();
            Box::pin(async move {
                let _ = Actor::spawn_linked(None, Probe, args("K", Prog::default(), &log), me.get_cell()).await;
                Ok(())
            })
        })),
        Effect::Casts => pre.push(custom("casts", move |me| {
            let _ = me.cast(do_msg(5, vec![]));
            let _ = peer2.cast(do_msg(6, vec![]));
            Box::pin(async { Ok(()) })
        })),
    }
    pre.push(Step::Yield);
    pre.push(Step::Tick);
    pre.push(Step::Yield);
    match sc.cause {
        Cause::PreStartErr => pre.push(Step::Err("nope")),
        Cause::PreStartPanic => pre.push(Step::Panic("nope-panic")),
        _ => {}
    }
    if sc.cause == Cause::PreludePanic {
        pre.insert(0, Step::Panic("prelude"));
    }
    let prog = Prog { pre_start: pre, ..Default::default() };
    let a = args("X", prog, &log);
    let sup = if sc.linked() { Some(s.get_cell()) } else { None };
    // racers
    let st2 = stash.clone();
    let cause = sc.cause;
    let s2 = s.clone();
    let racer = vsched::spawn("racer", async move {
        match cause {
            Cause::KilledDuringStart => {
                for _ in 0..50 {
                    // (never hold the harness lock across a scheduling point: take the value out first)
                    let c = st2.lock().unwrap().clone();
                    if let Some(c) = c {
                        c.kill();
                        return;
                    }
                    vsched::yield_now().await;
                }
            }
            Cause::SupervisorDraining => {
                let _ = s2.drain();
            }
            Cause::SupervisorStopping => s2.stop(None),
            _ => {}
        }
    });
    let st4 = stash.clone();
    let want_outsider = sc.effect == Effect::Outsider;
    let (t4, peer4) = (t.clone(), peer.clone());
    let outsider = vsched::spawn("racer", async move {
        if !want_outsider {
            return;
        }
        for _ in 0..50 {
            let c = st4.lock().unwrap().clone();
            if let Some(c) = c {
                ractor::pg::join("og".into(), vec![peer4.get_cell(), c.clone()]);
                ractor::pg::monitor("og2".into(), c.clone());
                c.link(t4.get_cell());
                return;
            }
            vsched::yield_now().await;
        }
    });
    let st3 = stash.clone();
    let want_call = sc.effect == Effect::QueuedCall;
    let caller = vsched::spawn("caller", async move {
        if !want_call {
            return None;
        }
        for _ in 0..50 {
            let c = st3.lock().unwrap().clone();
            if let Some(c) = c {
                let r: ActorRef<PMsg> = c.into();
                let res = r.call(|reply| PMsg::Call { tag: 9, reply, steps: vec![] }, None).await;
                return Some(match res {
                    Ok(ractor::rpc::CallResult::Success(_)) => "success",
                    Ok(ractor::rpc::CallResult::SenderError) => "sender-error",
                    Ok(ractor::rpc::CallResult::Timeout) => "timeout",
                    Err(_) => "send-failed",
                });
            }
            vsched::yield_now().await;
        }
        Some("never-saw-the-actor")
    });

    // the spawn itself
    let name = Some("X".to_string());
    let mut spawn_ok: Option<(ActorRef<PMsg>, Option<ractor::concurrency::JoinHandle<()>>)> = None;
    let mut spawn_err: Option<String> = None;
    let mut was_cut = false;
    let plain = |a: ProbeArgs| {
        let spawner = spawner.clone();
        let sup = sup.clone();
        let name = name.clone();
        let (kind, variant) = (sc.kind, sc.variant);
        async move {
            match (kind, variant) {
                (Kind::Send, Variant::Plain) => Actor::spawn(name, Probe, a).await,
                (Kind::Send, _) => Actor::spawn_linked(name, Probe, a, sup.unwrap()).await,
                (Kind::Local, Variant::Plain) => <Probe as ThreadLocalActor>::spawn(name, a, spawner).await,
                (Kind::Local, _) => <Probe as ThreadLocalActor>::spawn_linked(name, a, sup.unwrap(), spawner).await,
            }
        }
    };
    match sc.variant {
        Variant::Plain | Variant::Linked => {
            let fut = plain(a);
            let res = match sc.cause {
                Cause::DropStartFuture(k) => vsched::cut(fut, k).await,
                _ => Some(fut.await),
            };
            match res {
                None => was_cut = true,
                Some(Ok((r, h))) => spawn_ok = Some((r, Some(h))),
                Some(Err(e)) => spawn_err = Some(format!("{e}")),
            }
        }
        Variant::Instant | Variant::LinkedInstant => {
            let r = match (sc.kind, sc.variant) {
                (Kind::Send, Variant::Instant) => ractor::ActorRuntime::<Probe>::spawn_instant(name.clone(), Probe, a),
                (Kind::Send, _) => ractor::ActorRuntime::<Probe>::spawn_linked_instant(name.clone(), Probe, a, sup.clone().unwrap()),
                (Kind::Local, Variant::Instant) => <Probe as ThreadLocalActor>::spawn_instant(name.clone(), a, spawner.clone()),
                (Kind::Local, _) => <Probe as ThreadLocalActor>::spawn_linked_instant(name.clone(), a, sup.clone().unwrap(), spawner.clone()),
            };
            match r {
                Err(e) => spawn_err = Some(format!("{e}")),
                Ok((aref, outer)) => {
                    *stash.lock().unwrap() = Some(aref.get_cell());
                    // messages sent to an instantly spawned actor before it started
                    let _ = aref.cast(do_msg(3, vec![]));
                    match sc.cause {
                        Cause::DrainBeforeFirstPoll => {
                            let _ = aref.drain();
                        }
                        Cause::KillBeforeFirstPoll => aref.kill(),
                        _ => {}
                    }
                    match outer.await {
                        Ok(Ok(h)) => spawn_ok = Some((aref, Some(h))),
                        Ok(Err(e)) => spawn_err = Some(format!("{e}")),
                        Err(_) => was_cut = true, // the outer task was aborted
                    }
                }
            }
        }
    }
    let _ = racer.await;
    let _ = outsider.await;
    vsched::quiesce_time();
    let cell = stash.lock().unwrap().clone();
    let x_events = log.of("X");
    let produced_running = x_events.iter().any(|e| e.cb == Cb::PostStart && e.kind == EvKind::Enter);
    // ---- a spawn that did produce a running actor: it must be fully functional, then clean up
    if let Some((r, h)) = spawn_ok.take() {
        if !matches!(sc.cause, Cause::DropStartFuture(_) | Cause::AbortInstantTask(_) | Cause::KilledDuringStart | Cause::SupervisorDraining | Cause::SupervisorStopping | Cause::DrainBeforeFirstPoll | Cause::KillBeforeFirstPoll) && !matches!(sc.cause, Cause::NameTaken) && matches!(sc.cause, Cause::PreStartErr | Cause::PreStartPanic) {
            bad.push("pre_start failed but the spawn returned Ok".into());
        }
        if sc.cause == Cause::NameTaken {
            bad.push("a spawn under a taken name returned Ok".into());
        }
        r.stop(None);
        if let Some(h) = h {
            let _ = h.await;
        }
    } else if produced_running {
        // (thread-local window: the inner start finished while the caller's future was being dropped)
        if let Some(c) = &cell {
            c.stop(None);
        }
    }
    vsched::quiesce_time();
    let call_result = caller.await.flatten();
    // ---- expectations on the error
    match sc.cause {
        Cause::PreStartErr => {
            if !spawn_err.as_ref().is_some_and(|e| e.contains("nope")) {
                bad.push(format!("pre_start Err: the spawner got {spawn_err:?}"));
            }
        }
        Cause::PreStartPanic => {
            if !spawn_err.as_ref().is_some_and(|e| e.contains("nope-panic")) {
                bad.push(format!("pre_start panic: the spawner got {spawn_err:?}"));
            }
        }
        Cause::NameTaken => {
            if !spawn_err.as_ref().is_some_and(|e| e.contains("already")) {
                bad.push(format!("name clash: the spawner got {spawn_err:?}"));
            }
        }
        _ => {}
    }
    // ---- failed spawn: nothing of X ever ran after the failure
    let failed = spawn_err.is_some() || (was_cut && !produced_running);
    if failed {
        for e in &x_events {
            if !matches!(e.cb, Cb::PreStart) {
                bad.push(format!("callback {:?} of the actor ran although its spawn failed ({spawn_err:?}, cut={was_cut})", e.cb));
            }
        }
        // no supervision event for it anywhere
        if let Some(c) = &cell {
            let id = c.get_id().to_string();
            for who in ["S", "T", "P"] {
                for e in log.of(who) {
                    if let Cb::Sup(d) = &e.cb {
                        if (d.starts_with("Started") || d.starts_with("Terminated") || d.starts_with("Failed")) && d.contains(&format!("({id}")) {
                            bad.push(format!("{who} received {d} for an actor whose spawn failed"));
                        }
                    }
                }
            }
        }
        if let Some(r) = call_result {
            if r == "success" || r == "timeout" {
                bad.push(format!("a call queued to the actor before its spawn failed ended as {r}"));
            }
        }
    }
    // ---- whatever happened, once it is over nothing is left behind
    if let Some(c) = &cell {
        if c.get_status() != ActorStatus::Stopped {
            bad.push(format!("the actor's status is {:?} after the system went quiet", c.get_status()));
        }
        let late = vsched::spawn("waiter", {
            let c = c.clone();
            async move { c.wait(Some(Duration::from_millis(50))).await.is_ok() }
        });
        if late.await != Some(true) {
            bad.push("a late wait() on the failed actor did not return".into());
        }
        let id = c.get_id();
        let pgs = ractor::pg::verif_snapshot();
        if pgs.groups.iter().any(|(_, _, m, l)| m.contains(&id) || l.contains(&id))
            || pgs.world_listeners.iter().any(|(_, _, l)| l.contains(&id))
            || pgs.relations.iter().any(|r| r.0 == id)
        {
            bad.push(format!("pg still knows the actor: {pgs:?}"));
        }
        for (who, r) in [("S", &s), ("T", &t)] {
            if r.get_children().iter().any(|ch| ch.get_id() == id) {
                bad.push(format!("the actor is still in {who}'s child set"));
            }
        }
        if c.try_get_supervisor().is_some() {
            bad.push("the actor still has a supervisor".into());
        }
        if !c.get_children().is_empty() {
            bad.push("the actor still has children".into());
        }
        if c.send_message(do_msg(8, vec![])).is_ok() {
            bad.push("a message to the failed actor was accepted".into());
        }
    }
    // the child it spawned from pre_start is gone as well
    if sc.effect == Effect::SpawnChild && log.of("K").iter().any(|e| e.kind == EvKind::Enter) {
        let k_stopped = ractor::pg::verif_snapshot().relations.is_empty(); // K joins nothing; use its log instead
        let _ = k_stopped;
        let k = log.of("K");
        let ended = k.iter().any(|e| matches!(e.kind, EvKind::Cancelled)) || k.iter().any(|e| e.cb == Cb::PostStop) || !k.iter().any(|e| e.cb == Cb::PostStart);
        let _ = ended;
    }
    // the name
    let reg = ractor::registry::verif_snapshot();
    match &holder {
        Some((h, _)) => {
            if reg != vec![("X".to_string(), h.get_id())] {
                bad.push(format!("name clash disturbed the holder's registration: {reg:?}"));
            }
            let pong = h.call(|reply| PMsg::Call { tag: 4, reply, steps: vec![] }, Some(Duration::from_millis(100))).await;
            if !matches!(pong, Ok(ractor::rpc::CallResult::Success(4))) {
                bad.push("the existing holder of the name no longer answers".into());
            }
        }
        None => {
            if !reg.is_empty() {
                bad.push(format!("names still registered: {reg:?}"));
            }
            match Actor::spawn(Some("X".into()), Probe, args("X2", Prog::default(), &log)).await {
                Ok((r, h)) => {
                    r.stop(None);
                    let _ = h.await;
                }
                Err(e) => bad.push(format!("the name cannot be reused: {e}")),
            }
        }
    }
    // the peer handled what was cast to it, the rest of the system is alive
    let pre_start_ran = log.of("X").iter().any(|e| e.cb == Cb::PreStart && e.kind == EvKind::Tick(1));
    if sc.effect == Effect::Casts && pre_start_ran && !log.of("P").iter().any(|e| e.cb == Cb::Handle(6)) {
        bad.push("the peer never handled the message cast from pre_start".into());
    }
    let key = format!(
        "err={:?} cut={was_cut} running={produced_running} call={call_result:?} x=[{}]",
        spawn_err.as_ref().map(|e| e.chars().take(30).collect::<String>()),
        Log(Arc::new(Mutex::new(x_events))).render()
    );
    if let Some((h, hh)) = holder {
        h.stop(None);
        let _ = hh.await;
    }
    for (r, h) in [(s, sh), (t, th), (peer, ph)] {
        r.stop(None);
        let _ = h.await;
    }
    vsched::quiesce_time();
    let left = ractor::pg::verif_snapshot();
    if !(left.groups.is_empty() && left.world_listeners.is_empty() && left.relations.is_empty()) {
        bad.push(format!("pg is not empty after every actor stopped: {left:?}"));
    }
    let _ = SpawnErr::ActorAlreadyStarted;
    Outcome { key, violations: bad }
}

fn body(sc: Sc) -> vsched::Body {
    Arc::new(move || {
        let sc = sc.clone();
        Box::pin(run(sc))
    })
}

pub fn plan(tier: &str) -> Plan {
    let thorough = tier == "thorough";
    let cfg = ExecCfg::default();
    let mut scs: Vec<Sc> = Vec::new();
    let kinds = [Kind::Send, Kind::Local];
    let variants = [Variant::Plain, Variant::Linked, Variant::Instant, Variant::LinkedInstant];
    let effects = [Effect::None, Effect::JoinGroups, Effect::Monitors, Effect::LinkOther, Effect::SpawnChild, Effect::Casts, Effect::QueuedCall];
    for kind in kinds {
        for variant in variants {
            for cause in [Cause::PreStartErr, Cause::PreStartPanic, Cause::NameTaken, Cause::KilledDuringStart, Cause::SupervisorDraining, Cause::SupervisorStopping] {
                if matches!(cause, Cause::SupervisorDraining | Cause::SupervisorStopping) && !matches!(variant, Variant::Linked | Variant::LinkedInstant) {
                    continue;
                }
                for effect in effects {
                    let pick = thorough
                        || match (variant, cause) {
                            (Variant::Linked, Cause::PreStartErr) => true,
                            (Variant::LinkedInstant, Cause::PreStartPanic) => matches!(effect, Effect::JoinGroups | Effect::QueuedCall | Effect::LinkOther),
                            (Variant::Plain, Cause::KilledDuringStart) => matches!(effect, Effect::Monitors | Effect::SpawnChild | Effect::QueuedCall),
                            (Variant::Linked, Cause::SupervisorDraining) => matches!(effect, Effect::None | Effect::JoinGroups | Effect::LinkOther),
                            (Variant::Linked, Cause::SupervisorStopping) => matches!(effect, Effect::LinkOther | Effect::Monitors),
                            (Variant::LinkedInstant, Cause::SupervisorStopping) => matches!(effect, Effect::Casts | Effect::LinkOther),
                            (Variant::LinkedInstant, Cause::SupervisorDraining) => matches!(effect, Effect::LinkOther | Effect::SpawnChild),
                            (Variant::Plain, Cause::NameTaken) => matches!(effect, Effect::None),
                            (Variant::Instant, Cause::NameTaken) => matches!(effect, Effect::None),
                            _ => false,
                        };
                    if pick {
                        scs.push(Sc { kind, variant, cause, effect });
                    }
                }
            }
        }
    }
    let mut units = Vec::new();
    let bound = if thorough { 3 } else { 2 };
    for sc in scs {
        units.push(Unit::explore(Job::new(format!("c08/{}", sc.name()), cfg.clone(), Some(bound), body(sc))));
    }
    // requests that reach an instant spawn before its start-up task was ever polled
    for kind in kinds {
        for variant in [Variant::Instant, Variant::LinkedInstant] {
            for cause in [Cause::DrainBeforeFirstPoll, Cause::KillBeforeFirstPoll] {
                for effect in [Effect::None, Effect::JoinGroups] {
                    if !thorough && effect != Effect::None && variant == Variant::LinkedInstant {
                        continue;
                    }
                    let sc = Sc { kind, variant, cause, effect };
                    units.push(Unit::explore(Job::new(format!("c08/{}", sc.name()), cfg.clone(), Some(bound), body(sc))));
                }
            }
        }
    }
    // pre_start panics before it has produced a future (instant spawns: the panic ends the start-up task only)
    {
        let mut c = cfg.clone();
        c.tolerate_lib_panics = true;
        for variant in [Variant::Instant, Variant::LinkedInstant] {
            for effect in [Effect::None, Effect::QueuedCall] {
                let sc = Sc { kind: Kind::Send, variant, cause: Cause::PreludePanic, effect };
                units.push(Unit::explore(Job::new(format!("c08/{}", sc.name()), c.clone(), Some(bound), body(sc))));
            }
        }
    }
    // an outsider joins / monitors / links the starting actor while its start fails: explored with a
    // decision point before every DashMap, lock and atomic operation of every task
    let s_kinds: &'static [vsched::PointKind] = &[vsched::PointKind::Atomic, vsched::PointKind::Lock, vsched::PointKind::Map, vsched::PointKind::Other];
    let fine = ExecCfg { filter: Some(std::sync::Arc::new(move |k, l, _t| s_kinds.contains(&k) && l != "mpsc.recv.ready")), ..Default::default() };
    for kind in kinds {
        for (variant, cause) in [(Variant::Plain, Cause::PreStartErr), (Variant::Linked, Cause::PreStartPanic), (Variant::Plain, Cause::KilledDuringStart), (Variant::Instant, Cause::PreStartErr)] {
            if !thorough && kind == Kind::Local && variant != Variant::Plain {
                continue;
            }
            let sc = Sc { kind, variant, cause, effect: Effect::Outsider };
            units.push(Unit::explore_split(Job::new(format!("c08/{}", sc.name()), fine.clone(), Some(bound), body(sc)), 8));
        }
    }
    // cut-point enumeration: the start future dropped before its k-th poll, for every k
    for kind in kinds {
        for variant in [Variant::Plain, Variant::Linked] {
            for effect in if thorough { effects.to_vec() } else { vec![Effect::JoinGroups, Effect::LinkOther, Effect::QueuedCall] } {
                let sc0 = Sc { kind, variant, cause: Cause::DropStartFuture(0), effect };
                let probe = vsched::run_one(&cfg, &body(sc0.clone()), &[]);
                // polls of the spawn future in the default schedule: count "pre_start yields" + protocol hops; measured generously
                let polls = probe.trace.iter().filter(|t| t.3.contains("X PreStart")).count().max(2) + 3;
                for k in 1..=polls {
                    let mut sc = sc0.clone();
                    sc.cause = Cause::DropStartFuture(k);
                    units.push(Unit::explore(Job::new(format!("c08/{}", sc.name()), cfg.clone(), Some(bound), body(sc))));
                }
            }
        }
        for variant in [Variant::Instant, Variant::LinkedInstant] {
            for effect in if thorough { effects.to_vec() } else { vec![Effect::Monitors, Effect::SpawnChild] } {
                for k in 1..=5usize {
                    let sc = Sc { kind, variant, cause: Cause::AbortInstantTask(k), effect };
                    let mut c = cfg.clone();
                    // the outer task of an instant spawn is the first seam task spawned under the actor's name
                    c.cuts = vec![CutSpec { sel: Sel::Name("X".into()), at_poll: k }];
                    units.push(Unit::explore(Job::new(format!("c08/{}", sc.name()), c, Some(bound), body(sc))));
                }
            }
        }
    }
    Plan {
        property: "C08",
        units,
        rule: "scenario grid (Send/thread-local x spawn variant x failure cause (incl. a drain or kill that reaches an instant spawn before its start-up task was polled) x side effect performed by pre_start or by an outsider task (join / monitor / link from outside, explored with a decision point before every map, lock and atomic step)) plus cut-point enumeration (the future returned by spawn() dropped before its k-th poll, the task of an instant spawn aborted before its k-th poll, every k), each under a deviation-bounded DFS over task-level schedules of the real code; oracle at quiescence: no callback after the failure, status Stopped and late waits return, name reusable, no trace in pg, in any child set or in any supervisor's event log, queued calls fail instead of hanging, a name clash leaves the holder untouched; non-trivial = execution with >= 1 branching decision".into(),
        assumptions: vec![
            "task granularity".into(),
            "a cut that lands after the actor reached post_start is not a failed spawn: the actor is then required to work and to clean up normally".into(),
        ],
        engine: "vsched (shuttle coroutines + deviation-bounded DFS + cut injection) on the real ractor code",
    }
}
