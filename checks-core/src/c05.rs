//! C05 — an exiting actor takes its whole subtree with it; links stay consistent.
use std::sync::{Arc, Mutex};

use ractor::verif::inspect::{self, TreeSnapshot};
use ractor::{Actor, ActorCell, ActorProcessingErr, ActorRef, ActorStatus, Signal};
use vsched::explore::Job;
use vsched::report::{Plan, Unit};
use vsched::{ExecCfg, Outcome, PointKind};

use crate::common::*;

struct Dummy;
#[cfg_attr(feature = "alt", ractor::async_trait)]
impl Actor for Dummy {
    type Msg = u32;
    type State = ();
    type Arguments = ();
    async fn pre_start(&self, _m: ActorRef<u32>, _: ()) -> Result<(), ActorProcessingErr> {
        Ok(())
    }
}

/// structural invariants over a set of cells (valid at every quiescent point)
fn tree_invariants(cells: &[(String, ActorCell)]) -> Vec<String> {
    let mut bad = Vec::new();
    let snaps: Vec<(&String, &ActorCell, TreeSnapshot)> = cells.iter().map(|(n, c)| (n, c, inspect::tree_snapshot(c))).collect();
    if snaps.iter().any(|s| s.2.locked) {
        return bad; // somebody is inside a structural update: not a quiescent point
    }
    let name_of = |id: ractor::ActorId| cells.iter().find(|(_, c)| c.get_id() == id).map(|(n, _)| n.clone()).unwrap_or(format!("{id}"));
    for (n, c, s) in &snaps {
        // child -> supervisor edge implies supervisor -> child edge
        if let Some(sup) = s.supervisor {
            match snaps.iter().find(|x| x.1.get_id() == sup) {
                Some(ps) => {
                    if !ps.2.children.as_ref().is_some_and(|ch| ch.contains(&c.get_id())) {
                        bad.push(format!("{n} names {} as its supervisor but is not in that actor's child set", name_of(sup)));
                    }
                }
                None => {}
            }
        }
        for ch in s.children.iter().flatten() {
            if let Some(cs) = snaps.iter().find(|x| x.1.get_id() == *ch) {
                if cs.2.supervisor != Some(c.get_id()) {
                    bad.push(format!("{n} lists {} as a child but that actor's supervisor is {:?}", cs.0, cs.2.supervisor.map(name_of)));
                }
            }
        }
        let st = c.get_status();
        if st == ActorStatus::Stopped {
            if s.supervisor.is_some() {
                bad.push(format!("{n} is Stopped but still has a supervisor"));
            }
            if s.children.as_ref().is_some_and(|c| !c.is_empty()) {
                bad.push(format!("{n} is Stopped but still has children"));
            }
        }
        if st >= ActorStatus::Stopping && s.children.as_ref().is_some_and(|c| !c.is_empty()) && st == ActorStatus::Stopped {
            bad.push(format!("{n} is {st:?} with an open, non-empty child set"));
        }
    }
    // every child appears in at most one child set
    for (n, c, _) in &snaps {
        let owners: Vec<&String> = snaps.iter().filter(|x| x.2.children.as_ref().is_some_and(|ch| ch.contains(&c.get_id()))).map(|x| x.0).collect();
        if owners.len() > 1 {
            bad.push(format!("{n} appears in the child sets of {owners:?}"));
        }
    }
    bad
}

// ---------------------------------------------------------------------------------------------
// core (sync-operation granularity): link / unlink / relink vs the exit path, detached cells
// ---------------------------------------------------------------------------------------------

#[derive(Clone, Copy, Debug, PartialEq, Eq)]
enum Third {
    None,
    Relink,
    Unlink,
    SecondLink,
    ExitChild,
}

fn core_body(prelinked: bool, third: Third) -> vsched::Body {
    core_body_x(prelinked, third, true)
}

/// `p_exits == false`: the supervisor P stays alive, only the child exits (racing with the link)
fn core_body_x(prelinked: bool, third: Third, p_exits: bool) -> vsched::Body {
    Arc::new(move || {
        Box::pin(async move {
            let mk = || {
                let (c, p) = inspect::detached::<Dummy>(None).expect("cell");
                inspect::set_status(&c, ActorStatus::Running);
                (c, p)
            };
            let (p, pp) = mk();
            let (c, mut cp) = mk();
            let (q, qp) = mk();
            let (d, mut dp) = mk();
            if prelinked {
                assert!(inspect::try_link(&c, &p));
            }
            let cells = vec![("P".to_string(), p.clone()), ("C".to_string(), c.clone()), ("Q".to_string(), q.clone()), ("D".to_string(), d.clone())];
            let (c1, p1) = (c.clone(), p.clone());
            let linker = vsched::spawn("tree", async move {
                let call = vsched::call_stamp();
                let ok = inspect::try_link(&c1, &p1);
                (call, vsched::ret_stamp(), ok)
            });
            let p2 = p.clone();
            let exiter = vsched::spawn("tree", async move {
                let call = vsched::call_stamp();
                if p_exits {
                    inspect::run_exit_path(&p2, None);
                }
                (call, vsched::ret_stamp())
            });
            let (c3, p3, q3, d3) = (c.clone(), p.clone(), q.clone(), d.clone());
            let other = vsched::spawn("tree", async move {
                let call = vsched::call_stamp();
                let ok = match third {
                    Third::None => false,
                    Third::Relink => inspect::try_link(&c3, &q3),
                    Third::Unlink => {
                        c3.unlink(p3);
                        true
                    }
                    Third::SecondLink => inspect::try_link(&d3, &p3),
                    Third::ExitChild => {
                        inspect::run_exit_path(&c3, None);
                        true
                    }
                };
                (call, vsched::ret_stamp(), ok)
            });
            vsched::quiesce();
            let (lcall, _lret, linked) = linker.await.expect("linker");
            let (_xcall, xret) = exiter.await.expect("exiter");
            let (_ocall, _oret, other_ok) = other.await.expect("other");
            let mut bad = tree_invariants(&cells);
            let ps = inspect::tree_snapshot(&p);
            let cs = inspect::tree_snapshot(&c);
            if !p_exits {
                // only the child exited: the living P must not list it, and it must not name P
                if c.get_status() == ActorStatus::Stopped && ps.children.as_ref().is_some_and(|ch| ch.contains(&c.get_id())) {
                    bad.push(format!("the living actor P lists the stopped actor C as a child (link() returned {linked})"));
                }
                let key = format!("p-alive linked={linked} other={other_ok} csup={:?}", cs.supervisor.map(|s| s.to_string()));
                for (_, x) in &cells {
                    inspect::set_status(x, ActorStatus::Stopped);
                }
                let _ = (lcall, xret, &mut cp, &mut dp);
                drop((pp, cp, qp, dp));
                return Outcome { key, violations: bad };
            }
            if ps.children.as_ref().is_some_and(|c| !c.is_empty()) {
                bad.push(format!("the stopped actor P has children {:?}", ps.children));
            }
            if p.get_status() != ActorStatus::Stopped {
                bad.push("P did not reach Stopped".into());
            }
            if linked && lcall > xret {
                bad.push("link() into an actor whose exit had completed returned true".into());
            }
            let c_killed = matches!(cp.try_recv_signal(), Some(Signal::Kill));
            let d_killed = matches!(dp.try_recv_signal(), Some(Signal::Kill));
            // C was under P at some point (pre-linked or linked successfully) and nothing moved it
            // away: it must have been signalled
            let c_exited = third == Third::ExitChild;
            let moved = (third == Third::Relink && other_ok) || third == Third::Unlink;
            if (prelinked || linked) && !moved && !c_exited && !c_killed {
                bad.push(format!("C was linked under P (prelinked={prelinked}, link()={linked}) but was not killed when P exited; C's links: {cs:?}"));
            }
            if cs.supervisor == Some(q.get_id()) && c_killed && !(prelinked || linked) {
                bad.push("C was killed although it was never under P".into());
            }
            if third == Third::SecondLink && other_ok && !d_killed {
                bad.push("D's link under P succeeded but D was not killed when P exited".into());
            }
            if !c_killed && !c_exited {
                // a surviving C is either free or consistently under Q
                if let Some(s) = cs.supervisor {
                    if s != q.get_id() {
                        bad.push(format!("C survived but its supervisor is {s}"));
                    }
                }
            }
            let key = format!("linked={linked} other={other_ok} c_killed={c_killed} d_killed={d_killed} csup={:?}", cs.supervisor.map(|s| s.to_string()));
            for (_, x) in &cells {
                inspect::set_status(x, ActorStatus::Stopped);
            }
            drop((pp, cp, qp, dp));
            Outcome { key, violations: bad }
        })
    })
}

/// A link into an actor that sits in the subtree of an exiting ancestor: R exits (its walk closes the child set of
/// its descendant D and signals it; D has not reacted yet, its status is still Running), and `X.link(D)` runs
/// before, during or after that, X being a child of the bystander K. If the link is refused, nothing has moved: X
/// is still K's child and K still lists it. If it is accepted, X goes down with R's subtree.
fn refused_link_body(sequential: bool) -> vsched::Body {
    Arc::new(move || {
        Box::pin(async move {
            let mk = || {
                let (c, p) = inspect::detached::<Dummy>(None).expect("cell");
                inspect::set_status(&c, ActorStatus::Running);
                (c, p)
            };
            let (r, rp) = mk();
            let (d, dp) = mk();
            let (k, kp) = mk();
            let (x, mut xp) = mk();
            assert!(inspect::try_link(&d, &r));
            assert!(inspect::try_link(&x, &k));
            let cells = vec![("R".to_string(), r.clone()), ("D".to_string(), d.clone()), ("K".to_string(), k.clone()), ("X".to_string(), x.clone())];
            let r2 = r.clone();
            let exiter = vsched::spawn("tree", async move {
                inspect::run_exit_path(&r2, None);
                vsched::ret_stamp()
            });
            let mut exiter = Some(exiter);
            if sequential {
                let _ = exiter.take().unwrap().await;
            }
            let (x1, d1) = (x.clone(), d.clone());
            let linker = vsched::spawn("tree", async move {
                let call = vsched::call_stamp();
                let ok = inspect::try_link(&x1, &d1);
                (call, ok)
            });
            vsched::quiesce();
            let (_lcall, linked) = linker.await.expect("linker");
            if let Some(e) = exiter {
                let _ = e.await;
            }
            let mut bad = tree_invariants(&cells);
            let xs = inspect::tree_snapshot(&x);
            let ks = inspect::tree_snapshot(&k);
            let x_killed = matches!(xp.try_recv_signal(), Some(Signal::Kill));
            if !linked {
                if xs.supervisor != Some(k.get_id()) {
                    bad.push(format!("X.link(D) was refused (D's child set was closed by its exiting ancestor) but X's supervisor is now {:?} instead of K", xs.supervisor.map(|s| s.to_string())));
                }
                if !ks.children.as_ref().is_some_and(|c| c.contains(&x.get_id())) {
                    bad.push("X.link(D) was refused but K no longer lists X as its child".to_string());
                }
                if x_killed {
                    bad.push("X.link(D) was refused but X was killed with R's subtree".to_string());
                }
            } else if !x_killed {
                bad.push(format!("X.link(D) was accepted, D is in the subtree of R which exited, but X was not signalled; X's links {xs:?}"));
            }
            let key = format!("linked={linked} x_killed={x_killed} xsup={:?}", xs.supervisor.map(|s| s.to_string()));
            for (_, c) in &cells {
                inspect::set_status(c, ActorStatus::Stopped);
            }
            drop((rp, dp, kp, xp));
            Outcome { key, violations: bad }
        })
    })
}

// ---------------------------------------------------------------------------------------------
// live (task granularity): real trees, invariants at every scheduling step
// ---------------------------------------------------------------------------------------------

#[derive(Clone, Copy, Debug, PartialEq, Eq)]
enum Shape {
    Chain,  // R -> A -> B
    Fan,    // R -> A, R -> B
    Bushy,  // R -> A -> {B, C}
}
#[derive(Clone, Copy, Debug, PartialEq, Eq)]
enum Cause {
    Stop,
    Kill,
    Err,
    Panic,
    /// the exiting actor's task is dropped before its k-th poll (task cancellation)
    Abort(usize),
    /// the same, and the state of the exiting actor panics when it is dropped (as part of the dropped task)
    AbortBomb(usize),
    /// stop, with a post_stop that takes a while: the actor is Stopping, its child set still open
    SlowStop,
    /// drain with a backlog of slow messages: the actor is Draining for a while
    DrainBacklog,
}
#[derive(Clone, Copy, Debug, PartialEq, Eq)]
enum Race {
    None,
    SpawnUnderDying,
    RelinkOut,
    LinkIn,
    Unlink,
    /// the root above the exiting node is killed / told to stop while that node is still on its way out
    AncestorKill,
    AncestorStop,
    /// B is linked once more to the supervisor it already has (documented as harmless)
    RelinkSame,
}

fn live_body(shape: Shape, at_root: bool, cause: Cause, race: Race, local_child: bool) -> vsched::Body {
    Arc::new(move || {
        Box::pin(async move {
            let log = Log::default();
            let spawner = ractor::thread_local::ThreadLocalActorSpawner::verif_new_local();
            let cells: Arc<Mutex<Vec<(String, ActorCell)>>> = Arc::new(Mutex::new(Vec::new()));
            let inv_cells = cells.clone();
            vsched::set_invariant(move || {
                let c = inv_cells.lock().unwrap().clone();
                tree_invariants(&c)
            });
            let mut handles = Vec::new();
            let sp = |id: &'static str, sup: Option<ActorCell>, local: bool| {
                let log = log.clone();
                let spawner = spawner.clone();
                async move {
                    let prog = if matches!(cause, Cause::SlowStop) && (id == "R" || id == "A") {
                        Prog { post_stop: vec![Step::Yield, Step::SleepMs(2), Step::Yield], ..Default::default() }
                    } else if matches!(cause, Cause::AbortBomb(_)) && id == (if at_root { "R" } else { "A" }) {
                        Prog { state_drop_panics: true, ..Default::default() }
                    } else {
                        Prog::default()
                    };
                    let a = args(id, prog, &log);
                    // (named: the task-cut injection selects the actor task by name)
                    let r = match (sup, local) {
                        (None, _) => Actor::spawn(Some(id.into()), Probe, a).await,
                        (Some(s), false) => Actor::spawn_linked(Some(id.into()), Probe, a, s).await,
                        (Some(s), true) => <Probe as ractor::thread_local::ThreadLocalActor>::spawn_linked(Some(id.into()), a, s, spawner).await,
                    };
                    r.expect("spawn")
                }
            };
            // O: an outside supervisor that survives
            let (o, oh) = sp("O", None, false).await;
            let (r, rh) = sp("R", None, false).await;
            let (a, ah) = sp("A", Some(r.get_cell()), false).await;
            let (b, bh) = match shape {
                Shape::Chain | Shape::Bushy => sp("B", Some(a.get_cell()), local_child).await,
                Shape::Fan => sp("B", Some(r.get_cell()), local_child).await,
            };
            let mut all = vec![("O", o.clone()), ("R", r.clone()), ("A", a.clone()), ("B", b.clone())];
            handles.extend([rh, ah, bh]);
            if shape == Shape::Bushy {
                let (c, ch) = sp("C", Some(a.get_cell()), false).await;
                all.push(("C", c));
                handles.push(ch);
            }
            *cells.lock().unwrap() = all.iter().map(|(n, c)| (n.to_string(), c.get_cell())).collect();
            vsched::quiesce();
            let dying = if at_root { r.clone() } else { a.clone() };
            // who is beneath the dying node right now
            let mut beneath: Vec<&str> = Vec::new();
            match (shape, at_root) {
                (Shape::Chain, true) => beneath.extend(["A", "B"]),
                (Shape::Chain, false) => beneath.extend(["B"]),
                (Shape::Fan, true) => beneath.extend(["A", "B"]),
                (Shape::Fan, false) => {}
                (Shape::Bushy, true) => beneath.extend(["A", "B", "C"]),
                (Shape::Bushy, false) => beneath.extend(["B", "C"]),
            }
            let d2 = dying.clone();
            let killer = vsched::spawn("closer", async move {
                match cause {
                    Cause::Stop => d2.stop(None),
                    Cause::Kill => d2.kill(),
                    Cause::Err => {
                        let _ = d2.cast(do_msg(1, vec![Step::Err("boom")]));
                    }
                    Cause::Panic => {
                        let _ = d2.cast(do_msg(1, vec![Step::Panic("boom")]));
                    }
                    Cause::SlowStop => d2.stop(None),
                    Cause::DrainBacklog => {
                        let _ = d2.cast(do_msg(1, vec![Step::SleepMs(2), Step::Tick]));
                        let _ = d2.cast(do_msg(2, vec![Step::SleepMs(2)]));
                        let _ = d2.drain();
                    }
                    Cause::Abort(_) | Cause::AbortBomb(_) => {
                        // keep the actor task busy so that its k-th poll comes
                        let _ = d2.cast(do_msg(1, vec![Step::Yield, Step::Tick, Step::Yield, Step::Tick]));
                        let _ = d2.cast(do_msg(2, vec![Step::Yield]));
                    }
                }
            });
            let r3 = r.clone();
            let (a3, b3, o3, log3, cells3) = (a.clone(), b.clone(), o.clone(), log.clone(), cells.clone());
            let racer = vsched::spawn("racer", async move {
                if matches!(cause, Cause::SlowStop | Cause::DrainBacklog) {
                    // land somewhere inside the slow exit (every round up to a small horizon is tried)
                    for _ in 0..vsched::choose_free("racer-delay", 6) {
                        vsched::yield_now().await;
                    }
                }
                match race {
                    Race::None => ("none", true, None),
                    Race::SpawnUnderDying => {
                        let r = Actor::spawn_linked(None, Probe, args("N", Prog::default(), &log3), a3.get_cell()).await;
                        match r {
                            Ok((n, h)) => {
                                cells3.lock().unwrap().push(("N".to_string(), n.get_cell()));
                                ("spawn", true, Some((n, h)))
                            }
                            Err(_) => ("spawn", false, None),
                        }
                    }
                    Race::RelinkOut => ("relink", inspect::try_link(&b3.get_cell(), &o3.get_cell()), None),
                    Race::LinkIn => {
                        // O itself is linked under the dying node A
                        ("linkin", inspect::try_link(&o3.get_cell(), &a3.get_cell()), None)
                    }
                    Race::Unlink => {
                        b3.get_cell().unlink(a3.get_cell());
                        ("unlink", true, None)
                    }
                    Race::RelinkSame => ("relink-same", inspect::try_link(&b3.get_cell(), &a3.get_cell()), None),
                    Race::AncestorKill => {
                        r3.kill();
                        ("ancestor", true, None)
                    }
                    Race::AncestorStop => {
                        r3.stop(None);
                        ("ancestor", true, None)
                    }
                }
            });
            let _ = killer.await;
            let (what, race_ok, spawned) = racer.await.expect("racer");
            let mut bad = Vec::new();
            if what == "ancestor" {
                // no time passes: a node lingering in post_stop is still lingering. Once the root has
                // stopped, everything that was beneath it has been signalled, whatever the state of the
                // nodes in between
                vsched::quiesce();
                if r.get_status() == ActorStatus::Stopped {
                    for (n, c) in all.iter().filter(|x| x.0 != "O" && x.0 != "R" && x.0 != "A") {
                        if c.get_status() != ActorStatus::Stopped {
                            bad.push(format!("the root has stopped (A is {:?}) but {n}, linked beneath it through A, is still {:?}", a.get_status(), c.get_status()));
                        }
                    }
                }
            }
            vsched::quiesce_time();
            let status = |n: &str| all.iter().find(|x| x.0 == n).map(|x| x.1.get_status());
            if dying.get_status() != ActorStatus::Stopped {
                bad.push(format!("the actor that was told to exit is {:?}", dying.get_status()));
            }
            for n in &beneath {
                let escaped = *n == "B" && ((what == "relink" && race_ok) || what == "unlink");
                if !escaped && status(n) != Some(ActorStatus::Stopped) {
                    bad.push(format!("{n} was linked beneath the exiting actor but is {:?} after the system went quiet", status(n)));
                }
            }
            // whoever is still running has no stopped ancestor
            let snapshot: Vec<(String, ActorCell)> = cells.lock().unwrap().clone();
            for (n, c) in &snapshot {
                if c.get_status() < ActorStatus::Stopping {
                    let mut cur = c.try_get_supervisor();
                    while let Some(s) = cur {
                        if s.get_status() == ActorStatus::Stopped {
                            bad.push(format!("{n} is running under a stopped ancestor"));
                            break;
                        }
                        cur = s.try_get_supervisor();
                    }
                }
            }
            if what == "spawn" && !at_root == false {
                // (the racer always spawns under A; with at_root A dies as part of R's subtree)
            }
            if let Some((n, h)) = spawned {
                // the new child's supervisor is exiting (directly or through its parent): it must die as well
                if n.get_status() != ActorStatus::Stopped {
                    bad.push("spawn_linked under an exiting supervisor succeeded and the new child kept running".into());
                }
                let _ = h.await;
            }
            if what == "linkin" && race_ok && o.get_status() != ActorStatus::Stopped {
                bad.push("link() under an exiting supervisor returned true but the new child was not terminated".into());
            }
            bad.extend(tree_invariants(&snapshot));
            // tidy up
            for (_, c) in &snapshot {
                c.kill();
            }
            for h in handles {
                let _ = h.await;
            }
            let _ = oh.await;
            Outcome {
                key: format!("race={what}:{race_ok} statuses={:?}", all.iter().map(|x| format!("{}={:?}", x.0, x.1.get_status())).collect::<Vec<_>>()),
                violations: bad,
            }
        })
    })
}


// ---------------------------------------------------------------------------------------------
// exits before the actor ever ran: the subtree it linked in pre_start must go down with it
// ---------------------------------------------------------------------------------------------

#[derive(Clone, Copy, Debug, PartialEq, Eq)]
enum StartFail {
    Err,
    Panic,
    /// the spawning future is dropped before its k-th poll
    CutFuture(usize),
    /// the supervisor is told to stop while the actor starts
    SupStops,
    /// the supervisor is killed while the actor starts
    SupKilled,
}

fn startup_body(fail: StartFail, linked: bool, local: bool, instant: bool) -> vsched::Body {
    Arc::new(move || {
        Box::pin(async move {
            let log = Log::default();
            let spawner = ractor::thread_local::ThreadLocalActorSpawner::verif_new_local();
            let cells: Arc<Mutex<Vec<(String, ActorCell)>>> = Arc::new(Mutex::new(Vec::new()));
            let inv_cells = cells.clone();
            vsched::set_invariant(move || {
                let c = inv_cells.lock().unwrap().clone();
                tree_invariants(&c)
            });
            let (s, sh) = Actor::spawn(None, Probe, args("S", Prog::default(), &log)).await.expect("S");
            cells.lock().unwrap().push(("S".into(), s.get_cell()));
            // P's pre_start links K1 beneath itself, K1's pre_start links K2 beneath K1
            let (log1, log2, c1, c2, c3) = (log.clone(), log.clone(), cells.clone(), cells.clone(), cells.clone());
            let grandkid: Step = Step::Custom(
                "grandkid",
                Arc::new(move |me: ActorRef<PMsg>| {
                    let (log, cells) = (log2.clone(), c3.clone());
                    Box::pin(async move {
                        cells.lock().unwrap().push(("K1".into(), me.get_cell()));
                        if let Ok((k2, _)) = Actor::spawn_linked(None, Probe, args("K2", Prog::default(), &log), me.get_cell()).await {
                            cells.lock().unwrap().push(("K2".into(), k2.get_cell()));
                        }
                        Ok(())
                    })
                }),
            );
            let kid: Step = Step::Custom(
                "kid",
                Arc::new(move |me: ActorRef<PMsg>| {
                    let (log, cells, grandkid) = (log1.clone(), c2.clone(), grandkid.clone());
                    Box::pin(async move {
                        cells.lock().unwrap().push(("P".into(), me.get_cell()));
                        let prog = Prog { pre_start: vec![grandkid], ..Default::default() };
                        let _ = Actor::spawn_linked(None, Probe, args("K1", prog, &log), me.get_cell()).await;
                        Ok(())
                    })
                }),
            );
            let _ = c1;
            let mut pre = vec![kid, Step::Yield, Step::Tick];
            match fail {
                StartFail::Err => pre.push(Step::Err("nope")),
                StartFail::Panic => pre.push(Step::Panic("nope-panic")),
                _ => pre.push(Step::Yield),
            }
            let a = args("P", Prog { pre_start: pre, ..Default::default() }, &log);
            let sup = if linked { Some(s.get_cell()) } else { None };
            let s2 = s.clone();
            let closer = vsched::spawn("closer", async move {
                match fail {
                    StartFail::SupStops => s2.stop(None),
                    StartFail::SupKilled => s2.kill(),
                    _ => {}
                }
            });
            use ractor::thread_local::ThreadLocalActor;
            // (instant variants return at once; their start-up runs in a task of its own)
            let fut = async {
                match (local, sup, instant) {
                    (false, None, false) => Actor::spawn(None, Probe, a).await.map(|(r, h)| (r, Some(h))),
                    (false, Some(sp), false) => Actor::spawn_linked(None, Probe, a, sp).await.map(|(r, h)| (r, Some(h))),
                    (true, None, false) => <Probe as ThreadLocalActor>::spawn(None, a, spawner.clone()).await.map(|(r, h)| (r, Some(h))),
                    (true, Some(sp), false) => <Probe as ThreadLocalActor>::spawn_linked(None, a, sp, spawner.clone()).await.map(|(r, h)| (r, Some(h))),
                    (false, None, true) => ractor::ActorRuntime::<Probe>::spawn_instant(None, Probe, a).map(|(r, _)| (r, None)),
                    (false, Some(sp), true) => ractor::ActorRuntime::<Probe>::spawn_linked_instant(None, Probe, a, sp).map(|(r, _)| (r, None)),
                    (true, None, true) => <Probe as ThreadLocalActor>::spawn_instant(None, a, spawner.clone()).map(|(r, _)| (r, None)),
                    (true, Some(sp), true) => <Probe as ThreadLocalActor>::spawn_linked_instant(None, a, sp, spawner.clone()).map(|(r, _)| (r, None)),
                }
            };
            let res = match fail {
                StartFail::CutFuture(k) => vsched::cut(fut, k).await,
                _ => Some(fut.await),
            };
            let _ = closer.await;
            vsched::quiesce_time();
            let mut bad = Vec::new();
            let started = match res {
                Some(Ok((p, h))) => {
                    if !cells.lock().unwrap().iter().any(|c| c.0 == "P") {
                        cells.lock().unwrap().push(("P".into(), p.get_cell()));
                    }
                    // it runs (or ran): end it now, the subtree goes with it
                    p.stop(None);
                    if let Some(h) = h {
                        let _ = h.await;
                    }
                    vsched::quiesce_time();
                    true
                }
                _ => {
                    // a thread-local actor is started by its spawner's own task: dropping the spawning
                    // future does not cancel that, the actor simply runs without anybody holding its handle
                    let p = cells.lock().unwrap().iter().find(|c| c.0 == "P").map(|c| c.1.clone());
                    match p {
                        Some(p) if matches!(fail, StartFail::CutFuture(_)) && local && p.get_status() == ActorStatus::Running => {
                            p.stop(None);
                            vsched::quiesce_time();
                            true
                        }
                        _ => false,
                    }
                }
            };
            let snapshot: Vec<(String, ActorCell)> = cells.lock().unwrap().clone();
            for (n, c) in snapshot.iter().filter(|c| c.0 != "S") {
                if c.get_status() != ActorStatus::Stopped {
                    bad.push(format!(
                        "{n} is {:?} after {} and the system went quiet",
                        c.get_status(),
                        if started { "its ancestor P was stopped" } else { "P's start-up failed: actors linked beneath an actor that exits before it ever ran must be terminated" }
                    ));
                }
            }
            bad.extend(tree_invariants(&snapshot));
            let key = format!("started={started} {:?}", snapshot.iter().map(|c| format!("{}={:?}", c.0, c.1.get_status())).collect::<Vec<_>>());
            for (_, c) in &snapshot {
                c.kill();
            }
            let _ = sh.await;
            vsched::quiesce();
            Outcome { key, violations: bad }
        })
    })
}

/// A child created by spawn_linked_instant (or spawn_instant + link) is still Unstarted — its start task has
/// not been polled — when its supervisor exits. It was linked beneath the exiting actor, so it must go down.
fn instant_child_body(cause: Cause, manual_link: bool, local: bool) -> vsched::Body {
    Arc::new(move || {
        Box::pin(async move {
            let log = Log::default();
            let spawner = ractor::thread_local::ThreadLocalActorSpawner::verif_new_local();
            let (p, ph) = Actor::spawn(Some("P".into()), Probe, args("P", Prog::default(), &log)).await.expect("P");
            let cells: Arc<Mutex<Vec<(String, ActorCell)>>> = Arc::new(Mutex::new(vec![("P".into(), p.get_cell())]));
            let inv_cells = cells.clone();
            vsched::set_invariant(move || {
                let c = inv_cells.lock().unwrap().clone();
                tree_invariants(&c)
            });
            use ractor::thread_local::ThreadLocalActor;
            let a = args("K", Prog::default(), &log);
            let spawned = match (manual_link, local) {
                (false, false) => ractor::ActorRuntime::<Probe>::spawn_linked_instant(None, Probe, a, p.get_cell()),
                (false, true) => <Probe as ThreadLocalActor>::spawn_linked_instant(None, a, p.get_cell(), spawner.clone()),
                (true, false) => ractor::ActorRuntime::<Probe>::spawn_instant(None, Probe, a),
                (true, true) => <Probe as ThreadLocalActor>::spawn_instant(None, a, spawner.clone()),
            };
            let (k, outer) = spawned.expect("instant spawn");
            let linked = if manual_link { inspect::try_link(&k.get_cell(), &p.get_cell()) } else { true };
            cells.lock().unwrap().push(("K".into(), k.get_cell()));
            // no await since the spawn: K's start task has not run yet
            match cause {
                Cause::Stop => p.stop(None),
                Cause::Kill => p.kill(),
                Cause::Err => {
                    let _ = p.cast(do_msg(1, vec![Step::Err("boom")]));
                }
                Cause::Panic => {
                    let _ = p.cast(do_msg(1, vec![Step::Panic("boom")]));
                }
                Cause::Abort(_) | Cause::AbortBomb(_) => {
                    let _ = p.cast(do_msg(1, vec![Step::Yield, Step::Tick, Step::Yield]));
                }
                Cause::SlowStop | Cause::DrainBacklog => p.stop(None),
            }
            vsched::quiesce_time();
            let _ = ph.await;
            let _ = outer.await;
            vsched::quiesce_time();
            let mut bad = Vec::new();
            if p.get_status() != ActorStatus::Stopped {
                bad.push(format!("the supervisor is {:?}", p.get_status()));
            }
            if linked && k.get_status() != ActorStatus::Stopped {
                bad.push(format!(
                    "K was linked beneath P before its start task ever ran, P exited, and K is {:?} (supervisor: {:?}): it escaped the subtree kill",
                    k.get_status(),
                    k.try_get_supervisor().map(|s| s.get_id().to_string())
                ));
            }
            let snapshot: Vec<(String, ActorCell)> = cells.lock().unwrap().clone();
            bad.extend(tree_invariants(&snapshot));
            let key = format!("linked={linked} K={:?}", k.get_status());
            k.kill();
            vsched::quiesce_time();
            Outcome { key, violations: bad }
        })
    })
}

#[derive(Clone, Copy, Debug, PartialEq, Eq)]
enum Alias {
    /// every process number is distinct (control)
    Distinct,
    /// the stand-in has the process number of the exiting root
    Root,
    /// ... of its local sibling
    Sibling,
    /// ... of a local actor one level further down, under the sibling
    Nephew,
    /// two stand-ins of two different nodes with the same process number
    OtherNode,
}

#[cfg(not(feature = "alt"))]
fn mixed_tree_body(_alias: Alias, _kill: bool, _standin_first: bool) -> vsched::Body {
    wrong_build()
}

/// Cluster build: a subtree that mixes local actors and stand-ins with remote ids (what a `NodeSession` supervises:
/// its own connection actors next to one stand-in per actor of the peer). Process numbers count from 0 on every
/// node, so a stand-in `7.p` regularly sits next to a local `0.p`: they are different actors and both go down with
/// the root, as does everything linked beneath either.
///
///   R --+-- L (local) --- L2 (local)
///       +-- S (stand-in, remote id) --- K (local "relay")
///       (+-- S2, a stand-in of another node, for Alias::OtherNode)
#[cfg(feature = "alt")]
fn mixed_tree_body(alias: Alias, kill: bool, standin_first: bool) -> vsched::Body {
    Arc::new(move || {
        Box::pin(async move {
            let mut bad = Vec::new();
            let mut cells: Vec<(String, ActorCell)> = Vec::new();
            let mut handles = Vec::new();
            let (r, rh) = Actor::spawn(None, Dummy, ()).await.expect("R");
            cells.push(("R".into(), r.get_cell()));
            let local = |name: &str, sup: ActorCell| {
                let name = name.to_string();
                async move {
                    let (a, h) = Actor::spawn_linked(None, Dummy, (), sup).await.expect("local");
                    (name, a, h)
                }
            };
            let standin = |name: &str, node_id: u64, pid: u64, sup: ActorCell| {
                let name = name.to_string();
                async move {
                    let (a, h) = ractor::ActorRuntime::<Dummy>::spawn_linked_remote(None, Dummy, ractor::ActorId::Remote { node_id, pid }, (), sup).await.expect("stand-in");
                    (name, a, h)
                }
            };
            // (the order in which the children are linked decides the order of the walk)
            let mut s_made = None;
            if standin_first && matches!(alias, Alias::Root | Alias::Distinct | Alias::OtherNode) {
                let pid = if alias == Alias::Root { r.get_id().pid() } else { 4000 };
                s_made = Some(standin("S", 7, pid, r.get_cell()).await);
            }
            let (n, l, h) = local("L", r.get_cell()).await;
            cells.push((n, l.get_cell()));
            handles.push(h);
            let (n, l2, h) = local("L2", l.get_cell()).await;
            cells.push((n, l2.get_cell()));
            handles.push(h);
            let (n, s, h) = match s_made {
                Some(x) => x,
                None => {
                    let pid = match alias {
                        Alias::Distinct | Alias::OtherNode => 4000,
                        Alias::Root => r.get_id().pid(),
                        Alias::Sibling => l.get_id().pid(),
                        Alias::Nephew => l2.get_id().pid(),
                    };
                    standin("S", 7, pid, r.get_cell()).await
                }
            };
            cells.push((n, s.get_cell()));
            handles.push(h);
            let (n, k, h) = local("K", s.get_cell()).await;
            cells.push((n, k.get_cell()));
            handles.push(h);
            if alias == Alias::OtherNode {
                let (n, s2, h) = standin("S2", 8, s.get_id().pid(), r.get_cell()).await;
                cells.push((n, s2.get_cell()));
                handles.push(h);
                let (n, k2, h) = local("K2", s2.get_cell()).await;
                cells.push((n, k2.get_cell()));
                handles.push(h);
            }
            bad.extend(tree_invariants(&cells));
            vsched::explore_schedules(true);
            if kill {
                r.kill();
            } else {
                r.stop(None);
            }
            let _ = rh.await;
            vsched::quiesce_time();
            vsched::explore_schedules(false);
            let mut alive = Vec::new();
            for (n, c) in &cells {
                if c.get_status() != ActorStatus::Stopped {
                    alive.push(format!("{n}({})={:?}", c.get_id(), c.get_status()));
                }
            }
            if !alive.is_empty() {
                bad.push(format!("the root exited but these actors linked beneath it keep running: {alive:?}"));
            }
            bad.extend(tree_invariants(&cells));
            // (nothing may leak into the next execution)
            for (_, c) in &cells {
                if c.get_status() != ActorStatus::Stopped {
                    c.kill();
                }
            }
            for h in handles {
                let _ = h.await;
            }
            Outcome { key: format!("{alias:?} kill={kill} alive={}", alive.len()), violations: bad }
        })
    })
}

const S_KINDS: &[PointKind] = &[PointKind::Atomic, PointKind::Lock, PointKind::Channel, PointKind::Other];

pub fn plan(tier: &str) -> Plan {
    let thorough = tier == "thorough";
    let core_cfg = ExecCfg {
        filter: Some(vsched::filter_roles(S_KINDS, &["tree"])),
        keep_trace: false,
        stack: 1 << 18,
        ..Default::default()
    };
    let mut units = Vec::new();
    for (pre, third, bound) in [
        (false, Third::None, None),
        (true, Third::Relink, Some(3)),
        (true, Third::Unlink, Some(3)),
        (false, Third::SecondLink, Some(3)),
        (false, Third::Relink, Some(3)),
        (true, Third::ExitChild, Some(3)),
    ] {
        let bound = bound.map(|b: usize| if thorough { b + 1 } else { b });
        units.push(Unit::explore_split(Job::new(format!("core/pre={pre}/{third:?}"), core_cfg.clone(), bound, core_body(pre, third)), 8));
    }
    // a link into a descendant of an exiting actor (its child set is closed before it has reacted to its own kill)
    units.push(Unit::explore_split(Job::new("core/link-into-descendant-of-exiting/after", core_cfg.clone(), None, refused_link_body(true)), 2));
    units.push(Unit::explore_split(Job::new("core/link-into-descendant-of-exiting/racing", core_cfg.clone(), None, refused_link_body(false)), 8));
    // the supervisor stays alive; only the child exits while it is being linked / relinked
    units.push(Unit::explore_split(Job::new("core/p-alive/link-vs-child-exit", core_cfg.clone(), None, core_body_x(false, Third::ExitChild, false)), 8));
    units.push(Unit::explore_split(Job::new("core/p-alive/prelinked-relink-vs-child-exit", core_cfg.clone(), None, core_body_x(true, Third::ExitChild, false)), 8));
    let cfg = ExecCfg::default();
    let lb = if thorough { 3 } else { 2 };
    let mut live = Vec::new();
    for shape in [Shape::Chain, Shape::Fan, Shape::Bushy] {
        for at_root in [true, false] {
            for cause in [Cause::Stop, Cause::Kill, Cause::Err, Cause::Panic] {
                for race in [Race::None, Race::SpawnUnderDying, Race::RelinkOut, Race::LinkIn, Race::Unlink] {
                    for local in [false, true] {
                        let pick = thorough
                            || matches!(
                                (shape, at_root, cause, race, local),
                                (Shape::Chain, true, Cause::Kill, Race::SpawnUnderDying, false)
                                    | (Shape::Chain, false, Cause::Stop, Race::SpawnUnderDying, false)
                                    | (Shape::Chain, false, Cause::Panic, Race::RelinkOut, true)
                                    | (Shape::Bushy, false, Cause::Err, Race::LinkIn, false)
                                    | (Shape::Bushy, true, Cause::Stop, Race::Unlink, true)
                                    | (Shape::Fan, true, Cause::Kill, Race::RelinkOut, false)
                                    | (Shape::Chain, false, Cause::Kill, Race::LinkIn, false)
                                    | (Shape::Bushy, false, Cause::Stop, Race::None, true)
                            );
                        if pick {
                            live.push((shape, at_root, cause, race, local));
                        }
                    }
                }
            }
        }
    }
    // slow exits: the exiting node is Stopping (inside post_stop) or Draining (backlog) for a while, and a child
    // is relinked away / a new child linked in / unlinked during that time
    for cause in [Cause::SlowStop, Cause::DrainBacklog] {
        for (shape, at_root, race) in [(Shape::Chain, false, Race::RelinkOut), (Shape::Bushy, false, Race::RelinkOut), (Shape::Chain, false, Race::LinkIn), (Shape::Chain, false, Race::Unlink)] {
            live.push((shape, at_root, cause, race, false));
        }
    }
    // a redundant link to the current supervisor, racing with that supervisor's exit
    for cause in [Cause::Kill, Cause::Stop, Cause::SlowStop] {
        live.push((Shape::Chain, false, cause, Race::RelinkSame, false));
    }
    live.push((Shape::Bushy, false, Cause::Panic, Race::RelinkSame, true));
    // an ancestor exits while a node in the middle is still on its way out (inside a slow post_stop, or draining)
    for cause in [Cause::SlowStop, Cause::DrainBacklog] {
        for (shape, race) in [(Shape::Chain, Race::AncestorKill), (Shape::Bushy, Race::AncestorKill), (Shape::Chain, Race::AncestorStop)] {
            live.push((shape, false, cause, race, false));
        }
    }
    live.push((Shape::Chain, false, Cause::SlowStop, Race::AncestorKill, true));
    // exits by task cancellation: the exiting node's task is dropped before its k-th poll
    for (shape, at_root, race) in [(Shape::Chain, false, Race::SpawnUnderDying), (Shape::Bushy, true, Race::None), (Shape::Chain, false, Race::RelinkOut), (Shape::Fan, true, Race::LinkIn)] {
        for k in 1..=(if thorough { 5 } else { 3 }) {
            live.push((shape, at_root, Cause::Abort(k), race, false));
        }
    }
    // the exiting node's task is dropped and its state's destructor panics while that happens
    for k in 2..=(if thorough { 5 } else { 3 }) {
        live.push((Shape::Chain, false, Cause::AbortBomb(k), Race::None, false));
        live.push((Shape::Bushy, true, Cause::AbortBomb(k), Race::None, false));
    }
    for (shape, at_root, cause, race, local) in live {
        let mut c = cfg.clone();
        if let Cause::Abort(k) | Cause::AbortBomb(k) = cause {
            c.cuts = vec![vsched::CutSpec { sel: vsched::Sel::Name(if at_root { "R".into() } else { "A".into() }), at_poll: k }];
        }
        if matches!(cause, Cause::AbortBomb(_)) {
            c.tolerate_lib_panics = true;
        }
        units.push(Unit::explore(Job::new(
            format!("live/{shape:?}/{}/{cause:?}/{race:?}/{}", if at_root { "root" } else { "mid" }, if local { "local" } else { "send" }).replace(['(', ')'], ""),
            c,
            Some(lb),
            live_body(shape, at_root, cause, race, local),
        )));
    }
    // a child that is still Unstarted (instant spawn, start task not yet polled) when its supervisor exits
    for cause in [Cause::Kill, Cause::Stop, Cause::Panic, Cause::Abort(2)] {
        for (manual, local) in [(false, false), (true, false), (false, true)] {
            if !thorough && local && cause != Cause::Kill {
                continue;
            }
            let mut c = cfg.clone();
            if let Cause::Abort(k) = cause {
                c.cuts = vec![vsched::CutSpec { sel: vsched::Sel::Name("P".into()), at_poll: k }];
            }
            units.push(Unit::explore(Job::new(
                format!("instant-child/{cause:?}/{}/{}", if manual { "spawn_instant+link" } else { "spawn_linked_instant" }, if local { "local" } else { "send" }).replace(['(', ')'], ""),
                c,
                Some(lb),
                instant_child_body(cause, manual, local),
            )));
        }
    }
    // cluster build: local actors and remote stand-ins (whose process numbers overlap) in one subtree
    for alias in [Alias::Distinct, Alias::Root, Alias::Sibling, Alias::Nephew, Alias::OtherNode] {
        for kill in [false, true] {
            for standin_first in [false, true] {
                if standin_first && matches!(alias, Alias::Sibling | Alias::Nephew) {
                    continue;
                }
                units.push(alt_unit(
                    format!("alt/mixed-tree/{alias:?}/{}/{}", if kill { "kill" } else { "stop" }, if standin_first { "stand-in-linked-first" } else { "stand-in-linked-last" }),
                    cfg.clone(),
                    Some(if thorough { 2 } else { 1 }),
                    mixed_tree_body(alias, kill, standin_first),
                    1,
                ));
            }
        }
    }
    // exits before the actor ever ran, with a subtree linked from pre_start
    for local in [false, true] {
        for linked in [false, true] {
            for instant in [false, true] {
                let mut fails = vec![StartFail::Err, StartFail::Panic];
                if !instant {
                    fails.extend((1..=if thorough { 8 } else { 5 }).map(StartFail::CutFuture));
                }
                if linked {
                    fails.extend([StartFail::SupStops, StartFail::SupKilled]);
                }
                for fail in fails {
                    let pick = thorough || !instant || matches!(fail, StartFail::Err | StartFail::SupStops);
                    if pick {
                        units.push(Unit::explore(Job::new(
                            format!("startup/{fail:?}/{}{}/{}", if linked { "linked" } else { "plain" }, if instant { "-instant" } else { "" }, if local { "local" } else { "send" }).replace(['(', ')'], ""),
                            cfg.clone(),
                            Some(if thorough { 2 } else { 1 }),
                            startup_body(fail, linked, local, instant),
                        )));
                    }
                }
            }
        }
    }
    Plan {
        property: "C05",
        units,
        rule: "core: link / relink / unlink / second link / child exit racing the real exit path (ActorLifecycleGuard: Stopping, terminate, unlink, Stopped) on real cells with a decision point before every lock, atomic and signal-port operation, complete tree with sleep sets for the 2-task case, deviation-bounded otherwise; live: real supervision trees (chain, fan, bushy; Send and thread-local children), one node exits by stop/kill/Err/panic/task cancellation (task dropped before its k-th poll) while a task spawns under it, links into it, relinks or unlinks a child, deviation-bounded DFS over task-level schedules with the structural invariants (child has at most one supervisor and is in exactly that child set; a stopped actor has neither) evaluated at EVERY scheduling step and the subtree-death clauses at quiescence; instant-child: a child from spawn_linked_instant / spawn_instant + link whose start task has not been polled when its supervisor exits must go down with it; startup: an actor whose pre_start linked a child (whose pre_start linked a grandchild) exits before it ever ran (pre_start Err / panic, spawning future dropped before its k-th poll for every k, supervisor stopped or killed meanwhile; spawn, spawn_linked and the instant and thread-local variants), the whole subtree must end Stopped; non-trivial = execution with >= 1 branching decision".into(),
        assumptions: vec![
            "sequential consistency; structural operations are observed at step boundaries only (two independent concurrent reads are not required to agree)".into(),
            "trees of up to 5 nodes, depth 3".into(),
        ],
        engine: "vsched (shuttle coroutines + DFS with sleep sets / deviation bound + step invariants) on the real ractor code",
    }
}
