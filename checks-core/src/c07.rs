//! C07 — drain processes everything accepted and admits nothing afterwards.
//!
//! Core harnesses run the real `send_message` / `drain` on a detached cell (a real `ActorCell`
//! whose mailbox the harness reads synchronously afterwards) with a scheduling point before every
//! atomic and channel operation of the senders and drainers; the complete interleaving tree is
//! explored. Live harnesses add the real actor loop as consumer.

use std::sync::{Arc, Mutex};

use ractor::verif::inspect::{self, Mail};
use ractor::{Actor, ActorProcessingErr, ActorRef, ActorStatus, MessagingErr, SupervisionEvent};
use vsched::explore::Job;
use vsched::report::{Plan, Unit};
use vsched::{ExecCfg, Outcome, PointKind};

struct Dummy;
#[cfg_attr(feature = "alt", ractor::async_trait)]
impl Actor for Dummy {
    type Msg = u32;
    type State = ();
    type Arguments = ();
    async fn pre_start(&self, _m: ActorRef<u32>, _: ()) -> Result<(), ActorProcessingErr> {
        Ok(())
    }
}

#[derive(Clone, Copy)]
struct Core {
    senders: usize,
    msgs_per_sender: usize,
    drainers: usize,
    drains_per_drainer: usize,
    /// the odd senders use ActorCell::send_serialized (cluster build only)
    #[cfg_attr(not(feature = "alt"), allow(dead_code))]
    serialized: bool,
}

/// (call stamp, return stamp, message, handed back)
type SendRec = (u64, u64, u32, Option<Result<u32, String>>);

fn core_body(c: Core) -> vsched::Body {
    Arc::new(move || {
        Box::pin(async move {
            let (cell, mut ports) = inspect::detached::<Dummy>(None).expect("cell");
            inspect::set_status(&cell, ActorStatus::Running);
            let mut senders = Vec::new();
            for s in 0..c.senders {
                let cell = cell.clone();
                senders.push(vsched::spawn("sender", async move {
                    let mut recs: Vec<SendRec> = Vec::new();
                    for k in 0..c.msgs_per_sender {
                        let m = (s * 10 + k + 1) as u32;
                        let call = vsched::call_stamp();
                        #[cfg(feature = "alt")]
                        let via_wire = c.serialized && s % 2 == 1;
                        #[cfg(not(feature = "alt"))]
                        let via_wire = false;
                        let back;
                        let ret;
                        if via_wire {
                            #[cfg(feature = "alt")]
                            {
                                use ractor::BytesConvertable;
                                let r = cell.send_serialized(ractor::message::SerializedMessage::Cast { variant: String::new(), args: m.into_bytes(), metadata: None });
                                ret = vsched::ret_stamp();
                                back = match r {
                                    Ok(()) => None,
                                    Err(e) => match *e {
                                        MessagingErr::SendErr(ractor::message::SerializedMessage::Cast { args, .. }) => Some(Ok(u32::from_bytes(args))),
                                        other => Some(Err(format!("{other:?}"))),
                                    },
                                };
                            }
                            #[cfg(not(feature = "alt"))]
                            {
                                ret = vsched::ret_stamp();
                                back = None;
                            }
                        } else {
                            let r = cell.send_message::<u32>(m);
                            ret = vsched::ret_stamp();
                            back = match r {
                                Ok(()) => None,
                                Err(MessagingErr::SendErr(x)) => Some(Ok(x)),
                                Err(e) => Some(Err(format!("{e:?}"))),
                            };
                        }
                        recs.push((call, ret, m, back));
                    }
                    recs
                }));
            }
            let mut drainers = Vec::new();
            for _ in 0..c.drainers {
                let cell = cell.clone();
                drainers.push(vsched::spawn("drainer", async move {
                    let mut recs = Vec::new();
                    for _ in 0..c.drains_per_drainer {
                        let call = vsched::call_stamp();
                        let r = cell.drain();
                        let ret = vsched::ret_stamp();
                        recs.push((call, ret, r.is_ok()));
                    }
                    recs
                }));
            }
            // wait for quiescence first: the main task then takes no part in the interleavings
            vsched::quiesce();
            let mut sends: Vec<SendRec> = Vec::new();
            for s in senders {
                sends.extend(s.await.expect("sender finished"));
            }
            let mut drains = Vec::new();
            for d in drainers {
                drains.extend(d.await.expect("drainer finished"));
            }
            // observe the mailbox
            let mut mail: Vec<String> = Vec::new();
            while let Some(m) = ports.try_recv_message() {
                match m {
                    Mail::Drain => mail.push("D".into()),
                    Mail::Message(b) => {
                        let v = <u32 as ractor::Message>::from_boxed(b).expect("u32");
                        mail.push(format!("{v}"));
                    }
                }
            }
            let mut bad = Vec::new();
            let markers = mail.iter().filter(|m| *m == "D").count();
            if markers != 1 {
                bad.push(format!("expected exactly one drain marker, mailbox = {mail:?}"));
            }
            let dpos = mail.iter().position(|m| m == "D").unwrap_or(mail.len());
            if dpos + 1 < mail.len() {
                bad.push(format!("message behind the drain marker (accepted but never processed): mailbox = {mail:?}"));
            }
            let accepted: Vec<u32> = sends.iter().filter(|s| s.3.is_none()).map(|s| s.2).collect();
            let before: Vec<u32> = mail[..dpos].iter().map(|m| m.parse().unwrap()).collect();
            let mut a = accepted.clone();
            a.sort();
            let mut b = before.clone();
            b.sort();
            if a != b {
                bad.push(format!("sends that returned Ok {accepted:?} differ from messages ahead of the marker {before:?}"));
            }
            let first_drain_ret = drains.iter().map(|d| d.1).min().unwrap_or(u64::MAX);
            for s in &sends {
                match &s.3 {
                    None if s.0 > first_drain_ret => {
                        bad.push(format!("send of {} began after drain() had returned but was accepted", s.2))
                    }
                    Some(Ok(x)) if *x != s.2 => bad.push(format!("send of {} handed back {}", s.2, x)),
                    Some(Err(e)) => bad.push(format!("send of {} failed with {e} instead of SendErr", s.2)),
                    _ => {}
                }
            }
            // per-sender order among accepted messages
            for s in 0..c.senders {
                let mine: Vec<u32> = before.iter().copied().filter(|m| (*m as usize - 1) / 10 == s).collect();
                let mut sorted = mine.clone();
                sorted.sort();
                if mine != sorted {
                    bad.push(format!("sender {s}: messages reordered in the mailbox: {mine:?}"));
                }
            }
            for d in &drains {
                if !d.2 {
                    bad.push("drain() returned Err on a live mailbox".into());
                }
            }
            if cell.get_status() != ActorStatus::Draining {
                bad.push(format!("status after drain is {:?}", cell.get_status()));
            }
            drop(ports);
            Outcome {
                key: format!(
                    "accepted={:?} mail={:?}",
                    sends.iter().map(|s| (s.2, s.3.is_none())).collect::<Vec<_>>(),
                    mail
                ),
                violations: bad,
            }
        })
    })
}

// ------------------------------------------------------------------------------------------------
// live variant: the real actor loop consumes
// ------------------------------------------------------------------------------------------------

struct Consumer {
    log: Arc<Mutex<Vec<String>>>,
    self_send: bool,
}
#[cfg_attr(feature = "alt", ractor::async_trait)]
impl Actor for Consumer {
    type Msg = u32;
    type State = ();
    type Arguments = ();
    async fn pre_start(&self, _m: ActorRef<u32>, _: ()) -> Result<(), ActorProcessingErr> {
        Ok(())
    }
    async fn handle(&self, me: ActorRef<u32>, msg: u32, _: &mut ()) -> Result<(), ActorProcessingErr> {
        self.log.lock().unwrap().push(format!("h{msg}"));
        if self.self_send && msg < 100 {
            // a handler that sends to itself: accepted iff admission is still open
            let r = me.cast(msg + 100);
            self.log.lock().unwrap().push(format!("self{}={}", msg + 100, r.is_ok()));
        }
        Ok(())
    }
    async fn post_stop(&self, _m: ActorRef<u32>, _: &mut ()) -> Result<(), ActorProcessingErr> {
        self.log.lock().unwrap().push("post_stop".into());
        Ok(())
    }
}

struct Sup {
    log: Arc<Mutex<Vec<String>>>,
}
#[cfg_attr(feature = "alt", ractor::async_trait)]
impl Actor for Sup {
    type Msg = ();
    type State = ();
    type Arguments = ();
    async fn pre_start(&self, _m: ActorRef<()>, _: ()) -> Result<(), ActorProcessingErr> {
        Ok(())
    }
    async fn handle_supervisor_evt(&self, _m: ActorRef<()>, e: SupervisionEvent, _: &mut ()) -> Result<(), ActorProcessingErr> {
        match e {
            SupervisionEvent::ActorStarted(_) => self.log.lock().unwrap().push("started".into()),
            SupervisionEvent::ActorTerminated(_, st, reason) => self
                .log
                .lock()
                .unwrap()
                .push(format!("terminated state={} reason={reason:?}", st.is_some())),
            SupervisionEvent::ActorFailed(_, e) => self.log.lock().unwrap().push(format!("failed {e}")),
            _ => {}
        }
        Ok(())
    }
}

fn live_body(senders: usize, self_send: bool, drain_and_wait: bool) -> vsched::Body {
    Arc::new(move || {
        Box::pin(async move {
            let log = Arc::new(Mutex::new(Vec::new()));
            let suplog = Arc::new(Mutex::new(Vec::new()));
            let (sup, suph) = Actor::spawn(None, Sup { log: suplog.clone() }, ()).await.expect("sup");
            let (a, h) = Actor::spawn_linked(None, Consumer { log: log.clone(), self_send }, (), sup.get_cell())
                .await
                .expect("consumer");
            let mut ss = Vec::new();
            for s in 0..senders {
                let a = a.clone();
                ss.push(vsched::spawn("sender", async move {
                    let m = (s + 1) as u32;
                    let call = vsched::call_stamp();
                    let r = a.cast(m);
                    (call, m, r.is_ok())
                }));
            }
            let a2 = a.clone();
            let d = vsched::spawn("drainer", async move {
                if drain_and_wait {
                    let r = a2.drain_and_wait(None).await;
                    let st = a2.get_status();
                    (vsched::ret_stamp(), r.is_ok(), Some(st))
                } else {
                    let r = a2.drain();
                    (vsched::ret_stamp(), r.is_ok(), None)
                }
            });
            vsched::quiesce();
            let mut sends = Vec::new();
            for s in ss {
                sends.push(s.await.expect("sender"));
            }
            let (drain_ret, drain_ok, st_after_wait) = d.await.expect("drainer");
            // the actor must stop by itself
            h.await.expect("consumer join handle");
            vsched::quiesce();
            let mut bad = Vec::new();
            if !drain_ok {
                bad.push("drain returned Err".to_string());
            }
            if let Some(st) = st_after_wait {
                if st != ActorStatus::Stopped {
                    bad.push(format!("drain_and_wait returned while status was {st:?}"));
                }
            }
            if a.get_status() != ActorStatus::Stopped {
                bad.push(format!("actor status {:?} after its join handle completed", a.get_status()));
            }
            let l = log.lock().unwrap().clone();
            for (call, m, ok) in &sends {
                let handled = l.iter().filter(|e| **e == format!("h{m}")).count();
                if *ok && handled != 1 {
                    bad.push(format!("message {m} was accepted but handled {handled} times: {l:?}"));
                }
                if !*ok && handled != 0 {
                    bad.push(format!("message {m} was rejected but handled: {l:?}"));
                }
                if *ok && *call > drain_ret {
                    bad.push(format!("send of {m} began after drain() returned but was accepted"));
                }
            }
            for e in l.iter().filter(|e| e.starts_with("self")) {
                let (m, ok) = e[4..].split_once('=').unwrap();
                let handled = l.iter().filter(|x| **x == format!("h{m}")).count();
                if ok == "true" && handled != 1 {
                    bad.push(format!("self-sent {m} accepted but handled {handled} times: {l:?}"));
                }
                if ok == "false" && handled != 0 {
                    bad.push(format!("self-sent {m} rejected but handled: {l:?}"));
                }
            }
            if l.iter().filter(|e| *e == "post_stop").count() != 1 || l.last().map(|s| s.as_str()) != Some("post_stop") {
                bad.push(format!("post_stop must run exactly once, last: {l:?}"));
            }
            let sl = suplog.lock().unwrap().clone();
            let term: Vec<&String> = sl.iter().filter(|e| e.starts_with("terminated") || e.starts_with("failed")).collect();
            if term.len() != 1 || term[0] != "terminated state=true reason=Some(\"Drained\")" {
                bad.push(format!("supervisor must see exactly one termination with reason Drained: {sl:?}"));
            }
            sup.stop(None);
            suph.await.expect("sup handle");
            Outcome {
                key: format!("sends={:?} log={l:?}", sends.iter().map(|s| (s.1, s.2)).collect::<Vec<_>>()),
                violations: bad,
            }
        })
    })
}

// ---------------------------------------------------------------------------------------------
// cluster build ("alt"): sends and drains issued re-entrantly while a message is being boxed
// ---------------------------------------------------------------------------------------------

#[cfg(not(feature = "alt"))]
fn reentrant_body(_mode: u8) -> vsched::Body {
    crate::common::wrong_build()
}

#[cfg(feature = "alt")]
mod reent {
    use super::*;
    use ractor::message::{BoxedDowncastErr, BoxedMessage};
    use ractor::ActorCell;

    /// `Nested(n, target, inner)`: while it is being boxed (its sender already holds an admission ticket) it
    /// sends `Plain(inner)` to the same actor; `DrainInside(n, target)` calls drain() from inside box_message
    pub enum RMsg {
        Plain(u32),
        Nested(u32, ActorCell, u32, Arc<Mutex<Vec<String>>>),
        DrainInside(u32, ActorCell, Arc<Mutex<Vec<String>>>),
        /// the boxing fails (the sender is admitted, then has nothing to enqueue); with `true` it first calls
        /// drain() from inside box_message, so the drainer leaves the marker to exactly this sender
        Fails(u32, ActorCell, bool, Arc<Mutex<Vec<String>>>),
        /// as `Fails`, but the boxing panics: the sender's admission ticket is released while its thread unwinds
        Panics(u32, ActorCell, bool, Arc<Mutex<Vec<String>>>),
    }
    impl RMsg {
        pub fn id(&self) -> u32 {
            match self {
                RMsg::Plain(n) | RMsg::Nested(n, ..) | RMsg::DrainInside(n, ..) | RMsg::Fails(n, ..) | RMsg::Panics(n, ..) => *n,
            }
        }
    }
    impl ractor::Message for RMsg {
        fn box_message(self, _pid: &ractor::ActorId) -> Result<BoxedMessage, BoxedDowncastErr> {
            match &self {
                RMsg::Nested(_, target, inner, log) => {
                    let r = target.send_message(RMsg::Plain(*inner));
                    log.lock().unwrap().push(format!("nested{}={}", inner, r.is_ok()));
                }
                RMsg::DrainInside(_, target, log) => {
                    let r = target.drain();
                    log.lock().unwrap().push(format!("drain-inside={}", r.is_ok()));
                }
                RMsg::Fails(_, target, drain_first, log) => {
                    if *drain_first {
                        let r = target.drain();
                        log.lock().unwrap().push(format!("drain-inside={}", r.is_ok()));
                    }
                    return Err(BoxedDowncastErr);
                }
                RMsg::Panics(_, target, drain_first, log) => {
                    if *drain_first {
                        let r = target.drain();
                        log.lock().unwrap().push(format!("drain-inside={}", r.is_ok()));
                    }
                    panic!("box_message panics");
                }
                RMsg::Plain(_) => {}
            }
            // (the fields of BoxedMessage are private: box through a carrier type with the default impl)
            Carrier(self).box_message(_pid)
        }
        fn from_boxed(m: BoxedMessage) -> Result<Self, BoxedDowncastErr> {
            Carrier::from_boxed(m).map(|c| c.0)
        }
    }
    pub struct Carrier(RMsg);
    impl ractor::Message for Carrier {}

    pub struct RConsumer {
        pub log: Arc<Mutex<Vec<String>>>,
    }
    #[ractor::async_trait]
    impl Actor for RConsumer {
        type Msg = RMsg;
        type State = ();
        type Arguments = ();
        async fn pre_start(&self, _m: ActorRef<RMsg>, _: ()) -> Result<(), ActorProcessingErr> {
            Ok(())
        }
        async fn handle(&self, _me: ActorRef<RMsg>, msg: RMsg, _: &mut ()) -> Result<(), ActorProcessingErr> {
            self.log.lock().unwrap().push(format!("h{}", msg.id()));
            Ok(())
        }
        async fn post_stop(&self, _m: ActorRef<RMsg>, _: &mut ()) -> Result<(), ActorProcessingErr> {
            self.log.lock().unwrap().push("post_stop".into());
            Ok(())
        }
    }
}

#[cfg(feature = "alt")]
fn reentrant_body(mode: u8) -> vsched::Body {
    use reent::*;
    let drain_inside = mode == 1;
    Arc::new(move || {
        Box::pin(async move {
            let log = Arc::new(Mutex::new(Vec::new()));
            let suplog = Arc::new(Mutex::new(Vec::new()));
            let (sup, suph) = Actor::spawn(None, Sup { log: suplog.clone() }, ()).await.expect("sup");
            let (a, h) = Actor::spawn_linked(None, RConsumer { log: log.clone() }, (), sup.get_cell()).await.expect("consumer");
            let mut ss = Vec::new();
            let (a1, l1) = (a.clone(), log.clone());
            ss.push(vsched::spawn("sender", async move {
                let call = vsched::call_stamp();
                let m = match mode {
                    1 => RMsg::DrainInside(1, a1.get_cell(), l1),
                    2 => RMsg::Fails(1, a1.get_cell(), true, l1),
                    3 => RMsg::Fails(1, a1.get_cell(), false, l1),
                    4 => RMsg::Panics(1, a1.get_cell(), true, l1),
                    5 => RMsg::Panics(1, a1.get_cell(), false, l1),
                    _ => RMsg::Nested(1, a1.get_cell(), 50, l1),
                };
                // (a panicking box_message unwinds through the send path; the sender survives it)
                let r = std::panic::catch_unwind(std::panic::AssertUnwindSafe(|| a1.cast(m).is_ok())).unwrap_or(false);
                (call, 1u32, r)
            }));
            let a2 = a.clone();
            ss.push(vsched::spawn("sender", async move {
                let call = vsched::call_stamp();
                let r = a2.cast(RMsg::Plain(2));
                (call, 2u32, r.is_ok())
            }));
            let a3 = a.clone();
            let d = vsched::spawn("drainer", async move {
                let r = a3.drain();
                (vsched::ret_stamp(), r.is_ok())
            });
            vsched::quiesce();
            let mut sends = Vec::new();
            for s in ss {
                sends.push(s.await.expect("sender"));
            }
            let (drain_ret, drain_ok) = d.await.expect("drainer");
            h.await.expect("consumer join handle");
            vsched::quiesce();
            let mut bad = Vec::new();
            if !drain_ok {
                bad.push("drain returned Err".to_string());
            }
            if a.get_status() != ActorStatus::Stopped {
                bad.push(format!("actor status {:?} after its join handle completed", a.get_status()));
            }
            let l = log.lock().unwrap().clone();
            for (call, m, ok) in &sends {
                let handled = l.iter().filter(|e| **e == format!("h{m}")).count();
                if *ok && handled != 1 {
                    bad.push(format!("message {m} was accepted but handled {handled} times: {l:?}"));
                }
                if !*ok && handled != 0 {
                    bad.push(format!("message {m} was rejected but handled: {l:?}"));
                }
                if *ok && *call > drain_ret {
                    bad.push(format!("send of {m} began after drain() returned but was accepted"));
                }
            }
            for e in l.iter().filter(|e| e.starts_with("nested")) {
                let (m, ok) = e[6..].split_once('=').unwrap();
                let handled = l.iter().filter(|x| **x == format!("h{m}")).count();
                if ok == "true" && handled != 1 {
                    bad.push(format!("the send issued while message 1 was being boxed was accepted but handled {handled} times: {l:?}"));
                }
                if ok == "false" && handled != 0 {
                    bad.push(format!("the send issued while message 1 was being boxed was rejected but handled: {l:?}"));
                }
            }
            if l.iter().filter(|e| *e == "post_stop").count() != 1 || l.last().map(|s| s.as_str()) != Some("post_stop") {
                bad.push(format!("post_stop must run exactly once, last: {l:?}"));
            }
            let sl = suplog.lock().unwrap().clone();
            let term: Vec<&String> = sl.iter().filter(|e| e.starts_with("terminated") || e.starts_with("failed")).collect();
            if term.len() != 1 || term[0] != "terminated state=true reason=Some(\"Drained\")" {
                bad.push(format!("supervisor must see exactly one termination with reason Drained: {sl:?}"));
            }
            sup.stop(None);
            suph.await.expect("sup handle");
            Outcome { key: format!("sends={:?} log={l:?}", sends.iter().map(|s| (s.1, s.2)).collect::<Vec<_>>()), violations: bad }
        })
    })
}

const S_KINDS: &[PointKind] = &[PointKind::Atomic, PointKind::Channel, PointKind::Other];

pub fn plan(tier: &str) -> Plan {
    let thorough = tier == "thorough";
    let core_cfg = ExecCfg {
        filter: Some(vsched::filter_roles(S_KINDS, &["sender", "drainer"])),
        fresh_thread: false,
        keep_trace: false,
        stack: 1 << 17,
        ..Default::default()
    };
    let mut units = Vec::new();
    let cores: Vec<(&str, Core, Option<usize>, usize)> = vec![
        ("core/2senders-1drainer", Core { senders: 2, msgs_per_sender: 1, drainers: 1, drains_per_drainer: 1, serialized: false }, None, 4),
        ("core/1sender2msgs-2drainers", Core { senders: 1, msgs_per_sender: 2, drainers: 2, drains_per_drainer: 1, serialized: false }, None, 4),
        ("core/2senders-drain-twice", Core { senders: 2, msgs_per_sender: 1, drainers: 1, drains_per_drainer: 2, serialized: false }, if thorough { None } else { Some(4) }, 8),
        ("core/3senders-1drainer", Core { senders: 3, msgs_per_sender: 1, drainers: 1, drains_per_drainer: 1, serialized: false }, Some(if thorough { 4 } else { 3 }), 8),
    ];
    for (name, c, bound, split) in cores {
        units.push(Unit::explore_split(Job::new(name, core_cfg.clone(), bound, core_body(c)), split));
    }
    // spurious failure of the weak CAS as an explored environment answer
    let mut weak = core_cfg.clone();
    weak.choose_labels = vec!["cas_weak"];
    units.push(Unit::explore_split(
        Job::new(
            "core/2senders-1drainer+spurious-cas",
            weak,
            Some(if thorough { 4 } else { 3 }),
            core_body(Core { senders: 2, msgs_per_sender: 1, drainers: 1, drains_per_drainer: 1, serialized: false }),
        ),
        8,
    ));
    // live consumer
    let live_cfg = ExecCfg {
        filter: Some(vsched::filter_roles(S_KINDS, &["sender", "drainer"])),
        fresh_thread: true,
        ..Default::default()
    };
    let lb = if thorough { 3 } else { 2 };
    units.push(Unit::explore_split(Job::new("live/2senders-drain", live_cfg.clone(), Some(lb), live_body(2, false, false)), 4));
    units.push(Unit::explore_split(Job::new("live/2senders-drain_and_wait", live_cfg.clone(), Some(lb), live_body(2, false, true)), 4));
    units.push(Unit::explore_split(Job::new("live/selfsend-drain", live_cfg.clone(), Some(lb), live_body(1, true, false)), 4));
    // senders that come in through ActorCell::send_serialized (what a cluster session does with a peer's cast)
    for (name, core, bound) in [
        ("alt/core/serialized+typed-1drainer", Core { senders: 2, msgs_per_sender: 1, drainers: 1, drains_per_drainer: 1, serialized: true }, None),
        ("alt/core/2serialized+typed-1drainer", Core { senders: 4, msgs_per_sender: 1, drainers: 1, drains_per_drainer: 1, serialized: true }, Some(if thorough { 3 } else { 2 })),
    ] {
        units.push(crate::common::alt_unit(name.into(), core_cfg.clone(), bound, core_body(core), 8));
    }
    // sends and drains issued re-entrantly while a message is being boxed (custom Message::box_message: only
    // possible in ractor's cluster build, so these run on the alt build of the harness)
    for (mode, name) in [(0u8, "send-while-boxing"), (1, "drain-while-boxing"), (2, "drain-while-boxing-then-boxing-fails"), (3, "boxing-fails"), (4, "drain-while-boxing-then-boxing-panics"), (5, "boxing-panics")] {
        units.push(crate::common::alt_unit(format!("alt/reentrant/{name}"), live_cfg.clone(), Some(lb + 1), reentrant_body(mode), 4));
    }
    Plan {
        property: "C07",
        units,
        rule: "stateless DFS over schedules of the real send_message/drain code: a decision point before every atomic and channel operation of senders and drainers (plus task blocking/finishing); an execution is non-trivial when it has at least one decision point with >= 2 alternatives; distinct = distinct choice vectors (DFS never repeats one)".into(),
        assumptions: vec![
            "sequential consistency: weaker orderings of the Relaxed/AcqRel accesses are not explored".into(),
            "each tokio channel / Notify operation and each std lock operation is one atomic step".into(),
            "bounds: 2-3 senders, 1-2 drainers, 1-2 operations each".into(),
            "re-entrant sends / drains from inside Message::box_message need ractor's cluster feature: those units run on the alt build of the harness".into(),
        ],
        engine: "vsched (shuttle coroutines + deviation-bounded DFS) on the real ractor code",
    }
}
