//! C11 — process groups reflect live membership and tell their monitors.
//!
//! Real `ActorCell`s without an actor task (their supervision ports are read synchronously at the
//! end, so every delivered `ProcessGroupChanged` is observed) run the real pg functions from
//! several tasks with a decision point before every DashMap / lock / atomic operation.
use std::collections::{BTreeMap, BTreeSet};
use std::sync::Arc;

use ractor::pg;
use ractor::verif::inspect::{self, DetachedPorts};
use ractor::{Actor, ActorCell, ActorId, ActorProcessingErr, ActorRef, ActorStatus, SupervisionEvent};
use vsched::explore::Job;
use vsched::report::{Plan, Unit};
use vsched::{ExecCfg, Outcome, PointKind};

struct Dummy;
#[cfg_attr(feature = "alt", ractor::async_trait)]
impl Actor for Dummy {
    type Msg = u32;
    type State = ();
    type Arguments = ();
    async fn pre_start(&self, _m: ActorRef<u32>, _: ()) -> Result<(), ActorProcessingErr> {
        Ok(())
    }
}

const DS: &str = pg::DEFAULT_SCOPE;

#[derive(Clone, Debug)]
enum Op {
    Join(&'static str, &'static str, Vec<usize>),
    Leave(&'static str, &'static str, Vec<usize>),
    Exit(usize),
    Monitor(&'static str, usize),
    MonitorScope(&'static str, usize),
    Demonitor(&'static str, usize),
    DemonitorScope(&'static str, usize),
    Members(&'static str, &'static str),
    Listing,
    /// the cell's status becomes Draining (it is still alive: it may join, leave and monitor)
    Drainify(usize),
}

#[derive(Clone, Debug)]
struct Rec {
    op: Op,
    call: u64,
    ret: u64,
    members: Vec<ActorId>,
}

#[derive(Clone, Debug)]
enum Evt {
    Join(String, String, Vec<ActorId>),
    Leave(String, String, Vec<ActorId>),
    Other,
}

fn drain_events(p: &mut DetachedPorts) -> Vec<Evt> {
    let mut v = Vec::new();
    while let Some(e) = p.try_recv_supervision() {
        v.push(match e {
            SupervisionEvent::ProcessGroupChanged(pg::GroupChangeMessage::Join(s, g, a)) => {
                Evt::Join(s, g, a.iter().map(|c| c.get_id()).collect())
            }
            SupervisionEvent::ProcessGroupChanged(pg::GroupChangeMessage::Leave(s, g, a)) => {
                Evt::Leave(s, g, a.iter().map(|c| c.get_id()).collect())
            }
            _ => Evt::Other,
        });
    }
    v
}

fn run_op(op: &Op, cells: &[ActorCell]) -> Vec<ActorId> {
    let pick = |w: &Vec<usize>| w.iter().map(|i| cells[*i].clone()).collect::<Vec<_>>();
    match op {
        Op::Join(s, g, w) => {
            if *s == DS {
                pg::join(g.to_string(), pick(w))
            } else {
                pg::join_scoped(s.to_string(), g.to_string(), pick(w))
            }
            vec![]
        }
        Op::Leave(s, g, w) => {
            if *s == DS {
                pg::leave(g.to_string(), pick(w))
            } else {
                pg::leave_scoped(s.to_string(), g.to_string(), pick(w))
            }
            vec![]
        }
        Op::Exit(w) => {
            inspect::set_status(&cells[*w], ActorStatus::Stopping);
            inspect::set_status(&cells[*w], ActorStatus::Stopped);
            vec![]
        }
        Op::Monitor(g, w) => {
            pg::monitor(g.to_string(), cells[*w].clone());
            vec![]
        }
        Op::MonitorScope(s, w) => {
            pg::monitor_scope(s.to_string(), cells[*w].clone());
            vec![]
        }
        Op::Demonitor(g, w) => {
            pg::demonitor(g.to_string(), cells[*w].get_id());
            vec![]
        }
        Op::DemonitorScope(s, w) => {
            pg::demonitor_scope(s.to_string(), cells[*w].get_id());
            vec![]
        }
        Op::Members(s, g) => {
            let m = if *s == DS { pg::get_members(&g.to_string()) } else { pg::get_scoped_members(&s.to_string(), &g.to_string()) };
            let mut v: Vec<ActorId> = m.iter().map(|c| c.get_id()).collect();
            v.sort();
            v
        }
        Op::Drainify(w) => {
            inspect::set_status(&cells[*w], ActorStatus::Draining);
            vec![]
        }
        Op::Listing => {
            let _ = pg::which_groups();
            let _ = pg::which_scopes_and_groups();
            vec![]
        }
    }
}

#[derive(Clone)]
struct Sc {
    name: &'static str,
    n_cells: usize,
    /// run by the main task before the racing tasks start
    setup: Vec<Op>,
    threads: Vec<Vec<Op>>,
    /// cells that never monitor anything and must receive nothing
    strangers: Vec<usize>,
    /// run by the main task, one after the other, once the racing tasks are done
    after: Vec<Op>,
}

/// structural agreement of all indexes, and of the six query functions with the forward map
fn structural(bad: &mut Vec<String>) {
    let snap = pg::verif_snapshot();
    let mut fwd: BTreeMap<(String, String), (Vec<ActorId>, Vec<ActorId>)> = BTreeMap::new();
    for (s, g, m, l) in &snap.groups {
        fwd.insert((s.clone(), g.clone()), (m.clone(), l.clone()));
    }
    let mut idx: BTreeSet<(String, String)> = BTreeSet::new();
    for (s, gs) in &snap.index {
        for g in gs {
            idx.insert((s.clone(), g.clone()));
        }
    }
    let with_members: BTreeSet<(String, String)> = fwd.iter().filter(|(_, v)| !v.0.is_empty()).map(|(k, _)| k.clone()).collect();
    if idx != with_members {
        bad.push(format!("scope index {idx:?} disagrees with the groups that have members {with_members:?}"));
    }
    // reverse index <-> forward tables
    let mut rev_members: BTreeSet<(ActorId, String, String)> = BTreeSet::new();
    let mut rev_gmon: BTreeSet<(ActorId, String, String)> = BTreeSet::new();
    let mut rev_wmon: BTreeSet<(ActorId, String, String)> = BTreeSet::new();
    for (a, m, gm, wm) in &snap.relations {
        for (s, g) in m {
            rev_members.insert((*a, s.clone(), g.clone()));
        }
        for (s, g) in gm {
            rev_gmon.insert((*a, s.clone(), g.clone()));
        }
        for (s, g) in wm {
            rev_wmon.insert((*a, s.clone(), g.clone()));
        }
    }
    let fwd_members: BTreeSet<_> = fwd.iter().flat_map(|((s, g), v)| v.0.iter().map(move |a| (*a, s.clone(), g.clone()))).collect();
    let fwd_gmon: BTreeSet<_> = fwd.iter().flat_map(|((s, g), v)| v.1.iter().map(move |a| (*a, s.clone(), g.clone()))).collect();
    let fwd_wmon: BTreeSet<_> = snap.world_listeners.iter().flat_map(|(s, g, l)| l.iter().map(move |a| (*a, s.clone(), g.clone()))).collect();
    if rev_members != fwd_members {
        bad.push(format!("reverse membership index {rev_members:?} != forward members {fwd_members:?}"));
    }
    if rev_gmon != fwd_gmon {
        bad.push(format!("reverse group-monitor index {rev_gmon:?} != listeners {fwd_gmon:?}"));
    }
    if rev_wmon != fwd_wmon {
        bad.push(format!("reverse scope-monitor index {rev_wmon:?} != world listeners {fwd_wmon:?}"));
    }
    // the query functions
    let ids = |v: Vec<ActorCell>| {
        let mut x: Vec<ActorId> = v.iter().map(|c| c.get_id()).collect();
        x.sort();
        x
    };
    for ((s, g), (m, _)) in &fwd {
        if ids(pg::get_scoped_members(s, g)) != *m {
            bad.push(format!("get_scoped_members({s},{g}) disagrees with the membership {m:?}"));
        }
        let local: Vec<ActorId> = m.iter().copied().filter(|a| a.is_local()).collect();
        if ids(pg::get_scoped_local_members(s, g)) != local {
            bad.push(format!("get_scoped_local_members({s},{g}) disagrees with the membership"));
        }
        if s == DS && ids(pg::get_local_members(g)) != local {
            bad.push(format!("get_local_members({g}) disagrees with the membership"));
        }
        if s == DS && ids(pg::get_members(g)) != *m {
            bad.push(format!("get_members({g}) disagrees with the membership"));
        }
    }
    let mut groups: Vec<String> = with_members.iter().map(|k| k.1.clone()).collect();
    groups.sort();
    groups.dedup();
    if pg::which_groups() != groups {
        bad.push(format!("which_groups() = {:?}, groups with members = {groups:?}", pg::which_groups()));
    }
    let mut scopes: Vec<String> = with_members.iter().map(|k| k.0.clone()).collect();
    scopes.sort();
    scopes.dedup();
    if pg::which_scopes() != scopes {
        bad.push(format!("which_scopes() = {:?}, scopes with members = {scopes:?}", pg::which_scopes()));
    }
    let mut sg: Vec<(String, String)> = pg::which_scopes_and_groups().iter().map(|k| (k.get_scope(), k.get_group())).collect();
    sg.sort();
    if sg != with_members.iter().cloned().collect::<Vec<_>>() {
        bad.push(format!("which_scopes_and_groups() = {sg:?}, expected {with_members:?}"));
    }
    for s in scopes.iter().chain([&"no-such-scope".to_string()]) {
        let mut got = pg::which_scoped_groups(s);
        got.sort();
        let want: Vec<String> = with_members.iter().filter(|k| &k.0 == s).map(|k| k.1.clone()).collect();
        if got != want {
            bad.push(format!("which_scoped_groups({s}) = {got:?}, expected {want:?}"));
        }
    }
}

fn body(sc: Sc) -> vsched::Body {
    Arc::new(move || {
        let sc = sc.clone();
        Box::pin(async move {
            let mut cells = Vec::new();
            let mut ports = Vec::new();
            for i in 0..sc.n_cells {
                // scenarios named remote-…: cell 0 carries a remote id (what a cluster session creates for a
                // peer's actor); only the cluster build can make one
                #[cfg(feature = "alt")]
                let (c, p) = if i == 0 && sc.name.starts_with("remote-") {
                    inspect::detached_remote::<Dummy>(ActorId::Remote { node_id: 7, pid: 4242 }).expect("remote cell")
                } else {
                    inspect::detached::<Dummy>(None).expect("cell")
                };
                #[cfg(not(feature = "alt"))]
                let _ = i;
                #[cfg(not(feature = "alt"))]
                let (c, p) = inspect::detached::<Dummy>(None).expect("cell");
                inspect::set_status(&c, ActorStatus::Running);
                cells.push(c);
                ports.push(p);
            }
            let mut recs: Vec<Rec> = Vec::new();
            for op in &sc.setup {
                let call = vsched::stamp();
                let members = run_op(op, &cells);
                recs.push(Rec { op: op.clone(), call, ret: vsched::stamp(), members });
            }
            let mut hs = Vec::new();
            for t in &sc.threads {
                let ops = t.clone();
                let cells = cells.clone();
                hs.push(vsched::spawn("pg", async move {
                    let mut out = Vec::new();
                    for op in &ops {
                        let call = vsched::call_stamp();
                        let members = run_op(op, &cells);
                        out.push(Rec { op: op.clone(), call, ret: vsched::ret_stamp(), members });
                    }
                    out
                }));
            }
            vsched::quiesce();
            for h in hs {
                recs.extend(h.await.expect("pg task"));
            }
            for op in &sc.after {
                let call = vsched::stamp();
                let members = run_op(op, &cells);
                recs.push(Rec { op: op.clone(), call, ret: vsched::stamp(), members });
            }
            let mut bad = Vec::new();
            let id = |i: usize| cells[i].get_id();
            // ---- Q1: an exited actor is nowhere
            let snap = pg::verif_snapshot();
            for r in recs.iter().filter(|r| matches!(r.op, Op::Exit(_))) {
                if let Op::Exit(w) = r.op {
                    let a = id(w);
                    if snap.groups.iter().any(|(_, _, m, l)| m.contains(&a) || l.contains(&a))
                        || snap.world_listeners.iter().any(|(_, _, l)| l.contains(&a))
                        || snap.relations.iter().any(|x| x.0 == a)
                    {
                        bad.push(format!("actor {a} has stopped but pg still knows it: {snap:?}"));
                    }
                }
            }
            // ---- Q2/Q3
            structural(&mut bad);
            // ---- Q4: every get_members result is explained by some instant between call and return
            for q in recs.iter().filter(|r| matches!(r.op, Op::Members(..))) {
                let Op::Members(s, g) = &q.op else { continue };
                for (i, c) in cells.iter().enumerate() {
                    let a = c.get_id();
                    let adds: Vec<&Rec> = recs.iter().filter(|r| matches!(&r.op, Op::Join(s2, g2, w) if s2 == s && g2 == g && w.contains(&i))).collect();
                    let removes: Vec<&Rec> = recs
                        .iter()
                        .filter(|r| matches!(&r.op, Op::Leave(s2, g2, w) if s2 == s && g2 == g && w.contains(&i)) || matches!(&r.op, Op::Exit(w) if *w == i))
                        .collect();
                    let present = q.members.contains(&a);
                    // definitely out: never joined before the query ended, or a removal completed before
                    // the query began and every join completed before that removal began
                    let never = adds.iter().all(|j| j.call > q.ret);
                    let removed = removes.iter().any(|r| r.ret < q.call && adds.iter().all(|j| j.ret < r.call));
                    if present && (never || removed) {
                        bad.push(format!("get_members({s},{g}) returned {a}, which was not a member at any instant of the call"));
                    }
                    // definitely in: a join completed before the query began and no removal began before
                    // the query ended
                    let joined = adds.iter().any(|j| j.ret < q.call) && removes.iter().all(|r| r.call > q.ret);
                    let exited_before_join = adds.iter().all(|j| removes.iter().any(|r| matches!(r.op, Op::Exit(_)) && r.call < j.ret));
                    if !present && joined && !exited_before_join {
                        bad.push(format!("get_members({s},{g}) missed {a}, which was a member during the whole call"));
                    }
                }
            }
            // ---- a join that began after the exit completed never adds
            // (covered by Q1) ---- monitors
            let mut events: Vec<Vec<Evt>> = ports.iter_mut().map(drain_events).collect();
            for s in &sc.strangers {
                if !events[*s].is_empty() {
                    bad.push(format!("cell {} never monitored anything but received {:?}", id(*s), events[*s]));
                }
            }
            // monitors installed by the setup and never removed: what they must have seen
            let monitors: Vec<(usize, Option<&'static str>, &'static str)> = sc
                .setup
                .iter()
                .filter_map(|o| match o {
                    Op::Monitor(g, w) => Some((*w, Some(*g), DS)),
                    Op::MonitorScope(s, w) => Some((*w, None, *s)),
                    _ => None,
                })
                .filter(|(w, g, s)| {
                    !recs.iter().any(|r| match &r.op {
                        Op::Demonitor(g2, w2) => w2 == w && Some(*g2) == *g,
                        Op::DemonitorScope(s2, w2) => w2 == w && s2 == s && g.is_none(),
                        Op::Exit(w2) => w2 == w,
                        _ => false,
                    })
                })
                .collect();
            for (m, mg, ms) in &monitors {
                let evs = &events[*m];
                let matches_scope = |s: &str| *ms == pg::ALL_SCOPES_NOTIFICATION || s == *ms;
                for e in evs {
                    match e {
                        Evt::Join(s, g, _) | Evt::Leave(s, g, _) => {
                            if !matches_scope(s) || mg.is_some_and(|x| x != g) {
                                bad.push(format!("monitor {} of {:?}/{} received an event for {s}/{g}", id(*m), mg, ms));
                            }
                        }
                        Evt::Other => bad.push(format!("monitor {} received a non-pg supervision event", id(*m))),
                    }
                }
                // per (scope, group, actor) the monitor saw: joins and leaves naming the actor, in order
                let mut keys: BTreeSet<(String, String, usize)> = BTreeSet::new();
                for r in &recs {
                    match &r.op {
                        Op::Join(s, g, w) | Op::Leave(s, g, w) => {
                            for i in w {
                                keys.insert((s.to_string(), g.to_string(), *i));
                            }
                        }
                        _ => {}
                    }
                }
                for (s, g, i) in keys {
                    if !matches_scope(&s) || mg.is_some_and(|x| x != g) {
                        continue;
                    }
                    let a = id(i);
                    let seq: Vec<bool> = evs
                        .iter()
                        .filter_map(|e| match e {
                            Evt::Join(s2, g2, who) if *s2 == s && *g2 == g && who.contains(&a) => Some(true),
                            Evt::Leave(s2, g2, who) if *s2 == s && *g2 == g && who.contains(&a) => Some(false),
                            _ => None,
                        })
                        .collect();
                    let joins: Vec<&Rec> = recs.iter().filter(|r| matches!(&r.op, Op::Join(s2, g2, w) if *s2 == s && *g2 == g && w.contains(&i))).collect();
                    let leaves: Vec<&Rec> = recs.iter().filter(|r| matches!(&r.op, Op::Leave(s2, g2, w) if *s2 == s && *g2 == g && w.contains(&i))).collect();
                    let exit = recs.iter().find(|r| matches!(&r.op, Op::Exit(w) if *w == i));
                    let is_member_now = snap.groups.iter().any(|(s2, g2, m2, _)| *s2 == s && *g2 == g && m2.contains(&a));
                    // a join that completed before any removal began was effective: it must be reported
                    // (only joins that began after this monitor was installed count)
                    let installed_at = recs
                        .iter()
                        .find(|r| match &r.op {
                            Op::Monitor(g2, w2) => w2 == m && Some(*g2) == *mg,
                            Op::MonitorScope(s2, w2) => w2 == m && s2 == ms && mg.is_none(),
                            _ => false,
                        })
                        .map(|r| r.ret)
                        .unwrap_or(0);
                    let surely_joined = joins.iter().any(|j| j.call > installed_at && leaves.iter().all(|l| l.call > j.ret) && exit.is_none_or(|x| x.call > j.ret));
                    if surely_joined && !seq.contains(&true) {
                        bad.push(format!("monitor {} missed the join of {a} to {s}/{g}; it saw {evs:?}", id(*m)));
                    }
                    // whoever was added and is gone now must have been reported leaving, after the join
                    // (notifications are sent after the tables are unlocked, so their relative order at
                    // the monitor is not promised: only presence is checked)
                    if seq.contains(&true) && !is_member_now && !seq.contains(&false) {
                        bad.push(format!("monitor {} saw {a} join {s}/{g} but never saw it leave, although it is no longer a member; events {evs:?}", id(*m)));
                    }
                    // the automatic leave on exit is reported exactly once when no explicit leave races
                    if let Some(x) = exit {
                        if leaves.is_empty() && joins.iter().any(|j| j.ret < x.call) {
                            let n = seq.iter().filter(|b| !**b).count();
                            if n != 1 {
                                bad.push(format!("exit of {a}: monitor {} saw {n} Leave events for {s}/{g} instead of one; events {evs:?}", id(*m)));
                            }
                        }
                    }
                    // a leave reported without a preceding join: impossible
                    if seq.contains(&false) {
                        let pre_member = sc.setup.iter().any(|o| matches!(o, Op::Join(s2, g2, w) if *s2 == s && *g2 == g && w.contains(&i)));
                        if !seq.contains(&true) && exit.is_some() && leaves.is_empty() && !pre_member {
                            bad.push(format!("monitor {} saw the exit-leave of {a} from {s}/{g} but never its join; events {evs:?}", id(*m)));
                        }
                    }
                }
            }
            // ---- monitors that come or go while a member exits: the recipients of the exit-leave are the
            // monitors at the moment the member is taken out. A task that has SEEN the member gone (through
            // get_members) and then removes a monitor does not take the Leave away from it; one that then
            // installs a monitor does not earn it a Leave.
            let racing = &recs[sc.setup.len().min(recs.len())..];
            let mut pairs: BTreeSet<(&'static str, usize)> = BTreeSet::new();
            for r in racing {
                match &r.op {
                    Op::Monitor(g, w) | Op::Demonitor(g, w) => {
                        pairs.insert((*g, *w));
                    }
                    _ => {}
                }
            }
            for (g, mi) in pairs {
                let in_setup = sc.setup.iter().any(|o| matches!(o, Op::Monitor(g2, w) if *g2 == g && *w == mi));
                let mons: Vec<&Rec> = racing.iter().filter(|r| matches!(&r.op, Op::Monitor(g2, w) if *g2 == g && *w == mi)).collect();
                let demons: Vec<&Rec> = racing.iter().filter(|r| matches!(&r.op, Op::Demonitor(g2, w) if *g2 == g && *w == mi)).collect();
                if recs.iter().any(|r| matches!(&r.op, Op::Exit(w) if *w == mi)) {
                    continue;
                }
                for x in recs.iter().filter(|r| matches!(r.op, Op::Exit(_))) {
                    let Op::Exit(i) = x.op else { continue };
                    let a = id(i);
                    let pre_member = sc.setup.iter().any(|o| matches!(o, Op::Join(s2, g2, w) if *s2 == DS && *g2 == g && w.contains(&i)));
                    let other_ops = racing.iter().any(|r| matches!(&r.op, Op::Join(s2, g2, w) | Op::Leave(s2, g2, w) if *s2 == DS && *g2 == g && w.contains(&i)));
                    if !pre_member || other_ops {
                        continue;
                    }
                    let gone_seen_before = |t: u64| recs.iter().any(|q| matches!(&q.op, Op::Members(s2, g2) if *s2 == DS && *g2 == g) && !q.members.contains(&a) && q.ret < t);
                    let leaves_seen = events[mi].iter().filter(|e| matches!(e, Evt::Leave(s2, g2, who) if s2 == DS && g2 == g && who.contains(&a))).count();
                    if in_setup && mons.is_empty() && demons.len() == 1 && gone_seen_before(demons[0].call) && leaves_seen != 1 {
                        bad.push(format!("{} monitored {g} when {a} exited (its demonitor began after {a} had been seen gone) but received {leaves_seen} Leave events for it; events {:?}", id(mi), events[mi]));
                    }
                    if !in_setup && demons.is_empty() && mons.len() == 1 && gone_seen_before(mons[0].call) && leaves_seen != 0 {
                        bad.push(format!("{} began to monitor {g} only after {a} had been seen gone from it, yet received a Leave for {a}; events {:?}", id(mi), events[mi]));
                    }
                }
            }
            // ---- a monitor installed while a join is under way. A membership query that BEGAN after the installation
            // had returned and did not list the actor yet proves that the join took effect after the installation:
            // the monitor was monitoring when the join took effect and is owed the Join (only judged when nothing
            // else touches that membership and the actor is a member in the end)
            for inst in recs.iter() {
                let (m, mg, ms): (usize, Option<&'static str>, &'static str) = match &inst.op {
                    Op::Monitor(g, w) => (*w, Some(*g), DS),
                    Op::MonitorScope(s, w) => (*w, None, *s),
                    _ => continue,
                };
                let removed = recs.iter().any(|r| match &r.op {
                    Op::Demonitor(g2, w2) => *w2 == m && Some(*g2) == mg,
                    Op::DemonitorScope(s2, w2) => *w2 == m && *s2 == ms && mg.is_none(),
                    Op::Exit(w2) | Op::Drainify(w2) => *w2 == m,
                    _ => false,
                });
                if removed {
                    continue;
                }
                for (jx, j) in recs.iter().enumerate() {
                    let Op::Join(s, g, w) = &j.op else { continue };
                    if !(ms == pg::ALL_SCOPES_NOTIFICATION || *s == ms) || mg.is_some_and(|x| x != *g) {
                        continue;
                    }
                    for i in w.iter().collect::<BTreeSet<_>>() {
                        let a = id(*i);
                        let others = recs.iter().enumerate().any(|(rx, r)| match &r.op {
                            Op::Leave(s2, g2, w2) => s2 == s && g2 == g && w2.contains(i),
                            Op::Join(s2, g2, w2) => s2 == s && g2 == g && w2.contains(i) && rx != jx,
                            Op::Exit(w2) | Op::Drainify(w2) => w2 == i,
                            _ => false,
                        });
                        let is_member_now = snap.groups.iter().any(|(s2, g2, m2, _)| s2 == s && g2 == g && m2.contains(&a));
                        if others || !is_member_now {
                            continue;
                        }
                        let proof = recs.iter().any(|q| matches!(&q.op, Op::Members(s2, g2) if s2 == s && g2 == g) && q.call > inst.ret && !q.members.contains(&a));
                        let told = events[m].iter().any(|e| matches!(e, Evt::Join(s2, g2, who) if s2 == s && g2 == g && who.contains(&a)));
                        if proof && !told {
                            bad.push(format!(
                                "monitor {} of {:?}/{} was installed (returned at #{}) before {a} became a member of {s}/{g} (a query that began later did not list it yet), but never received the Join; events {:?}",
                                id(m), mg, ms, inst.ret, events[m]
                            ));
                        }
                    }
                }
            }
            // ---- clean up for the next execution
            let key = format!(
                "groups={:?} events={:?}",
                snap.groups.iter().map(|(s, g, m, l)| format!("{s}/{g}:{}m{}l", m.len(), l.len())).collect::<Vec<_>>(),
                events.iter().map(|e| e.len()).collect::<Vec<_>>()
            );
            for c in &cells {
                inspect::set_status(c, ActorStatus::Stopped);
            }
            events.clear();
            drop(ports);
            let left = pg::verif_snapshot();
            if !(left.groups.is_empty() && left.index.is_empty() && left.world_listeners.is_empty() && left.relations.is_empty()) {
                bad.push(format!("after every actor stopped pg is not empty: {left:?}"));
            }
            Outcome { key, violations: bad }
        })
    })
}

fn scenarios() -> Vec<(Sc, Option<usize>, usize)> {
    let a = 0usize;
    let b = 1usize;
    let m = 2usize;
    let mw = 3usize;
    let n = 4usize;
    let all = pg::ALL_SCOPES_NOTIFICATION;
    vec![
        (
            Sc { name: "join-vs-exit", n_cells: 5, setup: vec![Op::Monitor("g", m), Op::MonitorScope(all, mw)], threads: vec![vec![Op::Join(DS, "g", vec![a])], vec![Op::Exit(a)]], strangers: vec![n, b], after: vec![] },
            None,
            8,
        ),
        (
            // the exiting actor is the last member of a group that somebody else joins at the same time
            Sc { name: "sole-member-exits-vs-other-joins", n_cells: 5, setup: vec![Op::Join(DS, "g", vec![a]), Op::Join("s", "g", vec![a]), Op::Monitor("g", m)], threads: vec![vec![Op::Exit(a)], vec![Op::Join(DS, "g", vec![b]), Op::Join("s", "g", vec![b])]], strangers: vec![n], after: vec![] },
            None,
            8,
        ),
        (
            Sc { name: "sole-member-leaves-vs-other-joins-vs-query", n_cells: 5, setup: vec![Op::Join("s", "g", vec![a]), Op::MonitorScope("s", mw)], threads: vec![vec![Op::Leave("s", "g", vec![a])], vec![Op::Join("s", "g", vec![b])], vec![Op::Members("s", "g"), Op::Listing]], strangers: vec![n], after: vec![] },
            Some(3),
            8,
        ),
        (
            Sc { name: "join-vs-exit-vs-monitor", n_cells: 5, setup: vec![], threads: vec![vec![Op::Join(DS, "g", vec![a])], vec![Op::Exit(a)], vec![Op::Monitor("g", m)]], strangers: vec![n, b], after: vec![] },
            Some(3),
            8,
        ),
        (
            Sc { name: "scoped-join-dups-vs-leave-vs-query", n_cells: 5, setup: vec![Op::MonitorScope("s", m)], threads: vec![vec![Op::Join("s", "g", vec![a, a, b])], vec![Op::Leave("s", "g", vec![a])], vec![Op::Members("s", "g"), Op::Members("s", "g")]], strangers: vec![n], after: vec![] },
            Some(3),
            8,
        ),
        (
            Sc { name: "two-groups-vs-exit", n_cells: 5, setup: vec![Op::Monitor("g", m), Op::MonitorScope(DS, mw)], threads: vec![vec![Op::Join(DS, "g", vec![a])], vec![Op::Join(DS, "h", vec![a, b])], vec![Op::Exit(a)]], strangers: vec![n], after: vec![] },
            Some(3),
            8,
        ),
        (
            Sc { name: "monitor-exits", n_cells: 5, setup: vec![Op::Join(DS, "g", vec![b])], threads: vec![vec![Op::Monitor("g", a), Op::MonitorScope("s", a)], vec![Op::Exit(a)], vec![Op::Leave(DS, "g", vec![b]), Op::Join("s", "g", vec![b])]], strangers: vec![n, m], after: vec![] },
            Some(3),
            8,
        ),
        (
            Sc { name: "leave-vs-join-vs-listing", n_cells: 5, setup: vec![Op::Join(DS, "g", vec![a]), Op::Monitor("g", m)], threads: vec![vec![Op::Leave(DS, "g", vec![a])], vec![Op::Join(DS, "g", vec![a])], vec![Op::Listing, Op::Members(DS, "g")]], strangers: vec![n], after: vec![] },
            Some(3),
            8,
        ),
        // a racing operation empties the actor's reverse-index entry while it is being joined elsewhere; the
        // actor exits afterwards and must be gone from the group it joined
        (
            Sc { name: "demonitor-vs-join-then-exit", n_cells: 5, setup: vec![Op::Monitor("h", a)], threads: vec![vec![Op::Demonitor("h", a)], vec![Op::Join(DS, "g", vec![a])]], strangers: vec![n, b], after: vec![Op::Exit(a)] },
            None,
            8,
        ),
        (
            Sc { name: "demonitor_scope-vs-join-then-exit", n_cells: 5, setup: vec![Op::MonitorScope("s", a), Op::Monitor("g", m)], threads: vec![vec![Op::DemonitorScope("s", a)], vec![Op::Join("s", "g", vec![a, b])]], strangers: vec![n], after: vec![Op::Exit(a), Op::Members("s", "g")] },
            None,
            8,
        ),
        (
            Sc { name: "leave-vs-join-other-group-then-exit", n_cells: 5, setup: vec![Op::Join(DS, "h", vec![a]), Op::Monitor("g", m)], threads: vec![vec![Op::Leave(DS, "h", vec![a])], vec![Op::Join(DS, "g", vec![a])]], strangers: vec![n, b], after: vec![Op::Exit(a), Op::Listing] },
            None,
            8,
        ),
        // two groups of ONE scope share that scope's index entry: the last member of one leaves (or exits) while
        // the first member of the other joins
        (
            Sc { name: "last-leaves-g1-vs-first-joins-g2-same-scope", n_cells: 5, setup: vec![Op::Join("s", "g1", vec![a]), Op::MonitorScope("s", mw)], threads: vec![vec![Op::Leave("s", "g1", vec![a])], vec![Op::Join("s", "g2", vec![b])]], strangers: vec![n, m], after: vec![Op::Listing, Op::Members("s", "g2")] },
            None,
            8,
        ),
        (
            Sc { name: "last-exits-g1-vs-first-joins-g2-same-scope", n_cells: 5, setup: vec![Op::Join(DS, "g1", vec![a]), Op::Monitor("g2", m)], threads: vec![vec![Op::Exit(a)], vec![Op::Join(DS, "g2", vec![b])], vec![Op::Listing]], strangers: vec![n], after: vec![Op::Members(DS, "g2")] },
            Some(3),
            8,
        ),
        // a draining actor is alive: its joins and monitors take effect like anybody else's
        (
            Sc { name: "draining-actor-joins-and-monitors", n_cells: 5, setup: vec![Op::Drainify(a), Op::Drainify(mw), Op::Monitor("g", m), Op::Monitor("h", a), Op::MonitorScope("s", mw)], threads: vec![vec![Op::Join(DS, "g", vec![a, b]), Op::Members(DS, "g")], vec![Op::Join("s", "h", vec![a]), Op::Join(DS, "h", vec![b])]], strangers: vec![n], after: vec![Op::Members(DS, "g"), Op::Members("s", "h"), Op::Leave("s", "h", vec![a])] },
            None,
            8,
        ),
        // a member of two groups exits; another task watches it disappear and then removes / installs monitors
        (
            Sc { name: "exit-from-two-groups-vs-seen-gone-then-demonitor", n_cells: 5, setup: vec![Op::Join(DS, "g", vec![a]), Op::Join(DS, "h", vec![a]), Op::Monitor("g", m), Op::Monitor("h", m)], threads: vec![vec![Op::Exit(a)], vec![Op::Members(DS, "g"), Op::Demonitor("g", m), Op::Members(DS, "h"), Op::Demonitor("h", m)]], strangers: vec![n, b], after: vec![] },
            None,
            8,
        ),
        (
            Sc { name: "exit-from-two-groups-vs-seen-gone-then-monitor", n_cells: 5, setup: vec![Op::Join(DS, "g", vec![a]), Op::Join(DS, "h", vec![a])], threads: vec![vec![Op::Exit(a)], vec![Op::Members(DS, "g"), Op::Monitor("g", m), Op::Members(DS, "h"), Op::Monitor("h", mw)]], strangers: vec![n, b], after: vec![] },
            None,
            8,
        ),
        (
            Sc { name: "scope-monitor-installed-during-join", n_cells: 5, setup: vec![], threads: vec![vec![Op::MonitorScope("s", mw), Op::Members("s", "g")], vec![Op::Join("s", "g", vec![a, b])]], strangers: vec![n, m], after: vec![Op::Members("s", "g")] },
            None,
            8,
        ),
        (
            Sc { name: "world-monitor-installed-during-join", n_cells: 5, setup: vec![], threads: vec![vec![Op::MonitorScope(pg::ALL_SCOPES_NOTIFICATION, mw), Op::Members(DS, "g")], vec![Op::Join(DS, "g", vec![a])]], strangers: vec![n, m, b], after: vec![] },
            None,
            8,
        ),
        (
            Sc { name: "group-monitor-installed-during-join", n_cells: 5, setup: vec![], threads: vec![vec![Op::Monitor("g", m), Op::Members(DS, "g")], vec![Op::Join(DS, "g", vec![a, b])]], strangers: vec![n, mw], after: vec![] },
            None,
            8,
        ),
        (
            Sc { name: "scope-monitor-installed-during-join-vs-second-join", n_cells: 5, setup: vec![Op::Join("s", "h", vec![b])], threads: vec![vec![Op::MonitorScope("s", mw), Op::Members("s", "g")], vec![Op::Join("s", "g", vec![a])], vec![Op::Join("s", "g", vec![b])]], strangers: vec![n, m], after: vec![] },
            Some(3),
            8,
        ),
        (
            Sc { name: "demonitor-vs-join-vs-exit", n_cells: 5, setup: vec![Op::Monitor("g", m), Op::MonitorScope(DS, mw)], threads: vec![vec![Op::Demonitor("g", m), Op::DemonitorScope(DS, mw)], vec![Op::Join(DS, "g", vec![a, b])], vec![Op::Exit(b)]], strangers: vec![n], after: vec![] },
            Some(3),
            8,
        ),
    ]
}

const S_KINDS: &[PointKind] = &[PointKind::Atomic, PointKind::Lock, PointKind::Map, PointKind::Other];

pub fn plan(tier: &str) -> Plan {
    let thorough = tier == "thorough";
    let cfg = ExecCfg {
        filter: Some(vsched::filter_roles(S_KINDS, &["pg"])),
        keep_trace: false,
        stack: 1 << 18,
        ..Default::default()
    };
    let mut units = Vec::new();
    // a member with a remote id (cluster build): it joins, is listed by get_members but not by
    // get_local_members, leaves by exiting like any other
    {
        let (a, b, m, mw, n) = (0usize, 1usize, 2usize, 3usize, 4usize);
        for sc in [
            Sc { name: "remote-member-stays-vs-local-leaves", n_cells: 5, setup: vec![Op::MonitorScope("s", mw)], threads: vec![vec![Op::Join("s", "g", vec![a, a, b])], vec![Op::Leave("s", "g", vec![b]), Op::Members("s", "g")]], strangers: vec![n, m], after: vec![Op::Listing] },
            Sc { name: "remote-member-exits-vs-local-joins", n_cells: 5, setup: vec![Op::Join(DS, "g", vec![a]), Op::Join(DS, "h", vec![a, b]), Op::Monitor("g", m)], threads: vec![vec![Op::Exit(a)], vec![Op::Members(DS, "g"), Op::Join(DS, "g", vec![b])]], strangers: vec![n], after: vec![Op::Listing] },
            Sc { name: "remote-member-join-vs-exit", n_cells: 5, setup: vec![Op::Monitor("g", m), Op::MonitorScope(pg::ALL_SCOPES_NOTIFICATION, mw)], threads: vec![vec![Op::Join(DS, "g", vec![a, b])], vec![Op::Exit(a)]], strangers: vec![n], after: vec![] },
        ] {
            units.push(crate::common::alt_unit(format!("alt/pg/{}", sc.name), cfg.clone(), None, body(sc), 8));
        }
    }
    for (sc, bound, split) in scenarios() {
        let bound = match (bound, thorough) {
            (None, _) => None,
            (Some(b), true) => Some(b + 1),
            (Some(b), false) => Some(b),
        };
        units.push(Unit::explore_split(Job::new(format!("pg/{}", sc.name), cfg.clone(), bound, body(sc)), split));
    }
    Plan {
        property: "C11",
        units,
        rule: "2-3 tasks run the real pg::join/leave/monitor/demonitor/query functions and the real exit path (set_status -> demonitor_all, leave_all) on shared groups, with a decision point before every DashMap, lock, atomic and supervision-port operation; complete tree with sleep sets for join-vs-exit, deviation-bounded for the 3-task scenarios; oracle: stopped actors are nowhere, forward map / scope index / listener tables / reverse index agree, the six query functions agree with the forward map, every get_members result is explained by an instant of its call, monitors (real supervision ports read at the end) saw each effective join/leave/exit-leave with the right scope, group and actor and nobody else saw anything; non-trivial = execution with >= 1 branching decision".into(),
        assumptions: vec![
            "sequential consistency; a DashMap shard held across a scheduling point is waited for cooperatively; iter() is an atomic snapshot".into(),
            "redundant notifications for no-op joins/leaves are not flagged".into(),
        ],
        engine: "vsched (shuttle coroutines + DFS with sleep sets / deviation bound) on the real ractor code",
    }
}
