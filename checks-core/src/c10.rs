//! C10 — a name maps to at most one live actor and is released on exit.
use std::sync::Arc;

use ractor::verif::inspect;
use ractor::{Actor, ActorProcessingErr, ActorRef, ActorStatus, SpawnErr};
use vsched::explore::Job;
use vsched::report::{Plan, Unit};
use vsched::{ExecCfg, Outcome, PointKind};

use crate::common::*;

struct Dummy;
#[cfg_attr(feature = "alt", ractor::async_trait)]
impl Actor for Dummy {
    type Msg = u32;
    type State = ();
    type Arguments = ();
    async fn pre_start(&self, _m: ActorRef<u32>, _: ()) -> Result<(), ActorProcessingErr> {
        Ok(())
    }
}

// ---------------------------------------------------------------------------------------------
// core: registration / lookup / exit path on detached cells, complete interleaving tree
// ---------------------------------------------------------------------------------------------

fn core_body(registrants: usize, with_exit: bool, lookups: usize) -> vsched::Body {
    Arc::new(move || {
        Box::pin(async move {
            // an actor that already holds the name and exits during the race
            let holder = if with_exit {
                let (c, p) = inspect::detached::<Dummy>(Some("N".into())).expect("holder");
                inspect::set_status(&c, ActorStatus::Running);
                Some((c, p))
            } else {
                None
            };
            let holder_id = holder.as_ref().map(|h| h.0.get_id());
            let mut regs = Vec::new();
            for _ in 0..registrants {
                regs.push(vsched::spawn("spawner", async move {
                    let call = vsched::call_stamp();
                    let r = inspect::detached::<Dummy>(Some("N".into()));
                    let ret = vsched::ret_stamp();
                    match r {
                        Ok((c, p)) => {
                            inspect::set_status(&c, ActorStatus::Running);
                            (call, ret, Some((c, p)), None)
                        }
                        Err(e) => (call, ret, None, Some(format!("{e}"))),
                    }
                }));
            }
            let mut looks = Vec::new();
            for _ in 0..lookups {
                looks.push(vsched::spawn("lookup", async move {
                    let call = vsched::call_stamp();
                    let r = ractor::registry::where_is("N").map(|c| c.get_id());
                    let ret = vsched::ret_stamp();
                    (call, ret, r)
                }));
            }
            let exit = holder.as_ref().map(|(c, _)| {
                let c = c.clone();
                vsched::spawn("closer", async move {
                    let call = vsched::call_stamp();
                    inspect::set_status(&c, ActorStatus::Stopping);
                    let mid = vsched::ret_stamp();
                    inspect::set_status(&c, ActorStatus::Stopped);
                    let ret = vsched::ret_stamp();
                    (call, mid, ret)
                })
            });
            vsched::quiesce();
            let mut results = Vec::new();
            for r in regs {
                results.push(r.await.expect("spawner"));
            }
            let mut lres = Vec::new();
            for l in looks {
                lres.push(l.await.expect("lookup"));
            }
            let exit = match exit {
                Some(e) => e.await,
                None => None,
            };
            let mut bad = Vec::new();
            let winners: Vec<_> = results.iter().filter(|r| r.2.is_some()).collect();
            let win_ids: Vec<_> = winners.iter().map(|w| w.2.as_ref().unwrap().0.get_id()).collect();
            for r in results.iter().filter(|r| r.2.is_none()) {
                let e = r.3.clone().unwrap_or_default();
                if !e.contains("already registered") && !e.to_lowercase().contains("already") {
                    bad.push(format!("a losing registration failed with {e:?} instead of ActorAlreadyRegistered"));
                }
            }
            if !with_exit {
                if winners.len() != 1 {
                    bad.push(format!("{} of {registrants} concurrent registrations of the same name succeeded", winners.len()));
                }
            } else {
                // while the holder has not begun to stop nobody else may get the name
                let (xcall, _mid, _xret) = exit.expect("exit ran");
                for w in &winners {
                    if w.1 < xcall {
                        bad.push("a registration succeeded while the previous holder was still running".into());
                    }
                }
                if winners.len() > 1 {
                    bad.push(format!("{} registrations succeeded for one released name", winners.len()));
                }
                // a registration that began after the holder's exit finished must succeed (if it is the only one)
                let (_, _, xret) = exit.unwrap();
                if winners.is_empty() && results.iter().any(|r| r.0 > xret) {
                    bad.push("the name was not released: a registration that began after the exit completed still failed".into());
                }
            }
            // lookups: only a current holder, never a loser, never the holder after its exit completed
            let snap = ractor::registry::verif_snapshot();
            for (call, ret, r) in &lres {
                match r {
                    None => {
                        // must not be None if some holder was registered during the whole lookup
                        if !with_exit {
                            if let Some(w) = winners.first() {
                                if w.1 < *call {
                                    bad.push("where_is returned None although the successful registration had already returned".into());
                                }
                            }
                        }
                    }
                    Some(id) => {
                        let known = win_ids.contains(id) || Some(*id) == holder_id;
                        if !known {
                            bad.push(format!("where_is returned {id}, which never held the name"));
                        }
                        if let (Some(h), Some((_, _, xret))) = (holder_id, exit) {
                            if *id == h && *call > xret {
                                bad.push("where_is returned an actor whose exit (and therefore wait()) had already completed".into());
                            }
                        }
                        let _ = ret;
                    }
                }
            }
            // final table
            let expect: Vec<_> = win_ids.iter().map(|i| ("N".to_string(), *i)).collect();
            if snap != expect {
                bad.push(format!("registry holds {snap:?}, expected {expect:?}"));
            }
            let n_winners = winners.len();
            drop(winners);
            // release everything for the next execution
            for r in results {
                if let Some((c, p)) = r.2 {
                    inspect::set_status(&c, ActorStatus::Stopped);
                    drop(p);
                }
            }
            Outcome {
                key: format!(
                    "winners={} lookups={:?} exit={}",
                    n_winners,
                    lres.iter().map(|l| l.2.map(|i| i.to_string())).collect::<Vec<_>>(),
                    with_exit
                ),
                violations: bad,
            }
        })
    })
}

// ---------------------------------------------------------------------------------------------
// live: real spawns, exits, respawn after wait()
// ---------------------------------------------------------------------------------------------

#[derive(Clone, Copy, Debug, PartialEq, Eq)]
enum Exit {
    Stop,
    Kill,
    FailedStart,
}

fn live_body(exit: Exit) -> vsched::Body {
    live_body_x(exit, false)
}

/// `linked`: the racing spawns are spawn_linked under a supervisor S, which must hear nothing of the loser
fn live_body_x(exit: Exit, linked: bool) -> vsched::Body {
    Arc::new(move || {
        Box::pin(async move {
            let log = Log::default();
            let mut bad: Vec<String> = Vec::new();
            let (sup, suph) = Actor::spawn(None, Probe, args("S", Prog::default(), &log)).await.expect("S");
            // phase 1: two spawns race for the name, a third actor takes a private name
            let mk = |id: &'static str, fail: bool| {
                let log = log.clone();
                let sup = sup.clone();
                vsched::spawn("spawner", async move {
                    let prog = Prog {
                        pre_start: if fail { vec![Step::Yield, Step::Err("no")] } else { vec![Step::Yield] },
                        ..Default::default()
                    };
                    let call = vsched::call_stamp();
                    let r = if linked {
                        Actor::spawn_linked(Some("N".into()), Probe, args(id, prog, &log), sup.get_cell()).await
                    } else {
                        Actor::spawn(Some("N".into()), Probe, args(id, prog, &log)).await
                    };
                    let ret = vsched::ret_stamp();
                    (id, call, ret, r)
                })
            };
            let s1 = mk("A1", exit == Exit::FailedStart);
            let s2 = mk("A2", false);
            let lk = vsched::spawn("lookup", async move {
                let call = vsched::call_stamp();
                let r = ractor::registry::where_is("N").map(|c| c.get_id());
                (call, vsched::ret_stamp(), r)
            });
            vsched::quiesce();
            let r1 = s1.await.expect("s1");
            let r2 = s2.await.expect("s2");
            let look = lk.await.expect("lookup");
            let mut live: Vec<(&str, ActorRef<PMsg>, ractor::concurrency::JoinHandle<()>)> = Vec::new();
            let mut errs = Vec::new();
            for (id, _c, _r, res) in [r1, r2] {
                match res {
                    Ok((a, h)) => live.push((id, a, h)),
                    Err(e) => errs.push((id, e)),
                }
            }
            if exit != Exit::FailedStart {
                if live.len() != 1 {
                    bad.push(format!("{} of 2 concurrent spawns with the same name succeeded", live.len()));
                }
                for (id, e) in &errs {
                    if !matches!(e, SpawnErr::ActorAlreadyRegistered(n) if n == "N") {
                        bad.push(format!("{id}: losing spawn failed with {e} instead of ActorAlreadyRegistered"));
                    }
                    if log.of(id).iter().any(|_| true) {
                        bad.push(format!("{id}: a callback of the losing spawn ran"));
                    }
                }
            } else {
                // A1's pre_start fails: A2 wins only if it registered first or after A1 released the name
                if live.len() > 1 {
                    bad.push("both spawns succeeded".into());
                }
            }
            if linked {
                vsched::quiesce();
                // the supervisor's child set holds exactly the successful spawns, and it heard of nobody else
                let mut kids: Vec<_> = sup.get_children().iter().map(|c| c.get_id()).collect();
                kids.sort();
                let mut want: Vec<_> = live.iter().map(|l| l.1.get_id()).collect();
                want.sort();
                if kids != want {
                    bad.push(format!("the supervisor's child set is {kids:?}, the successful spawns are {want:?} (a losing or failed spawn must leave nothing)"));
                }
                for e in log.of("S") {
                    if let (Cb::Sup(d), EvKind::Enter) = (&e.cb, &e.kind) {
                        if (d.starts_with("Started") || d.starts_with("Terminated") || d.starts_with("Failed")) && !live.iter().any(|l| d.contains(&format!("({},", l.1.get_id())) || d.contains(&format!("({})", l.1.get_id()))) {
                            bad.push(format!("the supervisor received {d} for a spawn that did not succeed"));
                        }
                    }
                }
            }
            if let Some(id) = look.2 {
                if !live.iter().any(|l| l.1.get_id() == id) && !(exit == Exit::FailedStart) {
                    bad.push(format!("where_is returned {id}, not the actor of the successful spawn"));
                }
            }
            let snap = ractor::registry::verif_snapshot();
            let expect: Vec<_> = live.iter().map(|l| ("N".to_string(), l.1.get_id())).collect();
            if snap != expect {
                bad.push(format!("after the race the registry holds {snap:?}, expected {expect:?}"));
            }
            #[cfg(feature = "alt")]
            {
                let (pids, _) = ractor::registry::pid_registry::verif_snapshot();
                let mut expect: Vec<_> = live.iter().map(|l| l.1.get_id()).collect();
                expect.sort();
                let pids: Vec<_> = pids.into_iter().filter(|p| *p != sup.get_id()).collect();
                if pids != expect {
                    bad.push(format!("after the race the pid table holds {pids:?}, expected the successful spawns {expect:?} (losing and failed spawns must leave nothing)"));
                }
                for l in &live {
                    if ractor::registry::where_is_pid(l.1.get_id()).map(|c| c.get_id()) != Some(l.1.get_id()) {
                        bad.push("where_is_pid does not return a running actor".into());
                    }
                }
            }
            // phase 2: the holder exits; waiter + respawn + lookups race with the exit
            if let Some((_, a, h)) = live.pop() {
                let a_id = a.get_id();
                let a2 = a.clone();
                let w = vsched::spawn("waiter", async move {
                    match exit {
                        Exit::Kill => a2.kill(),
                        _ => a2.stop(None),
                    }
                    let _ = a2.wait(None).await;
                    vsched::ret_stamp()
                });
                let log2 = log.clone();
                let rs = vsched::spawn("spawner", async move {
                    let call = vsched::call_stamp();
                    let r = Actor::spawn(Some("N".into()), Probe, args("A3", Prog::default(), &log2)).await;
                    (call, vsched::ret_stamp(), r)
                });
                let lk2 = vsched::spawn("lookup", async move {
                    let call = vsched::call_stamp();
                    let r = ractor::registry::where_is("N").map(|c| c.get_id());
                    (call, vsched::ret_stamp(), r)
                });
                #[cfg(feature = "alt")]
                let lk3 = vsched::spawn("lookup", async move {
                    let call = vsched::call_stamp();
                    let r = ractor::registry::where_is_pid(a_id).map(|c| c.get_id());
                    (call, vsched::ret_stamp(), r)
                });
                vsched::quiesce();
                let wait_ret = w.await.expect("waiter");
                let (rcall, _rret, rres) = rs.await.expect("respawn");
                let (lcall, _lret, lres) = lk2.await.expect("lookup2");
                #[cfg(feature = "alt")]
                {
                    let (pcall, _pret, pres) = lk3.await.expect("lookup3");
                    match pres {
                        Some(id) if id != a_id => bad.push(format!("where_is_pid({a_id}) returned {id}")),
                        Some(_) if pcall > wait_ret => bad.push("where_is_pid returned an actor whose wait() had already returned".into()),
                        _ => {}
                    }
                    if ractor::registry::where_is_pid(a_id).is_some() {
                        bad.push("where_is_pid still returns the actor after its wait() returned".into());
                    }
                }
                let _ = h.await;
                if lres == Some(a_id) && lcall > wait_ret {
                    bad.push("where_is returned an actor whose wait() had already returned".into());
                }
                match &rres {
                    Ok((a3, _)) => {
                        if let Some(id) = lres {
                            if id != a_id && id != a3.get_id() {
                                bad.push(format!("where_is returned {id}, which never held the name"));
                            }
                        }
                    }
                    Err(e) => {
                        if rcall > wait_ret {
                            bad.push(format!("a spawn that began after wait() had returned could not take the name: {e}"));
                        }
                        if !matches!(e, SpawnErr::ActorAlreadyRegistered(_)) {
                            bad.push(format!("racing respawn failed with {e}"));
                        }
                    }
                }
                // afterwards the name must be usable
                let after = match rres {
                    Ok(x) => Ok(x),
                    Err(_) => Actor::spawn(Some("N".into()), Probe, args("A4", Prog::default(), &log)).await,
                };
                match after {
                    Ok((a5, h5)) => {
                        if ractor::registry::where_is("N").map(|c| c.get_id()) != Some(a5.get_id()) {
                            bad.push("where_is does not return the new holder".into());
                        }
                        a5.stop(None);
                        let _ = h5.await;
                    }
                    Err(e) => bad.push(format!("the name stayed taken after its holder's wait() returned: {e}")),
                }
            } else if exit == Exit::FailedStart {
                // nobody holds the name: it must be free
                match Actor::spawn(Some("N".into()), Probe, args("A4", Prog::default(), &log)).await {
                    Ok((a5, h5)) => {
                        a5.stop(None);
                        let _ = h5.await;
                    }
                    Err(e) => bad.push(format!("a failed spawn left the name registered: {e}")),
                }
            }
            for (_, a, h) in live {
                a.stop(None);
                let _ = h.await;
            }
            vsched::quiesce();
            let residue = ractor::registry::verif_snapshot();
            if !residue.is_empty() {
                bad.push(format!("names still registered after every actor stopped: {residue:?}"));
            }
            #[cfg(feature = "alt")]
            {
                let (pids, listeners) = ractor::registry::pid_registry::verif_snapshot();
                let pids: Vec<_> = pids.into_iter().filter(|p| *p != sup.get_id()).collect();
                if !pids.is_empty() || !listeners.is_empty() {
                    bad.push(format!("pids still registered after every actor stopped: {pids:?} {listeners:?}"));
                }
            }
            sup.stop(None);
            let _ = suph.await;
            Outcome {
                key: format!("errs={:?} look={:?}", errs.iter().map(|e| e.0).collect::<Vec<_>>(), look.2.map(|i| i.to_string())),
                violations: bad,
            }
        })
    })
}


// ---------------------------------------------------------------------------------------------
// cluster build ("alt" harness build): the pid table
// ---------------------------------------------------------------------------------------------


#[cfg(not(feature = "alt"))]
fn pid_core_body(_lookups: usize, _named_conflict: bool) -> vsched::Body {
    wrong_build()
}

#[cfg(not(feature = "alt"))]
fn remote_namesake_body(_kill: bool, _same_pid: bool) -> vsched::Body {
    wrong_build()
}

/// Cluster build: a stand-in for a peer's actor (remote id, what a cluster session creates with
/// `spawn_linked_remote`) carries the peer actor's name, which may well be the name of a local actor too
/// (names are per node). Stand-ins are not entered in the name table, so their coming and going must leave the
/// local holder of that name alone: where_is keeps returning it, a same-name spawn keeps failing.
/// `same_pid`: the stand-in also has the local holder's process number (pids count from 0 on every node)
#[cfg(feature = "alt")]
fn remote_namesake_body(kill: bool, same_pid: bool) -> vsched::Body {
    Arc::new(move || {
        Box::pin(async move {
            let mut bad = Vec::new();
            let (sup, suph) = Actor::spawn(None, Dummy, ()).await.expect("supervisor");
            let (l, lh) = Actor::spawn(Some("N".into()), Dummy, ()).await.expect("local holder of the name");
            let shim = ractor::ActorRuntime::<Dummy>::spawn_linked_remote(Some("N".into()), Dummy, ractor::ActorId::Remote { node_id: 5, pid: if same_pid { l.get_id().pid() } else { 9 } }, (), sup.get_cell()).await;
            let Ok((shim, shimh)) = shim else {
                bad.push("the stand-in with a remote id could not be created next to a local actor of the same name".to_string());
                l.stop(None);
                let _ = lh.await;
                sup.stop(None);
                let _ = suph.await;
                return Outcome { key: "no-shim".into(), violations: bad };
            };
            let holder = |when: &str, bad: &mut Vec<String>| {
                let w = ractor::registry::where_is("N").map(|c| c.get_id());
                if w != Some(l.get_id()) {
                    bad.push(format!("{when}: where_is(\"N\") = {w:?}, expected the running local holder {}", l.get_id()));
                }
            };
            holder("with the stand-in alive", &mut bad);
            vsched::explore_schedules(true);
            if kill {
                shim.kill();
            } else {
                shim.stop(None);
            }
            let _ = shimh.await;
            vsched::quiesce();
            vsched::explore_schedules(false);
            holder("after the stand-in stopped", &mut bad);
            match Actor::spawn(Some("N".into()), Dummy, ()).await {
                Err(ractor::SpawnErr::ActorAlreadyRegistered(_)) => {}
                Ok((x, xh)) => {
                    bad.push(format!("after the stand-in stopped a second actor ({}) could be spawned under the name the local holder {} still owns", x.get_id(), l.get_id()));
                    x.stop(None);
                    let _ = xh.await;
                }
                Err(e) => bad.push(format!("a same-name spawn failed with {e} instead of ActorAlreadyRegistered")),
            }
            l.stop(None);
            let _ = lh.await;
            if ractor::registry::where_is("N").is_some() {
                bad.push("the name is still registered after its holder's join handle completed".to_string());
            }
            sup.stop(None);
            let _ = suph.await;
            Outcome { key: format!("kill={kill} same_pid={same_pid}"), violations: bad }
        })
    })
}

/// A running holder H exits while a new cell X is created, `where_is_pid(H)` / `get_all_pids()` run, and
/// (optionally) a creation fails on a name conflict after... before its pid is entered.
#[cfg(feature = "alt")]
fn pid_core_body(lookups: usize, named_conflict: bool) -> vsched::Body {
    use ractor::registry::{get_all_pids, where_is_pid};
    Arc::new(move || {
        Box::pin(async move {
            let (h, hp) = inspect::detached::<Dummy>(if named_conflict { Some("N".into()) } else { None }).expect("holder");
            inspect::set_status(&h, ActorStatus::Running);
            let hid = h.get_id();
            let creator = vsched::spawn("spawner", async move {
                let call = vsched::call_stamp();
                let r = inspect::detached::<Dummy>(None);
                let ret = vsched::ret_stamp();
                let (c, p) = r.expect("a fresh unnamed cell always registers");
                inspect::set_status(&c, ActorStatus::Running);
                let seen = where_is_pid(c.get_id()).map(|x| x.get_id());
                (call, ret, c, p, seen)
            });
            let loser = if named_conflict {
                Some(vsched::spawn("spawner", async move {
                    let call = vsched::call_stamp();
                    let r = inspect::detached::<Dummy>(Some("N".into()));
                    let ret = vsched::ret_stamp();
                    (call, ret, r)
                }))
            } else {
                None
            };
            let mut looks = Vec::new();
            for i in 0..lookups {
                looks.push(vsched::spawn("lookup", async move {
                    let call = vsched::call_stamp();
                    let one = if i % 2 == 0 { Some(where_is_pid(hid).map(|c| c.get_id())) } else { None };
                    let all = if i % 2 == 1 { Some(get_all_pids().iter().map(|c| c.get_id()).collect::<Vec<_>>()) } else { None };
                    let ret = vsched::ret_stamp();
                    (call, ret, one, all)
                }));
            }
            let hc = h.clone();
            let closer = vsched::spawn("closer", async move {
                let call = vsched::call_stamp();
                inspect::set_status(&hc, ActorStatus::Stopping);
                let mid = vsched::ret_stamp();
                inspect::set_status(&hc, ActorStatus::Stopped);
                let ret = vsched::ret_stamp();
                (call, mid, ret)
            });
            vsched::quiesce();
            let (ccall, cret, x, xp, seen) = creator.await.expect("creator");
            let (xcall, _xmid, xret) = closer.await.expect("closer");
            let mut bad = Vec::new();
            let xid = x.get_id();
            if seen != Some(xid) {
                bad.push(format!("where_is_pid of a just created, running actor returned {seen:?}"));
            }
            let mut extra: Vec<ractor::ActorId> = Vec::new();
            let mut loser_won = false;
            let mut kept = Vec::new();
            if let Some(l) = loser {
                let (lcall, lret, r) = l.await.expect("loser");
                match r {
                    Ok((c, p)) => {
                        // legal only once the holder began to stop
                        if lret < xcall {
                            bad.push("a registration of the held name succeeded while the holder was running".into());
                        }
                        let _ = lcall;
                        loser_won = true;
                        extra.push(c.get_id());
                        inspect::set_status(&c, ActorStatus::Running);
                        kept.push((c, p));
                    }
                    Err(e) => {
                        if !format!("{e}").to_lowercase().contains("already") {
                            bad.push(format!("losing creation failed with {e}"));
                        }
                    }
                }
            }
            let mut keys = Vec::new();
            for l in looks {
                let (call, ret, one, all) = l.await.expect("lookup");
                if let Some(one) = one {
                    keys.push(format!("one={}", one.is_some()));
                    match one {
                        Some(id) => {
                            if id != hid {
                                bad.push(format!("where_is_pid({hid}) returned actor {id}"));
                            }
                            if call > xret {
                                bad.push("where_is_pid returned an actor whose exit (and therefore wait()) had already completed".into());
                            }
                        }
                        None => {
                            if ret < xcall {
                                bad.push("where_is_pid returned None for a running actor that had not begun to stop".into());
                            }
                        }
                    }
                }
                if let Some(all) = all {
                    keys.push(format!("all={}", all.len()));
                    if all.contains(&hid) && call > xret {
                        bad.push("get_all_pids lists an actor whose exit had already completed".into());
                    }
                    if !all.contains(&hid) && ret < xcall {
                        bad.push("get_all_pids misses a running actor that had not begun to stop".into());
                    }
                    if !all.contains(&xid) && cret < call {
                        bad.push("get_all_pids misses an actor whose creation had already returned".into());
                    }
                    if all.contains(&xid) && ret < ccall {
                        bad.push("get_all_pids lists an actor whose creation had not begun".into());
                    }
                    let mut sorted = all.clone();
                    sorted.sort();
                    sorted.dedup();
                    if sorted.len() != all.len() {
                        bad.push(format!("get_all_pids lists an actor twice: {all:?}"));
                    }
                    for id in &all {
                        if *id != hid && *id != xid && !(named_conflict) {
                            bad.push(format!("get_all_pids lists unknown actor {id}"));
                        }
                    }
                }
            }
            let (pids, listeners) = ractor::registry::pid_registry::verif_snapshot();
            let mut expect = vec![xid];
            expect.extend(extra.iter().copied());
            expect.sort();
            if pids != expect {
                bad.push(format!("pid table holds {pids:?}, expected {expect:?} (holder {hid} exited{})", if named_conflict && !loser_won { ", a creation failed on the name conflict" } else { "" }));
            }
            if !listeners.is_empty() {
                bad.push(format!("pid listeners {listeners:?}"));
            }
            let names = ractor::registry::verif_snapshot();
            if named_conflict && !loser_won && !names.is_empty() {
                bad.push(format!("names left: {names:?}"));
            }
            inspect::set_status(&x, ActorStatus::Stopped);
            drop(xp);
            drop(hp);
            for (c, p) in kept {
                inspect::set_status(&c, ActorStatus::Stopped);
                drop(p);
            }
            Outcome { key: format!("{keys:?} loser_won={loser_won}"), violations: bad }
        })
    })
}

/// A named actor whose start fails (spawn_instant: the handle exists before pre_start ran); a task that holds
/// the handle polls its status and, as soon as it reads Stopped, calls wait() (which then returns at once),
/// looks the name up and tries to take it. Failed starts release the name like every other exit.
fn failed_instant_body(panic: bool, local: bool) -> vsched::Body {
    Arc::new(move || {
        Box::pin(async move {
            let log = Log::default();
            let spawner = ractor::thread_local::ThreadLocalActorSpawner::verif_new_local();
            let prog = Prog { pre_start: vec![Step::Yield, if panic { Step::Panic("no") } else { Step::Err("no") }], ..Default::default() };
            let a = args("F", prog, &log);
            let spawned = if local {
                <Probe as ractor::thread_local::ThreadLocalActor>::spawn_instant(Some("N".into()), a, spawner.clone())
            } else {
                ractor::ActorRuntime::<Probe>::spawn_instant(Some("N".into()), Probe, a)
            };
            let (r, outer) = spawned.expect("spawn_instant returns the handle at once");
            let id = r.get_id();
            let r2 = r.clone();
            let log2 = log.clone();
            let poller = vsched::spawn("waiter", async move {
                for _ in 0..200 {
                    if r2.get_status() == ActorStatus::Stopped {
                        break;
                    }
                    vsched::yield_now().await;
                }
                let _ = r2.wait(Some(std::time::Duration::from_millis(50))).await;
                let ret = vsched::ret_stamp();
                let seen = ractor::registry::where_is("N").map(|c| c.get_id());
                #[cfg(feature = "alt")]
                let seen_pid = ractor::registry::where_is_pid(r2.get_id()).is_some();
                #[cfg(not(feature = "alt"))]
                let seen_pid = false;
                let again = Actor::spawn(Some("N".into()), Probe, args("G", Prog::default(), &log2)).await;
                (ret, seen, seen_pid, again)
            });
            vsched::quiesce_time();
            let _ = outer.await;
            let (_ret, seen, seen_pid, again) = poller.await.expect("poller");
            let mut bad = Vec::new();
            if seen == Some(id) {
                bad.push("where_is returned the actor of a failed start after its wait() had returned".to_string());
            }
            if seen_pid {
                bad.push("where_is_pid returned the actor of a failed start after its wait() had returned".to_string());
            }
            match again {
                Ok((g, gh)) => {
                    g.stop(None);
                    let _ = gh.await;
                }
                Err(e) => bad.push(format!("after the failed start's wait() returned, the name could not be taken: {e}")),
            }
            vsched::quiesce();
            if !ractor::registry::verif_snapshot().is_empty() {
                bad.push(format!("names left: {:?}", ractor::registry::verif_snapshot()));
            }
            Outcome { key: format!("seen={}", seen.is_some()), violations: bad }
        })
    })
}

const S_KINDS: &[PointKind] = &[PointKind::Atomic, PointKind::Lock, PointKind::Map, PointKind::Other];

pub fn plan(tier: &str) -> Plan {
    let thorough = tier == "thorough";
    let core_cfg = ExecCfg {
        filter: Some(vsched::filter_roles(S_KINDS, &["spawner", "lookup", "closer"])),
        keep_trace: false,
        stack: 1 << 17,
        ..Default::default()
    };
    let mut units = Vec::new();
    units.push(Unit::explore_split(Job::new("core/2reg+1lookup", core_cfg.clone(), None, core_body(2, false, 1)), 4));
    units.push(Unit::explore_split(Job::new("core/1reg+exit+1lookup", core_cfg.clone(), None, core_body(1, true, 1)), 4));
    units.push(Unit::explore_split(Job::new("core/2reg+exit+1lookup", core_cfg.clone(), Some(if thorough { 4 } else { 3 }), core_body(2, true, 1)), 8));
    units.push(Unit::explore_split(Job::new("core/3reg+2lookup", core_cfg.clone(), Some(if thorough { 4 } else { 3 }), core_body(3, false, 2)), 8));
    let filter: vsched::Filter = Arc::new(|k, _l, t| {
        S_KINDS.contains(&k) && (["spawner", "lookup", "waiter"].contains(&t.role.as_str()) || (t.role == "lib" && t.name.as_deref() == Some("N")))
    });
    let live_cfg = ExecCfg {
        filter: Some(filter),
        ..Default::default()
    };
    let lb = if thorough { 3 } else { 2 };
    for exit in [Exit::Stop, Exit::Kill, Exit::FailedStart] {
        units.push(Unit::explore_split(Job::new(format!("live/{exit:?}"), live_cfg.clone(), Some(lb), live_body(exit)), 8));
    }
    for (panic, local) in [(false, false), (true, false), (false, true)] {
        units.push(Unit::explore_split(
            Job::new(format!("live/instant-failed-start/{}/{}", if panic { "panic" } else { "err" }, if local { "local" } else { "send" }), live_cfg.clone(), Some(lb), failed_instant_body(panic, local)),
            4,
        ));
    }
    // the holder exits slowly (post_stop takes a while), late drain / stop requests keep arriving, a successor
    // takes the name in the meantime and must keep it
    for drain in [false, true] {
        units.push(Unit::explore_split(Job::new(format!("live/slow-exit+late-requests/{}", if drain { "drain" } else { "stop" }), ExecCfg::default(), Some(lb), crate::c06::name_handover_body(drain)), 4));
    }
    for exit in [Exit::Stop, Exit::FailedStart] {
        units.push(Unit::explore_split(Job::new(format!("live-linked/{exit:?}"), live_cfg.clone(), Some(lb), live_body_x(exit, true)), 8));
    }
    // the same units once more on the cluster build of the harness (pid table next to the name table),
    // plus the pid-table cores
    let alt_units: Vec<(String, ExecCfg, Option<usize>, vsched::Body, usize)> = vec![
        ("alt/core/2reg+1lookup".into(), core_cfg.clone(), None, core_body(2, false, 1), 4),
        ("alt/core/1reg+exit+1lookup".into(), core_cfg.clone(), None, core_body(1, true, 1), 4),
        ("alt/pid/create+exit+1lookup".into(), core_cfg.clone(), None, pid_core_body(1, false), 4),
        ("alt/pid/create+exit+2lookups".into(), core_cfg.clone(), Some(if thorough { 4 } else { 3 }), pid_core_body(2, false), 8),
        ("alt/pid/create+conflict+exit+2lookups".into(), core_cfg.clone(), Some(if thorough { 3 } else { 2 }), pid_core_body(2, true), 16),
        ("alt/live/Stop".into(), live_cfg.clone(), Some(lb), live_body(Exit::Stop), 8),
        ("alt/live/Kill".into(), live_cfg.clone(), Some(lb), live_body(Exit::Kill), 8),
        ("alt/live/FailedStart".into(), live_cfg.clone(), Some(lb), live_body(Exit::FailedStart), 8),
        ("alt/live/instant-failed-start/err/send".into(), live_cfg.clone(), Some(lb), failed_instant_body(false, false), 4),
        ("alt/remote-namesake/stop".into(), ExecCfg::default(), Some(1), remote_namesake_body(false, false), 1),
        ("alt/remote-namesake/kill".into(), ExecCfg::default(), Some(1), remote_namesake_body(true, false), 1),
        ("alt/remote-namesake/stop-same-pid".into(), ExecCfg::default(), Some(1), remote_namesake_body(false, true), 1),
        ("alt/remote-namesake/kill-same-pid".into(), ExecCfg::default(), Some(1), remote_namesake_body(true, true), 1),
    ];
    for (name, cfg, bound, b, split) in alt_units {
        units.push(alt_unit(name, cfg, bound, b, split));
    }
    Plan {
        property: "C10",
        units,
        rule: "concurrent registrations of one name, lookups, the exit path of the holder and respawns, on real cells (complete tree with sleep sets for the 3-task cores) and on real spawned actors (deviation-bounded); decision point before every DashMap, lock and atomic operation; oracle: at most one holder at any time, losers fail with ActorAlreadyRegistered and leave nothing (no callback, no pid, no child-set entry and no event at a supervisor they were to be linked to), lookups only return a current holder and never one whose wait() returned, the name is reusable after wait(); in the cluster build the same for where_is_pid / get_all_pids, and failed or losing spawns leave no pid; non-trivial = execution with >= 1 branching decision".into(),
        assumptions: vec![
            "sequential consistency; each DashMap access is atomic, a shard held across a scheduling point is waited for cooperatively".into(),
            "the pid table only exists in ractor's cluster build: the alt/ units run on a second build of this harness (ractor features cluster + async-trait + monitors)".into(),
        ],
        engine: "vsched (shuttle coroutines + DFS with sleep sets / deviation bound) on the real ractor code",
    }
}
