//! C04 — failures are contained and reported to the supervisor exactly once.
use vsched::explore::Job;
use vsched::report::{Plan, Unit};
use vsched::{CutSpec, ExecCfg, Sel};

use crate::common::*;
use crate::lifecycle::*;

fn oracle(run: &Run) -> Vec<String> {
    let mut bad = Vec::new();
    let sc = &run.sc;
    let a: Vec<&Ev> = run.evs.iter().filter(|e| e.actor == "A").collect();
    // lifecycle events seen by S (it supervises only A), by the bystander and by the stranger
    let sup_events = |who: &str| -> Vec<String> {
        run.evs
            .iter()
            .filter(|e| e.actor == who && e.kind == EvKind::Enter)
            .filter_map(|e| match &e.cb {
                Cb::Sup(s) if s.starts_with("Started") || s.starts_with("Terminated") || s.starts_with("Failed") => Some(s.clone()),
                _ => None,
            })
            .collect()
    };
    // (in the monitors build of the harness B monitors A)
    let strangers: &[&str] = if ALT && run.spawn_err.is_none() { &["X"] } else { &["B", "X"] };
    for who in strangers.iter().copied() {
        let ev = sup_events(who);
        if !ev.is_empty() {
            bad.push(format!("{who} neither supervises nor monitors anyone but received {ev:?}"));
        }
    }
    if !run.bystander_ok {
        bad.push("an unrelated actor stopped answering after A's failure".into());
    }
    let s_ev = sup_events("S");
    if run.spawn_panicked {
        bad.push("a panic in pre_start unwound into the spawner's own task instead of coming back as Err".into());
    }
    if run.spawn_err.is_some() {
        let expected_failure = sc.site == Site::PreStart && matches!(sc.prog, P::Err | P::Panic | P::PreludePanic);
        if !s_ev.is_empty() && (expected_failure || a.iter().all(|e| e.cb == Cb::PreStart)) {
            bad.push(format!("the spawn returned Err ({:?}) but the supervisor received {s_ev:?}", run.spawn_err));
        }
        if expected_failure {
            let want = if sc.prog == P::Err { "boom-err" } else { "boom-panic" };
            if !run.spawn_err.as_ref().unwrap().contains(want) {
                bad.push(format!("spawn error {:?} does not carry the pre_start failure text {want}", run.spawn_err));
            }
        }
        return bad;
    }
    if sc.site == Site::PreStart && matches!(sc.prog, P::Err | P::Panic | P::PreludePanic) {
        bad.push("pre_start failed but the spawner got Ok".into());
    }
    // (a task we cancel ourselves reports the cancellation through its join handle, as tokio does)
    if run.join_ok != Some(true) && !matches!(sc.closer, Closer::Abort(_)) {
        bad.push(format!("the join handle of A did not complete normally: {:?} {:?}", run.join_ok, run.outer_join));
    }
    if ALT {
        let id = run.a_id.clone().unwrap_or_default();
        let b_ev = sup_events("B");
        let b_term: Vec<&String> = b_ev.iter().filter(|s| !s.starts_with("Started")).collect();
        if b_term.len() != 1 {
            bad.push(format!("B monitors A and must see exactly one terminal event, it saw {b_ev:?}"));
        } else {
            if !b_term[0].contains(&format!("({id},")) {
                bad.push(format!("the monitor's terminal event names another actor: {} (A is {id})", b_term[0]));
            }
            if b_term[0].contains("state=true") {
                bad.push(format!("a monitor received the actor's state: {}", b_term[0]));
            }
            if sc.has_sup() {
                let s_term: Vec<String> = s_ev.iter().filter(|s| !s.starts_with("Started")).map(|s| s.replace("state=true", "state=false")).collect();
                if s_term.len() == 1 && s_term[0] != *b_term[0] {
                    bad.push(format!("supervisor and monitor were told different things: {} vs {}", s_term[0], b_term[0]));
                }
            }
        }
        if b_ev.iter().filter(|s| s.starts_with("Started")).count() > 1 || b_ev.iter().skip(1).any(|s| s.starts_with("Started")) {
            bad.push(format!("monitor saw ActorStarted twice or after the terminal event: {b_ev:?}"));
        }
    }
    if !sc.has_sup() {
        if !s_ev.is_empty() {
            bad.push(format!("S does not supervise A but received {s_ev:?}"));
        }
        return bad;
    }
    let id = run.a_id.clone().unwrap_or_default();
    let started: Vec<&String> = s_ev.iter().filter(|s| s.starts_with("Started")).collect();
    let terminal: Vec<&String> = s_ev.iter().filter(|s| !s.starts_with("Started")).collect();
    let post_start_ok = a.iter().any(|e| e.cb == Cb::PostStart && e.kind == EvKind::ExitOk);
    if post_start_ok && started.len() != 1 {
        bad.push(format!("post_start succeeded but the supervisor saw {} ActorStarted events: {s_ev:?}", started.len()));
    }
    if !post_start_ok && !started.is_empty() {
        bad.push(format!("ActorStarted delivered although post_start did not succeed: {s_ev:?}"));
    }
    if terminal.len() != 1 {
        bad.push(format!("expected exactly one terminal event for A, the supervisor saw {s_ev:?}"));
        return bad;
    }
    if let Some(pos) = s_ev.iter().position(|s| s.starts_with("Started")) {
        if pos != 0 {
            bad.push(format!("ActorStarted arrived after the terminal event: {s_ev:?}"));
        }
    }
    let t = terminal[0];
    if !t.contains(&format!("({id},")) {
        bad.push(format!("terminal event names another actor: {t} (A is {id})"));
    }
    // classification
    let failure = a.iter().find(|e| matches!(e.kind, EvKind::ExitErr | EvKind::Panicked) && e.cb != Cb::PreStart);
    let cut = run.evs.is_empty() || matches!(sc.closer, Closer::Abort(_));
    let post_stop_done = a.iter().any(|e| e.cb == Cb::PostStop && e.kind == EvKind::ExitOk);
    if let Some(f) = failure {
        let want = if f.kind == EvKind::ExitErr { "boom-err" } else { "boom-panic" };
        if !(t.starts_with("Failed") && t.contains(want)) {
            bad.push(format!("{:?} failed with {want} but the supervisor was told {t}", f.cb));
        }
    } else if post_stop_done {
        let mut reasons: Vec<String> = Vec::new();
        match &sc.closer {
            Closer::Stop(r) => reasons.push(format!("{:?}", r.map(|s| s.to_string()))),
            Closer::Drain => reasons.push(format!("{:?}", Some("Drained".to_string()))),
            Closer::None | Closer::Abort(_) => reasons.push(format!("{:?}", Some("end-of-scenario".to_string()))),
            Closer::Kill | Closer::TwoKillers => {}
            Closer::StopAfterChild => reasons.push(format!("{:?}", Some("after-child".to_string()))),
            Closer::TwoStoppers => {
                reasons.push(format!("{:?}", Some("first".to_string())));
                reasons.push(format!("{:?}", Some("second".to_string())));
            }
            Closer::StopDrainKill => {
                reasons.push(format!("{:?}", Some("raced".to_string())));
                reasons.push(format!("{:?}", Some("Drained".to_string())));
            }
            Closer::DrainThenStop => {
                reasons.push(format!("{:?}", Some("after-drain".to_string())));
                reasons.push(format!("{:?}", Some("Drained".to_string())));
            }
        }
        if sc.prog == P::SelfStop {
            reasons.push("None".to_string());
        }
        let state = sc.kind == Kind::Send;
        let ok = reasons.iter().any(|r| *t == format!("Terminated({id},state={state},reason={r})"));
        if !ok {
            bad.push(format!("graceful exit: expected Terminated(state={state}, reason in {reasons:?}) but the supervisor was told {t}"));
        }
    } else if cut && !a.iter().any(|e| e.kind == EvKind::Cancelled && run.kill_ret.is_some()) {
        let want1 = format!("Terminated({id},state=false,reason=Some(\"actor_task_cancelled\"))");
        // an abort that lands after the loop already finished changes nothing
        if *t != want1 && !t.starts_with("Terminated") {
            bad.push(format!("task cancellation: expected {want1}, the supervisor was told {t}"));
        }
    } else {
        let want = format!("Terminated({id},state=false,reason=Some(\"killed\"))");
        if *t != want {
            bad.push(format!("kill: expected {want}, the supervisor was told {t}"));
        }
    }
    bad
}

fn base(kind: Kind, variant: Variant, site: Site, prog: P, closer: Closer) -> Sc {
    Sc {
        kind,
        variant,
        site,
        prog,
        closer,
        senders: 1,
        child: false,
        pg_event: false,
        busy_sup: false,
        sup_drains: false,
        stale_unlink: false,
    }
}

fn scenarios(thorough: bool) -> Vec<Sc> {
    let mut v = Vec::new();
    for kind in [Kind::Send, Kind::Local] {
        for site in [Site::PostStart, Site::Handle, Site::Sup, Site::PostStop, Site::PreStart] {
            for prog in [P::Err, P::Panic] {
                let mut s = base(kind, Variant::Linked, site, prog, Closer::None);
                s.pg_event = site == Site::Sup;
                v.push(s.clone());
                if thorough {
                    s.busy_sup = true;
                    v.push(s.clone());
                    s.busy_sup = false;
                    s.variant = Variant::LinkedInstant;
                    v.push(s.clone());
                    s.variant = Variant::Plain;
                    v.push(s);
                }
            }
        }
        // the callback panics in its synchronous prelude (explicit `fn .. -> impl Future` form): still "a panic in
        // the callback", contained and reported like any other
        for site in [Site::PostStart, Site::Handle, Site::Sup, Site::PostStop, Site::PreStart] {
            let mut s = base(kind, Variant::Linked, site, P::PreludePanic, Closer::None);
            s.pg_event = site == Site::Sup;
            v.push(s.clone());
            if thorough {
                s.variant = Variant::LinkedInstant;
                v.push(s);
            }
        }
        // (a graceful stop whose reason happens to read "killed" is still a graceful stop)
        for closer in [Closer::Stop(Some("because")), Closer::Stop(None), Closer::Drain, Closer::Kill, Closer::Stop(Some("killed"))] {
            v.push(base(kind, Variant::Linked, Site::Handle, P::Awaits, closer.clone()));
            if thorough {
                let mut s = base(kind, Variant::LinkedInstant, Site::Handle, P::SleepsMs, closer.clone());
                s.busy_sup = true;
                v.push(s);
                v.push(base(kind, Variant::Linked, Site::PostStart, P::Awaits, closer.clone()));
                v.push(base(kind, Variant::Linked, Site::PostStop, P::Awaits, closer));
            }
        }
        v.push(base(kind, Variant::Linked, Site::Handle, P::SelfKill, Closer::None));
        v.push(base(kind, Variant::Linked, Site::Handle, P::SelfStop, Closer::None));
        // a stopper, a drainer and a killer at once: still exactly one terminal event, and a consistent one
        v.push(base(kind, Variant::Linked, Site::Handle, P::Awaits, Closer::StopDrainKill));
        v.push(base(kind, Variant::Linked, Site::PostStop, P::Awaits, Closer::StopDrainKill));
        // a stale unlink (from an actor that is no longer the supervisor) changes nothing
        for (prog, closer) in [(P::Err, Closer::None), (P::Awaits, Closer::Stop(Some("because"))), (P::Awaits, Closer::Kill)] {
            let mut s = base(kind, Variant::Linked, Site::Handle, prog, closer);
            s.stale_unlink = true;
            v.push(s);
        }
        // a supervisor that is draining its backlog is alive: it must still be told
        for (site, prog, closer) in [
            (Site::Handle, P::Err, Closer::None),
            (Site::Handle, P::Panic, Closer::None),
            (Site::PostStart, P::Err, Closer::None),
            (Site::Handle, P::Awaits, Closer::Stop(Some("because"))),
            (Site::Handle, P::Awaits, Closer::Kill),
            (Site::Handle, P::Awaits, Closer::Drain),
        ] {
            let mut s = base(kind, Variant::Linked, site, prog, closer);
            s.sup_drains = true;
            v.push(s);
        }
    }
    v
}

pub fn plan(tier: &str) -> Plan {
    let thorough = tier == "thorough";
    let cfg = ExecCfg::default();
    let mut units = Vec::new();
    for sc in scenarios(thorough) {
        let bound = if thorough { 3 } else { 2 };
        // (a panic that does escape the actor's task must end that task only, as on a real runtime, for the oracle
        // to see what the supervisor and the join handle were told)
        let c = ExecCfg { tolerate_lib_panics: sc.prog == P::PreludePanic, ..cfg.clone() };
        units.push(Unit::explore(Job::new(format!("c04/{}", sc.name()), c, Some(bound), body(sc, oracle))));
    }
    // the grid once more on the async-trait + monitors (+ cluster) build of the harness; there the
    // bystander monitors A and must be told the same, without the state
    // (callbacks written with async-trait have no synchronous prelude: those scenarios stay on the default build)
    for sc in scenarios(false).into_iter().filter(|s| s.prog != P::PreludePanic) {
        units.push(alt_unit(format!("alt/c04/{}", sc.name()), cfg.clone(), Some(1), body(sc, oracle), 1));
    }
    // crash-point enumeration: drop A's task before its k-th poll, for every k up to the number
    // of polls of the default schedule (measured here by one probing execution)
    // (site PostStop: the scenario's final stop runs a post_stop with suspension points, so the later cuts land
    // inside post_stop, after the actor published Stopping)
    for (kind, site, prog) in [(Kind::Send, Site::Handle, P::Awaits), (Kind::Send, Site::Handle, P::SleepsMs), (Kind::Send, Site::PostStop, P::Awaits), (Kind::Send, Site::PostStop, P::SleepsMs), (Kind::Local, Site::PostStop, P::Awaits)] {
        let sc0 = base(kind, Variant::Linked, site, prog, Closer::Abort(0));
        let probe = vsched::run_one(&cfg, &body(sc0.clone(), |_| vec![]), &[]);
        let polls = probe.polls.iter().filter(|p| p.0.as_deref() == Some("A")).map(|p| p.1).max().unwrap_or(0);
        for k in 1..=polls {
            let mut sc = sc0.clone();
            sc.closer = Closer::Abort(k);
            let mut c = cfg.clone();
            c.cuts = vec![CutSpec { sel: Sel::Name("A".into()), at_poll: k }];
            units.push(Unit::explore(Job::new(format!("c04/{}", sc.name()), c, Some(if thorough { 3 } else { 2 }), body(sc, oracle))));
        }
    }
    Plan {
        property: "C04",
        units,
        rule: "scenario grid (failure site x Err|panic x exit cause x actor kind x supervisor busy|idle|draining a backlog) plus crash-point enumeration (the actor task is dropped before its k-th poll, every k of the default schedule), each explored by a deviation-bounded DFS over task-level schedules of the real code; oracle: the supervisor's event log holds [Started?] + exactly one correctly classified terminal event, bystander and stranger are undisturbed, the join handle completes; non-trivial = execution with >= 1 branching decision".into(),
        assumptions: vec![
            "task granularity".into(),
            "the monitor API only exists with ractor's monitors feature: the alt/ units run on a second build of the harness (features async-trait, monitors, cluster)".into(),
            "thread-local actors never hand their state to the supervisor (documented design), so state presence is only demanded of Send actors".into(),
        ],
        engine: "vsched (shuttle coroutines + deviation-bounded DFS + task cut injection) on the real ractor code, builds: default and async-trait + monitors",
    }
}
