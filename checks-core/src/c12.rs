//! C12 — timers fire once, never early, and die with their target.
use std::sync::Arc;
use std::time::Duration;

use ractor::Actor;
use vsched::explore::Job;
use vsched::report::{Plan, Unit};
use vsched::{ExecCfg, Outcome};

use crate::common::*;

const MS: u64 = 1_000_000;

fn handled(log: &Log, who: &str) -> Vec<(u32, u64)> {
    log.of(who)
        .iter()
        .filter_map(|e| match (&e.cb, &e.kind) {
            (Cb::Handle(t), EvKind::Enter) => Some((*t, e.vt)),
            _ => None,
        })
        .collect()
}

/// send_after with the target stopping at `exit_ms` (None = stays alive) and the handle aborted at `abort_ms`
/// Every timer of this file is armed either through the typed `ActorRef` or through a derived reference
/// (`ActorRef::get_derived`, which has its own copies of send_after / send_interval): the unit decides.
static DERIVED: std::sync::atomic::AtomicBool = std::sync::atomic::AtomicBool::new(false);
fn derived() -> bool {
    DERIVED.load(std::sync::atomic::Ordering::SeqCst)
}
/// wraps a body so that it runs with the given kind of reference
fn with_ref(derived: bool, inner: vsched::Body) -> vsched::Body {
    Arc::new(move || {
        DERIVED.store(derived, std::sync::atomic::Ordering::SeqCst);
        inner()
    })
}
enum OneShot {
    Typed(ractor::concurrency::JoinHandle<Result<(), ractor::MessagingErr<PMsg>>>),
    Derived(ractor::concurrency::JoinHandle<Result<(), ractor::MessagingErr<DMsg>>>),
}
impl OneShot {
    fn abort(&self) {
        match self {
            OneShot::Typed(h) => h.abort(),
            OneShot::Derived(h) => h.abort(),
        }
    }
    /// Ok(delivered) or Err(the task did not finish: aborted)
    async fn outcome(self) -> Result<bool, ()> {
        match self {
            OneShot::Typed(h) => h.await.map(|r| r.is_ok()).map_err(|_| ()),
            OneShot::Derived(h) => h.await.map(|r| r.is_ok()).map_err(|_| ()),
        }
    }
}
fn arm_after(a: &ractor::ActorRef<PMsg>, period: Duration, tag: u32) -> OneShot {
    if derived() {
        OneShot::Derived(a.get_derived::<DMsg>().send_after(period, move || DMsg(tag, vec![])))
    } else {
        OneShot::Typed(a.send_after(period, move || do_msg(tag, vec![])))
    }
}
fn arm_interval(a: &ractor::ActorRef<PMsg>, period: Duration, burn_ns: u64) -> ractor::concurrency::JoinHandle<()> {
    if derived() {
        a.get_derived::<DMsg>().send_interval(period, move || {
            if burn_ns > 0 {
                vsched::burn(Duration::from_nanos(burn_ns));
            }
            DMsg(1, vec![])
        })
    } else {
        a.send_interval(period, move || {
            if burn_ns > 0 {
                vsched::burn(Duration::from_nanos(burn_ns));
            }
            do_msg(1, vec![])
        })
    }
}
fn arm_exit(a: &ractor::ActorRef<PMsg>, period: Duration, kill: bool) -> ractor::concurrency::JoinHandle<()> {
    match (derived(), kill) {
        (false, true) => a.kill_after(period),
        (false, false) => a.exit_after(period),
        (true, true) => a.get_derived::<DMsg>().kill_after(period),
        (true, false) => a.get_derived::<DMsg>().exit_after(period),
    }
}

fn send_after_body(period_ms: u64, exit_ms: Option<u64>, abort_ms: Option<u64>, kill: bool) -> vsched::Body {
    send_after_body_us(period_ms * 1000, exit_ms.map(|e| e * 1000), abort_ms.map(|a| a * 1000), kill)
}

const US: u64 = 1_000;

/// the same in microseconds (sub-millisecond periods); `abort_us == Some(0)` aborts the handle right after
/// it was obtained, without any await in between: the timer task cannot have run
fn send_after_body_us(period_us: u64, exit_us: Option<u64>, abort_us: Option<u64>, kill: bool) -> vsched::Body {
    Arc::new(move || {
        Box::pin(async move {
            let (period_ms, exit_ms, abort_ms) = (period_us, exit_us, abort_us); // (names kept; the unit is us)
            #[allow(non_upper_case_globals)]
            const MS: u64 = US;
            let log = Log::default();
            let (a, ah) = Actor::spawn(None, Probe, args("A", Prog::default(), &log)).await.expect("A");
            let t0 = vsched::now();
            let h = arm_after(&a, Duration::from_micros(period_ms), 1);
            // an unrelated task that becomes ready at the same instant (ties are explored)
            let a2 = a.clone();
            let tie = vsched::spawn("tie", async move {
                vsched::sleep(Duration::from_micros(period_ms)).await;
                let _ = a2.cast(do_msg(2, vec![]));
            });
            let a3 = a.clone();
            let exiter = vsched::spawn("exiter", async move {
                if let Some(e) = exit_ms {
                    vsched::sleep(Duration::from_micros(e)).await;
                    if kill {
                        a3.kill();
                    } else {
                        a3.stop(None);
                    }
                    let _ = a3.wait(None).await;
                }
            });
            let mut aborted_at = None;
            let res = match abort_ms {
                Some(ab) => {
                    if ab > 0 {
                        vsched::sleep(Duration::from_micros(ab)).await;
                    }
                    h.abort();
                    aborted_at = Some(vsched::now() - t0);
                    h.outcome().await.map_err(|_| "aborted".to_string())
                }
                None => h.outcome().await.map_err(|_| "join-error".to_string()),
            };
            let _ = tie.await;
            let _ = exiter.await;
            vsched::quiesce_time();
            let hs = handled(&log, "A");
            let mine: Vec<u64> = hs.iter().filter(|x| x.0 == 1).map(|x| x.1 - t0).collect();
            let mut bad = Vec::new();
            if mine.len() > 1 {
                bad.push(format!("send_after delivered {} times", mine.len()));
            }
            for t in &mine {
                if *t < period_ms * MS {
                    bad.push(format!("send_after({period_ms} us) delivered after {t} ns"));
                }
                if *t != period_ms * MS {
                    bad.push(format!("send_after({period_ms} us) delivered at {t} ns although nothing consumed time"));
                }
            }
            match (abort_ms, exit_ms) {
                (Some(ab), _) if ab < period_ms || ab == 0 => {
                    if !mine.is_empty() {
                        bad.push(format!("the timer was aborted at {ab} us, before it fired (period {period_ms} us{}), but the message was delivered", if ab == 0 { "; aborted before the timer task could run" } else { "" }));
                    }
                }
                (None, None) => {
                    if mine.len() != 1 {
                        bad.push("send_after to a live actor never delivered".into());
                    }
                    if res != Ok(true) {
                        bad.push(format!("send_after's handle reported {res:?}"));
                    }
                }
                (None, Some(e)) if e < period_ms => {
                    if !mine.is_empty() {
                        bad.push("the target stopped before the expiry but the message was handled".into());
                    }
                    if res != Ok(false) {
                        bad.push(format!("the target was gone at expiry but the handle reported {res:?} instead of the send error"));
                    }
                }
                (None, Some(e)) if e > period_ms => {
                    if mine.len() != 1 {
                        bad.push("the target stopped after the expiry but the message was not handled".into());
                    }
                }
                _ => {}
            }
            if mine.is_empty() && res == Ok(true) && exit_ms.is_none() {
                bad.push("the handle reported a successful send but nothing was handled".into());
            }
            a.stop(None);
            let _ = ah.await;
            Outcome {
                key: format!("delivered={mine:?} res={res:?} aborted_at={aborted_at:?} all={hs:?}"),
                violations: bad,
            }
        })
    })
}

fn interval_body(period_ms: u64, burn: bool, exit_after_ticks: u64, kill: bool) -> vsched::Body {
    interval_body_us(period_ms * 1000, burn, exit_after_ticks, kill)
}

/// the same with the period in microseconds (sub-millisecond intervals)
fn interval_body_us(period_us: u64, burn: bool, exit_after_ticks: u64, kill: bool) -> vsched::Body {
    Arc::new(move || {
        Box::pin(async move {
            let log = Log::default();
            let (a, ah) = Actor::spawn(None, Probe, args("A", Prog::default(), &log)).await.expect("A");
            let t0 = vsched::now();
            let p = period_us * US;
            let h = arm_interval(&a, Duration::from_micros(period_us), if burn { period_us * US / 2 } else { 0 });
            // stop the target in the middle of a period
            let exit_at = exit_after_ticks * p + p / 4;
            vsched::sleep(Duration::from_nanos(exit_at)).await;
            if kill {
                a.kill();
            } else {
                a.stop(None);
            }
            let _ = ah.await;
            let t_exit = vsched::now() - t0;
            // one period later the timer task must be gone
            vsched::sleep(Duration::from_nanos(p + p / 2 + 1)).await;
            let finished = h.is_finished();
            let ts: Vec<u64> = handled(&log, "A").iter().map(|x| x.1 - t0).collect();
            let mut bad = Vec::new();
            for (i, t) in ts.iter().enumerate() {
                let k = (i + 1) as u64;
                if *t < k * p {
                    bad.push(format!("interval message {k} arrived early, at {t} ns (period {p} ns)"));
                }
                if *t >= (k + 1) * p {
                    bad.push(format!("interval message {k} arrived at {t} ns: lateness accumulates (it should arrive in [{}, {}))", k * p, (k + 1) * p));
                }
            }
            if (ts.len() as u64) < exit_after_ticks {
                bad.push(format!("only {} interval messages in {exit_after_ticks} periods: {ts:?}", ts.len()));
            }
            if !finished {
                bad.push(format!("the interval task is still alive {} ns after its target stopped at {t_exit} ns", p + p / 2));
            }
            h.abort();
            Outcome {
                key: format!("ticks={ts:?} finished={finished}"),
                violations: bad,
            }
        })
    })
}

/// Timers armed while their target is still starting (status Starting: its mailbox already accepts messages).
/// The target comes from spawn_instant and its pre_start takes `start_half_periods` / 2 periods; the interval
/// and a one-shot timer are armed right after the start-up task began. Every tick is sent at k periods (those
/// of the start-up phase are handled as soon as the actor runs), the one-shot message arrives once.
fn timers_while_starting_body(period_ms: u64, start_half_periods: u64, total_ticks: u64) -> vsched::Body {
    Arc::new(move || {
        Box::pin(async move {
            let log = Log::default();
            let p = period_ms * 1_000_000;
            let start_ns = start_half_periods * p / 2;
            let prog = Prog { pre_start: vec![Step::Tick, Step::SleepMs(start_ns / 1_000_000), Step::Tick], ..Default::default() };
            let (a, outer) = ractor::ActorRuntime::<Probe>::spawn_instant(None, Probe, args("A", prog, &log)).expect("instant A");
            // let the start-up task begin: the actor is Starting from here on
            while a.get_status() == ractor::ActorStatus::Unstarted {
                vsched::yield_now().await;
            }
            let status_when_armed = a.get_status();
            let t0 = vsched::now();
            let h = arm_interval(&a, Duration::from_millis(period_ms), 0);
            let once = arm_after(&a, Duration::from_millis(period_ms), 2);
            let ah = outer.await.expect("outer").expect("A starts");
            let started_at = vsched::now() - t0;
            let exit_at = total_ticks * p + p / 4;
            vsched::sleep(Duration::from_nanos(exit_at.saturating_sub(started_at))).await;
            let all = handled(&log, "A");
            let ts: Vec<u64> = all.iter().filter(|x| x.0 == 1).map(|x| x.1 - t0).collect();
            let ones = all.iter().filter(|x| x.0 == 2).count();
            a.stop(None);
            let _ = ah.await;
            let mut bad = Vec::new();
            if status_when_armed != ractor::ActorStatus::Starting {
                bad.push(format!("(harness) the timers were meant to be armed while the target was Starting, it was {status_when_armed:?}"));
            }
            if ts.len() as u64 != total_ticks {
                bad.push(format!("an interval of {period_ms} ms armed while its target was starting (start-up took {start_ns} ns) delivered {} messages in {total_ticks} periods: {ts:?}", ts.len()));
            }
            for (i, t) in ts.iter().enumerate() {
                let k = (i + 1) as u64;
                let due = (k * p).max(started_at);
                if *t < k * p || *t > due {
                    bad.push(format!("interval message {k} was handled at {t} ns, expected at {due} ns (k periods, or the end of the start-up)"));
                }
            }
            if ones != 1 {
                bad.push(format!("a send_after armed while its target was starting delivered {ones} messages"));
            }
            if once.outcome().await != Ok(true) {
                bad.push("the send_after handle does not report success".to_string());
            }
            h.abort();
            Outcome { key: format!("ticks={ts:?} once={ones}"), violations: bad }
        })
    })
}

/// a one-shot timer (and an interval) armed on a spawn_instant actor whose start-up task has not been polled:
/// its mailbox already accepts messages, so the message is delivered once the actor runs, exactly once, and
/// the handle reports success; `hold` yields keep the start-up task from running for a while after the expiry
fn send_after_unstarted_body(period_ms: u64, hold: usize) -> vsched::Body {
    Arc::new(move || {
        Box::pin(async move {
            let log = Log::default();
            let (a, outer) = ractor::ActorRuntime::<Probe>::spawn_instant(None, Probe, args("A", Prog::default(), &log)).expect("instant A");
            let armed_in = a.get_status();
            let once = arm_after(&a, Duration::from_millis(period_ms), 2);
            let res = once.outcome().await;
            for _ in 0..hold {
                vsched::yield_now().await;
            }
            let ah = outer.await.expect("outer").expect("A starts");
            vsched::quiesce_time();
            let n = handled(&log, "A").iter().filter(|x| x.0 == 2).count();
            a.stop(None);
            let _ = ah.await;
            let mut bad = Vec::new();
            if n != 1 {
                bad.push(format!("send_after({period_ms} ms) armed on an actor that was {armed_in:?} (spawn_instant, start-up not yet run) delivered {n} messages"));
            }
            if res != Ok(true) {
                bad.push(format!("its handle reports {res:?} although the target was alive all along"));
            }
            Outcome { key: format!("n={n} res={res:?} armed_in={armed_in:?}"), violations: bad }
        })
    })
}

/// the target leaves the running states but takes several periods to reach Stopped (a post_stop that sleeps, or
/// a drain with a slow backlog): the interval task ends within one period of the target LEAVING THE RUNNING
/// STATES, not of its reaching Stopped, and builds at most one more message
fn interval_slow_exit_body(period_ms: u64, drain: bool) -> vsched::Body {
    Arc::new(move || {
        Box::pin(async move {
            let log = Log::default();
            let p = period_ms * MS;
            let prog = Prog { post_stop: vec![Step::SleepMs(4 * period_ms)], ..Default::default() };
            let (a, ah) = Actor::spawn(None, Probe, args("A", prog, &log)).await.expect("A");
            let built = Arc::new(std::sync::atomic::AtomicUsize::new(0));
            let b2 = built.clone();
            let t0 = vsched::now();
            let h = if derived() {
                a.get_derived::<DMsg>().send_interval(Duration::from_millis(period_ms), move || {
                    b2.fetch_add(1, std::sync::atomic::Ordering::SeqCst);
                    DMsg(1, vec![])
                })
            } else {
                a.send_interval(Duration::from_millis(period_ms), move || {
                    b2.fetch_add(1, std::sync::atomic::Ordering::SeqCst);
                    do_msg(1, vec![])
                })
            };
            vsched::sleep(Duration::from_nanos(2 * p + p / 4)).await;
            let built_before = built.load(std::sync::atomic::Ordering::SeqCst);
            if drain {
                let _ = a.cast(do_msg(9, vec![Step::SleepMs(4 * period_ms)]));
                let _ = a.drain();
            } else {
                a.stop(None);
            }
            // one period and a half later the target is still on its way out, the timer task must be gone
            vsched::sleep(Duration::from_nanos(p + p / 2)).await;
            let status = a.get_status();
            let finished = h.is_finished();
            let _ = ah.await;
            vsched::quiesce_time();
            let built_after = built.load(std::sync::atomic::Ordering::SeqCst) - built_before;
            let mut bad = Vec::new();
            if status == ractor::ActorStatus::Stopped {
                bad.push("(harness) the target was meant to be still on its way out".to_string());
            }
            if !finished {
                bad.push(format!("the interval task is still alive one and a half periods after its target left the running states (the target is {status:?}, started at {t0} ns)"));
            }
            if built_after > 1 {
                bad.push(format!("{built_after} interval messages were built after the target had left the running states"));
            }
            h.abort();
            Outcome { key: format!("finished={finished} built_after={built_after} status={status:?}"), violations: bad }
        })
    })
}

/// One-shot timers against a target that is on its way out for a while (its post_stop takes 4 periods; or it is
/// draining a slow backlog): one armed before the stop request that fires inside that stretch, one armed after the
/// target was seen in that state. "A timer whose target is no longer running delivers nothing and reports the
/// error through its handle."
fn send_after_slow_exit_body(period_ms: u64, drain: bool) -> vsched::Body {
    Arc::new(move || {
        Box::pin(async move {
            let log = Log::default();
            let p = period_ms * MS;
            let prog = Prog { post_stop: vec![Step::SleepMs(4 * period_ms)], ..Default::default() };
            let (a, ah) = Actor::spawn(None, Probe, args("A", prog, &log)).await.expect("A");
            let early = arm_after(&a, Duration::from_millis(2 * period_ms), 41);
            vsched::sleep(Duration::from_nanos(p)).await;
            if drain {
                let _ = a.cast(do_msg(9, vec![Step::SleepMs(4 * period_ms)]));
                let _ = a.drain();
            } else {
                a.stop(None);
            }
            vsched::sleep(Duration::from_nanos(p / 2)).await;
            let status_at_arm = a.get_status();
            let late = arm_after(&a, Duration::from_millis(period_ms), 42);
            let r_early = early.outcome().await;
            let r_late = late.outcome().await;
            let status_after = a.get_status();
            let _ = ah.await;
            vsched::quiesce_time();
            let mut bad = Vec::new();
            if !matches!(status_at_arm, ractor::ActorStatus::Stopping | ractor::ActorStatus::Draining) || status_after == ractor::ActorStatus::Stopped {
                bad.push(format!("(harness) the target was meant to be on its way out while the timers fired: {status_at_arm:?} / {status_after:?}"));
            }
            for (what, r) in [("armed before the exit began, fired while the target was on its way out", r_early), ("armed while the target was on its way out", r_late)] {
                if r != Ok(false) {
                    bad.push(format!("a send_after timer {what} ({status_at_arm:?}) ended as {r:?}: its handle must report the error"));
                }
            }
            let got: Vec<u32> = handled(&log, "A").iter().map(|x| x.0).filter(|t| *t == 41 || *t == 42).collect();
            if !got.is_empty() {
                bad.push(format!("timer messages {got:?} were handled by a target that was no longer running when they fired"));
            }
            Outcome { key: format!("{r_early:?} {r_late:?} {status_at_arm:?}"), violations: bad }
        })
    })
}

fn exit_kill_after_body(period_ms: u64, kill: bool, busy: bool) -> vsched::Body {
    exit_kill_after_body_x(period_ms, kill, busy, false)
}

/// `instant`: the target comes from spawn_linked_instant and the timer is armed before its start-up task ran
fn exit_kill_after_body_x(period_ms: u64, kill: bool, busy: bool, instant: bool) -> vsched::Body {
    Arc::new(move || {
        Box::pin(async move {
            let log = Log::default();
            let (s, sh) = Actor::spawn(None, Probe, args("S", Prog::default(), &log)).await.expect("S");
            let t0 = vsched::now();
            let (a, ah, h) = if instant {
                let (a, outer) = ractor::ActorRuntime::<Probe>::spawn_linked_instant(None, Probe, args("A", Prog::default(), &log), s.get_cell()).expect("instant A");
                // armed at once: the target is still Unstarted
                let h = arm_exit(&a, Duration::from_millis(period_ms), kill);
                let ah = outer.await.expect("outer").expect("A starts");
                (a, ah, h)
            } else {
                let (a, ah) = Actor::spawn_linked(None, Probe, args("A", Prog::default(), &log), s.get_cell()).await.expect("A");
                let h = arm_exit(&a, Duration::from_millis(period_ms), kill);
                (a, ah, h)
            };
            if busy {
                let _ = a.cast(do_msg(1, vec![Step::SleepMs(period_ms + 2), Step::Tick]));
            }
            let _ = ah.await;
            let t_stop = vsched::now() - t0;
            let _ = h.await;
            vsched::quiesce_time();
            let mut bad = Vec::new();
            if t_stop < period_ms * MS {
                bad.push(format!("the actor stopped after {t_stop} ns, before the {period_ms} ms period elapsed"));
            }
            let term: Vec<String> = log
                .of("S")
                .iter()
                .filter_map(|e| match (&e.cb, &e.kind) {
                    (Cb::Sup(d), EvKind::Enter) if d.starts_with("Terminated") || d.starts_with("Failed") => Some(d.clone()),
                    _ => None,
                })
                .collect();
            let want = if kill { "reason=Some(\"killed\")".to_string() } else { format!("reason=Some(\"Exit after {period_ms}ms\")") };
            if term.len() != 1 || !term[0].contains(&want) {
                bad.push(format!("expected one termination with {want}, the supervisor saw {term:?}"));
            }
            if kill && busy && log.of("A").iter().any(|e| e.kind == EvKind::Tick(1) && matches!(e.cb, Cb::Handle(1))) {
                bad.push("kill_after did not interrupt the running handler".into());
            }
            s.stop(None);
            let _ = sh.await;
            Outcome {
                key: format!("t_stop={t_stop} term={term:?}"),
                violations: bad,
            }
        })
    })
}

/// an interval whose handle is aborted after `ticks` periods and a quarter: nothing is delivered afterwards
fn interval_abort_body(period_ms: u64, ticks: u64) -> vsched::Body {
    Arc::new(move || {
        Box::pin(async move {
            let log = Log::default();
            let (a, ah) = Actor::spawn(None, Probe, args("A", Prog::default(), &log)).await.expect("A");
            let t0 = vsched::now();
            let p = period_ms * MS;
            let h = a.send_interval(Duration::from_millis(period_ms), || do_msg(1, vec![]));
            vsched::sleep(Duration::from_nanos(ticks * p + p / 4)).await;
            h.abort();
            let aborted_at = vsched::now() - t0;
            vsched::sleep(Duration::from_nanos(3 * p)).await;
            vsched::quiesce_time();
            let ts: Vec<u64> = handled(&log, "A").iter().map(|x| x.1 - t0).collect();
            let mut bad = Vec::new();
            if ts.len() as u64 != ticks {
                bad.push(format!("the interval handle was aborted at {aborted_at} ns after {ticks} ticks, but {} messages were delivered: {ts:?}", ts.len()));
            }
            if a.get_status() != ractor::ActorStatus::Running {
                bad.push(format!("aborting the interval handle left the target {:?}", a.get_status()));
            }
            a.stop(None);
            let _ = ah.await;
            Outcome { key: format!("ticks={ts:?}"), violations: bad }
        })
    })
}

/// exit_after / kill_after whose handle is aborted before the period elapsed: the actor keeps running
fn exit_kill_abort_body(period_ms: u64, kill: bool) -> vsched::Body {
    Arc::new(move || {
        Box::pin(async move {
            let log = Log::default();
            let (a, ah) = Actor::spawn(None, Probe, args("A", Prog::default(), &log)).await.expect("A");
            let h = arm_exit(&a, Duration::from_millis(period_ms), kill);
            if period_ms > 0 {
                vsched::sleep(Duration::from_nanos(period_ms * MS / 2)).await;
            }
            h.abort();
            vsched::sleep(Duration::from_nanos(2 * period_ms * MS + MS)).await;
            vsched::quiesce_time();
            let mut bad = Vec::new();
            let st = a.get_status();
            if st != ractor::ActorStatus::Running {
                bad.push(format!("{} was aborted before its period elapsed but the actor is {st:?}", if kill { "kill_after" } else { "exit_after" }));
            }
            let answered = a.call(|reply| PMsg::Call { tag: 5, reply, steps: vec![] }, Some(Duration::from_millis(5))).await;
            if !matches!(answered, Ok(ractor::rpc::CallResult::Success(5))) && st == ractor::ActorStatus::Running {
                bad.push("the actor no longer answers after the aborted timer".into());
            }
            a.stop(None);
            let _ = ah.await;
            Outcome { key: format!("{st:?}"), violations: bad }
        })
    })
}

/// registers a unit; with `dv` the same body runs with timers armed through a derived reference. The quick
/// tier keeps the derived twin of the units that differ between the two implementations: live one-shots,
/// exits around the expiry, intervals, and everything armed on a target that has not started yet
fn mk(units: &mut Vec<Unit>, dv: bool, name: String, cfg: ExecCfg, bound: Option<usize>, body: vsched::Body) {
    if dv {
        let keep = THOROUGH.load(std::sync::atomic::Ordering::SeqCst)
            || name.contains("/live") || name.contains("exit@") || name.starts_with("interval/") || name.contains("instant-target") || name.starts_with("while-starting") || name.contains("abort@0");
        if !keep {
            return;
        }
        units.push(Unit::explore(Job::new(format!("derived/{name}"), cfg, bound, with_ref(true, body))));
    } else {
        units.push(Unit::explore(Job::new(name, cfg, bound, with_ref(false, body))));
    }
}
static THOROUGH: std::sync::atomic::AtomicBool = std::sync::atomic::AtomicBool::new(false);

pub fn plan(tier: &str) -> Plan {
    let thorough = tier == "thorough";
    THOROUGH.store(thorough, std::sync::atomic::Ordering::SeqCst);
    let cfg = ExecCfg::default();
    let bound = if thorough { 4 } else { 3 };
    let mut units = Vec::new();
    // every unit once with the typed reference; in the thorough tier all of them again through a derived
    // reference, in the quick tier a selection (see `mk`)
    for dv in [false, true] {
    for period in [0u64, 1, 5] {
        mk(&mut units, dv, format!("send_after/{period}ms/live"), cfg.clone(), Some(bound), send_after_body(period, None, None, false));
    }
    for (exit, kill) in [(4u64, false), (5, false), (6, false), (4, true), (5, true)] {
        mk(&mut units, dv, format!("send_after/5ms/exit@{exit}ms{}", if kill { "-kill" } else { "" }), cfg.clone(), Some(bound), send_after_body(5, Some(exit), None, kill));
    }
    // zero and sub-millisecond periods: never early, and an abort before the timer task ran prevents delivery
    for period_us in [0u64, 1, 900, 1500] {
        mk(&mut units, dv, format!("send_after/{period_us}us/live"), cfg.clone(), Some(bound), send_after_body_us(period_us, None, None, false));
        mk(&mut units, dv, format!("send_after/{period_us}us/abort@0"), cfg.clone(), Some(bound), send_after_body_us(period_us, None, Some(0), false));
        if period_us > 1 {
            mk(&mut units, dv, format!("send_after/{period_us}us/abort@{}us", period_us / 2), cfg.clone(), Some(bound), send_after_body_us(period_us, None, Some(period_us / 2), false));
            mk(&mut units, dv, format!("send_after/{period_us}us/exit@{}us", period_us / 2), cfg.clone(), Some(bound), send_after_body_us(period_us, Some(period_us / 2), None, false));
        }
    }
    for ab in [0u64, 4, 5, 6] {
        mk(&mut units, dv, format!("send_after/5ms/abort@{ab}ms"), cfg.clone(), Some(bound), send_after_body(5, None, Some(ab), false));
    }
    for (p, burn, ticks, kill) in [(1u64, false, 3u64, false), (5, true, 4, false), (5, true, 3, true), (1, true, 5, false)] {
        mk(&mut units, dv, 
            format!("interval/{p}ms/burn={burn}/{ticks}ticks{}", if kill { "-kill" } else { "" }),
            cfg.clone(),
            Some(bound),
            interval_body(p, burn, ticks, kill),
        );
    }
    for (p, kill, busy) in [(5u64, false, false), (5, true, false), (5, true, true), (5, false, true), (0, false, false), (1, true, false)] {
        mk(&mut units, dv, format!("{}/{p}ms/busy={busy}", if kill { "kill_after" } else { "exit_after" }), cfg.clone(), Some(bound), exit_kill_after_body(p, kill, busy));
    }
    // sub-millisecond intervals: the k-th message still arrives at k periods
    for (p_us, burn, ticks) in [(200u64, false, 5u64), (500, true, 3), (999, false, 2), (1500, false, 3)] {
        mk(&mut units, dv, format!("interval/{p_us}us/burn={burn}/{ticks}ticks"), cfg.clone(), Some(bound), interval_body_us(p_us, burn, ticks, false));
    }
    for (p, ticks) in [(1u64, 0u64), (1, 2), (5, 1), (5, 3)] {
        mk(&mut units, dv, format!("interval/{p}ms/abort-after-{ticks}ticks"), cfg.clone(), Some(bound), interval_abort_body(p, ticks));
    }
    for (p, kill) in [(0u64, false), (5, false), (5, true)] {
        mk(&mut units, dv, format!("{}/{p}ms/instant-target", if kill { "kill_after" } else { "exit_after" }), cfg.clone(), Some(bound), exit_kill_after_body_x(p, kill, false, true));
    }
    for (p, drain) in [(2u64, false), (2, true), (5, false)] {
        mk(&mut units, dv, format!("interval/{p}ms/slow-exit-{}", if drain { "drain" } else { "stop" }), cfg.clone(), Some(bound), interval_slow_exit_body(p, drain));
        mk(&mut units, dv, format!("interval/{p}ms/slow-exit-{}/one-shot-timers", if drain { "drain" } else { "stop" }), cfg.clone(), Some(bound), send_after_slow_exit_body(p, drain));
    }
    for (p, hold) in [(0u64, 0usize), (5, 0), (1, 3)] {
        mk(&mut units, dv, format!("send_after/{p}ms/instant-target-hold{hold}"), cfg.clone(), Some(bound), send_after_unstarted_body(p, hold));
    }
    for (p, halves, ticks) in [(2u64, 7u64, 6u64), (1, 4, 3), (5, 1, 2)] {
        mk(&mut units, dv, format!("while-starting/{p}ms/startup-{halves}-half-periods/{ticks}ticks"), cfg.clone(), Some(bound), timers_while_starting_body(p, halves, ticks));
    }
    for (p, kill) in [(0u64, false), (0, true), (1, false), (5, false), (5, true)] {
        mk(&mut units, dv, format!("{}/{p}ms/aborted", if kill { "kill_after" } else { "exit_after" }), cfg.clone(), Some(bound), exit_kill_abort_body(p, kill));
    }
    }
    Plan {
        property: "C12",
        units,
        rule: "period in {0, 1 us, 900 us, 1.5 ms, 1 ms, 5 ms} x target exit before / exactly at / after the expiry (stop or kill) x handle abort right after the handle was obtained (before the timer task ran) / before / at / after the expiry x intervals of 200 us .. 5 ms with message construction that burns half a period x aborted interval handles x exit_after / kill_after on idle and busy actors, on an instant spawn that has not started yet, and with their handle aborted half-way, on the virtual clock; a deviation-bounded DFS explores same-instant ties (timer vs. unrelated ready task vs. exit); oracle on exact virtual timestamps; non-trivial = execution with >= 1 branching decision".into(),
        assumptions: vec![
            "the seam's Interval (next_tick += period, the algorithm of the repository's async-std backend) stands in for tokio's Interval: the no-drift clause is decided for the loop in time.rs on top of it, not for tokio's timer wheel".into(),
            "computation takes zero virtual time unless the harness burns it".into(),
        ],
        engine: "vsched (shuttle coroutines + deviation-bounded DFS + virtual clock) on the real ractor code",
    }
}
