//! C02 — the mailbox delivers accepted messages once, in order.
use std::sync::Arc;

use ractor::verif::inspect::{self, Mail};
use ractor::{Actor, ActorProcessingErr, ActorRef, ActorStatus, MessagingErr};
use vsched::explore::Job;
use vsched::report::{Plan, Unit};
use vsched::{ExecCfg, Outcome, PointKind};

use crate::common::*;

struct Dummy;
#[cfg_attr(feature = "alt", ractor::async_trait)]
impl Actor for Dummy {
    type Msg = u32;
    type State = ();
    type Arguments = ();
    async fn pre_start(&self, _m: ActorRef<u32>, _: ()) -> Result<(), ActorProcessingErr> {
        Ok(())
    }
}

/// the message type of a reference derived from a (wrongly typed) `ActorRef<String>`
struct WrongDerived(String);
impl From<WrongDerived> for String {
    fn from(w: WrongDerived) -> String {
        w.0
    }
}
impl TryFrom<String> for WrongDerived {
    type Error = ();
    fn try_from(s: String) -> Result<Self, ()> {
        Ok(WrongDerived(s))
    }
}
#[cfg(feature = "alt")]
impl ractor::Message for WrongDerived {}

#[derive(Clone, Copy, Debug, PartialEq, Eq)]
enum Closer {
    None,
    Stop,
    Kill,
    Drain,
    /// the exit path of an actor: Stopping, ports dropped, Stopped (core harness only)
    Exit,
}

/// (call, ret, tag, accepted, handed_back_tag, other_error)
type Rec = (u64, u64, u32, bool, Option<u32>, Option<String>);

fn order_clauses(sends: &[Rec], handled: &[u32], what: &str) -> Vec<String> {
    let mut bad = Vec::new();
    let pos = |t: u32| handled.iter().position(|x| *x == t);
    for a in sends {
        for b in sends {
            if a.2 != b.2 && a.3 && b.3 && a.1 < b.0 {
                if let (Some(pa), Some(pb)) = (pos(a.2), pos(b.2)) {
                    if pa > pb {
                        bad.push(format!(
                            "send of {} completed before send of {} began, but {} was {what} first: {handled:?}",
                            a.2, b.2, b.2
                        ));
                    }
                }
            }
        }
    }
    bad
}

fn core_body(senders: usize, per: usize, closer: Closer) -> vsched::Body {
    Arc::new(move || {
        Box::pin(async move {
            let (cell, ports) = inspect::detached::<Dummy>(None).expect("cell");
            inspect::set_status(&cell, ActorStatus::Running);
            let ports = Arc::new(std::sync::Mutex::new(Some(ports)));
            let mut hs = Vec::new();
            for s in 0..senders {
                let cell = cell.clone();
                hs.push(vsched::spawn("sender", async move {
                    let mut recs: Vec<Rec> = Vec::new();
                    for k in 0..per {
                        let m = (s * 10 + k + 1) as u32;
                        let call = vsched::call_stamp();
                        let r = cell.send_message::<u32>(m);
                        let ret = vsched::ret_stamp();
                        recs.push(match r {
                            Ok(()) => (call, ret, m, true, None, None),
                            Err(MessagingErr::SendErr(x)) => (call, ret, m, false, Some(x), None),
                            Err(e) => (call, ret, m, false, None, Some(format!("{e:?}"))),
                        });
                    }
                    recs
                }));
            }
            let c2 = cell.clone();
            let p2 = ports.clone();
            let cl = vsched::spawn("closer", async move {
                let mut before_close: Vec<String> = Vec::new();
                match closer {
                    Closer::None | Closer::Stop | Closer::Kill => {}
                    Closer::Drain => {
                        let _ = c2.drain();
                    }
                    Closer::Exit => {
                        inspect::set_status(&c2, ActorStatus::Stopping);
                        // the actor task drops its ports when it ends: whatever is queued is discarded
                        let mut p = p2.lock().unwrap().take().unwrap();
                        while let Some(m) = p.try_recv_message() {
                            if let Mail::Message(b) = m {
                                before_close.push(format!("{}", <u32 as ractor::Message>::from_boxed(b).unwrap()));
                            }
                        }
                        drop(p);
                        inspect::set_status(&c2, ActorStatus::Stopped);
                    }
                }
                (vsched::ret_stamp(), before_close)
            });
            vsched::quiesce();
            let mut sends: Vec<Rec> = Vec::new();
            for h in hs {
                sends.extend(h.await.expect("sender"));
            }
            let (close_ret, consumed) = cl.await.expect("closer");
            let mut mail: Vec<String> = consumed.clone();
            if let Some(mut p) = ports.lock().unwrap().take() {
                while let Some(m) = p.try_recv_message() {
                    match m {
                        Mail::Drain => mail.push("D".into()),
                        Mail::Message(b) => mail.push(format!("{}", <u32 as ractor::Message>::from_boxed(b).unwrap())),
                    }
                }
            }
            let mut bad = Vec::new();
            let in_mail: Vec<u32> = mail.iter().filter(|m| *m != "D").map(|m| m.parse().unwrap()).collect();
            for s in &sends {
                let n = in_mail.iter().filter(|x| **x == s.2).count();
                if s.3 {
                    if n > 1 {
                        bad.push(format!("message {} accepted once but queued {n} times", s.2));
                    }
                    if n == 0 && closer != Closer::Exit {
                        bad.push(format!("message {} was accepted but is not in the mailbox: {mail:?}", s.2));
                    }
                } else {
                    if n != 0 {
                        bad.push(format!("send of {} returned Err but the message is in the mailbox", s.2));
                    }
                    match (&s.4, &s.5) {
                        (Some(x), _) if *x == s.2 => {}
                        (Some(x), _) => bad.push(format!("send of {} handed back {x}", s.2)),
                        (None, e) => bad.push(format!("send of {} failed with {e:?} instead of handing the message back", s.2)),
                    }
                    if closer == Closer::None || closer == Closer::Stop || closer == Closer::Kill {
                        bad.push(format!("send of {} to a running actor was rejected", s.2));
                    }
                }
                if s.3 && s.0 > close_ret && matches!(closer, Closer::Drain | Closer::Exit) {
                    bad.push(format!("send of {} began after the mailbox was closed but returned Ok", s.2));
                }
            }
            bad.extend(order_clauses(&sends, &in_mail, "queued"));
            Outcome {
                key: format!("sends={:?} mail={mail:?}", sends.iter().map(|s| (s.2, s.3)).collect::<Vec<_>>()),
                violations: bad,
            }
        })
    })
}

fn live_body(senders: usize, per: usize, closer: Closer, self_send: bool, wrong_type: bool) -> vsched::Body {
    live_body_x(senders, per, closer, self_send, wrong_type, false, false)
}

/// `local`: A is a thread-local actor; `sup_events`: while the senders run, supervision events keep arriving
/// at A (it monitors a process group that two bystanders join and leave; its handler logs them and goes on)
fn live_body_x(senders: usize, per: usize, closer: Closer, self_send: bool, wrong_type: bool, local: bool, sup_events: bool) -> vsched::Body {
    Arc::new(move || {
        Box::pin(async move {
            let log = Log::default();
            let spawner = ractor::thread_local::ThreadLocalActorSpawner::verif_new_local();
            let (a, h) = if local {
                <Probe as ractor::thread_local::ThreadLocalActor>::spawn(None, args("A", Prog::default(), &log), spawner.clone()).await.expect("A (thread-local)")
            } else {
                Actor::spawn(None, Probe, args("A", Prog::default(), &log)).await.expect("A")
            };
            let mut stim = None;
            let mut bystanders = Vec::new();
            if sup_events {
                let (x, xh) = Actor::spawn(None, Probe, args("X", Prog::default(), &log)).await.expect("X");
                let (y, yh) = Actor::spawn(None, Probe, args("Y", Prog::default(), &log)).await.expect("Y");
                ractor::pg::monitor("c02".to_string(), a.get_cell());
                let (x2, y2) = (x.clone(), y.clone());
                stim = Some(vsched::spawn("stimulus", async move {
                    ractor::pg::join("c02".to_string(), vec![x2.get_cell()]);
                    vsched::yield_now().await;
                    ractor::pg::join("c02".to_string(), vec![y2.get_cell()]);
                    vsched::yield_now().await;
                    ractor::pg::leave("c02".to_string(), vec![x2.get_cell()]);
                    vsched::yield_now().await;
                    ractor::pg::leave("c02".to_string(), vec![y2.get_cell()]);
                }));
                bystanders = vec![(x, xh), (y, yh)];
            }
            let mut hs = Vec::new();
            for s in 0..senders {
                let a = a.clone();
                hs.push(vsched::spawn("sender", async move {
                    let mut recs: Vec<Rec> = Vec::new();
                    for k in 0..per {
                        let m = (s * 10 + k + 1) as u32;
                        let steps = if self_send && k == 0 { vec![Step::SendSelf(m + 100), Step::Tick] } else { vec![Step::Tick] };
                        let call = vsched::call_stamp();
                        let r = a.send_message(do_msg(m, steps));
                        let ret = vsched::ret_stamp();
                        recs.push(match r {
                            Ok(()) => (call, ret, m, true, None, None),
                            Err(MessagingErr::SendErr(PMsg::Do { tag, .. })) => (call, ret, m, false, Some(tag), None),
                            Err(e) => (call, ret, m, false, None, Some(format!("{e:?}"))),
                        });
                    }
                    recs
                }));
            }
            let mut wrong = None;
            if wrong_type {
                let cell = a.get_cell();
                wrong = Some(vsched::spawn("sender", async move {
                    // every public way of sending, through a handle of the wrong message type
                    let mut ok = matches!(cell.send_message::<String>("not a PMsg".to_string()), Err(MessagingErr::InvalidActorType));
                    let typed: ractor::ActorRef<String> = cell.clone().into();
                    ok &= matches!(typed.send_message("not a PMsg".to_string()), Err(MessagingErr::InvalidActorType));
                    ok &= matches!(typed.cast("not a PMsg".to_string()), Err(MessagingErr::InvalidActorType));
                    ok &= matches!(ractor::rpc::cast(&cell, "not a PMsg".to_string()), Err(MessagingErr::InvalidActorType));
                    let r = typed.call(|_reply: ractor::RpcReplyPort<u32>| "not a PMsg".to_string(), Some(std::time::Duration::from_millis(5))).await;
                    ok &= matches!(r, Err(MessagingErr::InvalidActorType));
                    let r = ractor::rpc::call(&cell, |_reply: ractor::RpcReplyPort<u32>| "not a PMsg".to_string(), Some(std::time::Duration::from_millis(5))).await;
                    ok &= matches!(r, Err(MessagingErr::InvalidActorType));
                    let h = typed.send_after(std::time::Duration::from_millis(1), || "not a PMsg".to_string());
                    ok &= matches!(h.await, Ok(Err(MessagingErr::InvalidActorType)));
                    // ... and through a reference derived from the wrongly typed one
                    let derived = typed.get_derived::<WrongDerived>();
                    ok &= matches!(derived.send_message(WrongDerived("not a PMsg".into())), Err(MessagingErr::InvalidActorType));
                    ok &= matches!(derived.cast(WrongDerived("not a PMsg".into())), Err(MessagingErr::InvalidActorType));
                    let r = derived.call(|_reply: ractor::RpcReplyPort<u32>| WrongDerived("not a PMsg".into()), Some(std::time::Duration::from_millis(5))).await;
                    ok &= matches!(r, Err(MessagingErr::InvalidActorType));
                    let h = derived.send_after(std::time::Duration::from_millis(1), || WrongDerived("not a PMsg".into()));
                    ok &= matches!(h.await, Ok(Err(MessagingErr::InvalidActorType)));
                    ok
                }));
            }
            let a2 = a.clone();
            let cl = vsched::spawn("closer", async move {
                match closer {
                    Closer::None | Closer::Exit => {}
                    Closer::Stop => a2.stop(None),
                    Closer::Kill => a2.kill(),
                    Closer::Drain => {
                        let _ = a2.drain();
                    }
                }
                vsched::ret_stamp()
            });
            vsched::quiesce();
            let mut sends: Vec<Rec> = Vec::new();
            for h in hs {
                sends.extend(h.await.expect("sender"));
            }
            let close_ret = cl.await.expect("closer");
            let wrong_ok = match wrong {
                Some(w) => w.await,
                None => Some(true),
            };
            if closer == Closer::None {
                vsched::quiesce();
                a.stop(None);
            }
            if let Some(st) = stim {
                let _ = st.await;
            }
            let joined = h.await.is_ok();
            for (b, bh) in bystanders {
                b.stop(None);
                let _ = bh.await;
            }
            let evs = log.of("A");
            let handled: Vec<u32> = evs
                .iter()
                .filter_map(|e| match (&e.cb, &e.kind) {
                    (Cb::Handle(t), EvKind::Enter) => Some(*t),
                    _ => None,
                })
                .collect();
            let mut bad = Vec::new();
            if !joined {
                bad.push("join handle failed".into());
            }
            if wrong_ok != Some(true) {
                bad.push("a send (send_message / cast / call / send_after, through the cell or a wrongly typed ActorRef) with the wrong message type was not rejected with InvalidActorType".into());
            }
            for s in &sends {
                let n = handled.iter().filter(|x| **x == s.2).count();
                if s.3 {
                    if n > 1 {
                        bad.push(format!("message {} accepted once but handled {n} times", s.2));
                    }
                    if n == 0 && matches!(closer, Closer::None | Closer::Drain) {
                        bad.push(format!("message {} was accepted, the actor did not exit early, but it was never handled: {handled:?}", s.2));
                    }
                } else {
                    if n != 0 {
                        bad.push(format!("send of {} returned Err but the message was handled", s.2));
                    }
                    match (&s.4, &s.5) {
                        (Some(x), _) if *x == s.2 => {}
                        (Some(x), _) => bad.push(format!("send of {} handed back {x}", s.2)),
                        (None, e) => bad.push(format!("send of {} failed with {e:?} instead of handing the message back", s.2)),
                    }
                    if closer == Closer::None {
                        bad.push(format!("send of {} to a running actor was rejected", s.2));
                    }
                }
                if s.3 && s.0 > close_ret && closer == Closer::Drain {
                    bad.push(format!("send of {} began after drain() returned but was accepted", s.2));
                }
            }
            bad.extend(order_clauses(&sends, &handled, "handled"));
            // self-sent messages: handled at most once, and after the message that sent them
            for t in handled.iter().filter(|t| **t > 100) {
                if handled.iter().filter(|x| *x == t).count() > 1 {
                    bad.push(format!("self-sent message {t} handled twice"));
                }
                let parent = handled.iter().position(|x| *x == t - 100);
                let me = handled.iter().position(|x| x == t);
                if parent.is_none() || parent > me {
                    bad.push(format!("self-sent message {t} handled before the message that sent it: {handled:?}"));
                }
            }
            bad.extend(check_lifecycle(&log.snapshot(), "A", &ExitFacts::default()));
            Outcome {
                key: format!("sends={:?} handled={handled:?}", sends.iter().map(|s| (s.2, s.3)).collect::<Vec<_>>()),
                violations: bad,
            }
        })
    })
}

/// cluster build: a cell with a remote id (what a session creates for a peer's actor) only takes messages that
/// can be serialized; anything else is refused with InvalidActorType, nothing is queued, and serializable
/// messages sent before and after it are queued in order
#[cfg(feature = "alt")]
fn remote_cell_body() -> vsched::Body {
    struct NotSerializable(#[allow(dead_code)] u32);
    impl ractor::Message for NotSerializable {}
    Arc::new(move || {
        Box::pin(async move {
            let (cell, mut ports) = inspect::detached_remote::<Dummy>(ractor::ActorId::Remote { node_id: 3, pid: 77 }).expect("remote cell");
            inspect::set_status(&cell, ActorStatus::Running);
            let mut bad = Vec::new();
            let r1 = cell.send_message::<u32>(1);
            let r2 = cell.send_message::<NotSerializable>(NotSerializable(2));
            let typed: ActorRef<NotSerializable> = cell.clone().into();
            let r3 = typed.cast(NotSerializable(3));
            let r4 = cell.send_message::<u32>(4);
            if r1.is_err() || r4.is_err() {
                bad.push(format!("serializable messages to a remote-id cell were refused: {:?} {:?}", r1.is_ok(), r4.is_ok()));
            }
            if !matches!(r2, Err(MessagingErr::InvalidActorType)) || !matches!(r3, Err(MessagingErr::InvalidActorType)) {
                bad.push(format!("a message that cannot be serialized was not refused with InvalidActorType by a remote-id cell (send_message ok={}, cast ok={})", r2.is_ok(), r3.is_ok()));
            }
            let mut queued = 0usize;
            let mut local_boxes = 0usize;
            while let Some(m) = ports.try_recv_message() {
                if let Mail::Message(b) = m {
                    queued += 1;
                    if b.serialized_msg.is_none() {
                        local_boxes += 1;
                    }
                }
            }
            if queued != 2 || local_boxes != 0 {
                bad.push(format!("the remote-id cell's mailbox holds {queued} messages ({local_boxes} of them not serialized), expected the 2 serializable ones"));
            }
            inspect::set_status(&cell, ActorStatus::Stopped);
            Outcome { key: format!("queued={queued}"), violations: bad }
        })
    })
}
#[cfg(not(feature = "alt"))]
fn remote_cell_body() -> vsched::Body {
    crate::common::wrong_build()
}

const S_KINDS: &[PointKind] = &[PointKind::Atomic, PointKind::Channel, PointKind::Lock, PointKind::Other];

pub fn plan(tier: &str) -> Plan {
    let thorough = tier == "thorough";
    let core_cfg = ExecCfg {
        filter: Some(vsched::filter_roles(S_KINDS, &["sender", "closer"])),
        fresh_thread: false,
        keep_trace: false,
        stack: 1 << 17,
        ..Default::default()
    };
    let mut units = Vec::new();
    for closer in [Closer::None, Closer::Drain, Closer::Exit] {
        units.push(Unit::explore_split(
            Job::new(format!("core/2x1/{closer:?}"), core_cfg.clone(), None, core_body(2, 1, closer)),
            4,
        ));
        units.push(Unit::explore_split(
            Job::new(format!("core/2x2/{closer:?}"), core_cfg.clone(), Some(if thorough { 4 } else { 3 }), core_body(2, 2, closer)),
            8,
        ));
        if thorough {
            units.push(Unit::explore_split(
                Job::new(format!("core/3x1/{closer:?}"), core_cfg.clone(), Some(4), core_body(3, 1, closer)),
                8,
            ));
        }
    }
    let live_cfg = ExecCfg {
        filter: Some(vsched::filter_roles(S_KINDS, &["sender", "closer"])),
        ..Default::default()
    };
    let lb = if thorough { 3 } else { 2 };
    for closer in [Closer::None, Closer::Stop, Closer::Kill, Closer::Drain] {
        units.push(Unit::explore_split(
            Job::new(format!("live/2x2/{closer:?}"), live_cfg.clone(), Some(lb), live_body(2, 2, closer, false, false)),
            4,
        ));
    }
    units.push(Unit::explore_split(Job::new("live/2x1+selfsend/Drain", live_cfg.clone(), Some(lb), live_body(2, 1, Closer::Drain, true, false)), 4));
    units.push(Unit::explore_split(Job::new("live/1x2+selfsend/Stop", live_cfg.clone(), Some(lb), live_body(1, 2, Closer::Stop, true, false)), 4));
    units.push(Unit::explore_split(Job::new("live/2x1+wrongtype/None", live_cfg.clone(), Some(lb), live_body(2, 1, Closer::None, false, true)), 4));
    if thorough {
        units.push(Unit::explore_split(Job::new("live/3x1/Drain", live_cfg.clone(), Some(3), live_body(3, 1, Closer::Drain, false, false)), 8));
    }
    // supervision events keep arriving while messages flow (Send and thread-local actors): an accepted message
    // is not lost to an event that overtakes it
    let ev_cfg = ExecCfg::default();
    for (local, closer) in [(false, Closer::None), (true, Closer::None), (true, Closer::Drain), (false, Closer::Drain)] {
        units.push(Unit::explore_split(
            Job::new(format!("live/{}/2x2+supervision-events/{closer:?}", if local { "thread-local" } else { "send" }), ev_cfg.clone(), Some(lb + 1), live_body_x(2, 2, closer, false, false, local, true)),
            4,
        ));
    }
    // the same with a decision point right after the actor took an item off one of its ports: an event can land
    // between the moment the loop picked a message and the moment it acts on it
    let picked_cfg = ExecCfg { filter: Some(Arc::new(|_k, l, t: &vsched::TaskInfo| l == "mpsc.recv.ready" && t.role == "lib")), ..Default::default() };
    for (local, closer) in [(false, Closer::None), (false, Closer::Drain), (true, Closer::None)] {
        units.push(Unit::explore_split(
            Job::new(format!("live/{}/2x2+supervision-events+picked/{closer:?}", if local { "thread-local" } else { "send" }), picked_cfg.clone(), Some(lb), live_body_x(2, 2, closer, false, false, local, true)),
            4,
        ));
    }
    units.push(Unit::explore_split(Job::new("live/thread-local/2x2/Stop", live_cfg.clone(), Some(lb), live_body_x(2, 2, Closer::Stop, false, false, true, false)), 4));
    units.push(crate::common::alt_unit("alt/remote-id-cell/unserializable-refused".into(), ExecCfg::default(), Some(0), remote_cell_body(), 1));
    // task granularity: the same with no preemption inside the send path
    let t_cfg = ExecCfg::default();
    units.push(Unit::explore(Job::new("task/2x2+selfsend/Stop", t_cfg.clone(), Some(lb + 1), live_body(2, 2, Closer::Stop, true, true))));
    Plan {
        property: "C02",
        units,
        rule: "stateless DFS over schedules of 2-3 senders x closer (none/stop/kill/drain/exit path) on the real send path, decision point before every atomic, lock and channel operation of senders and closer; complete tree (sleep-set POR) for the 2x1 cores, deviation-bounded otherwise; oracle: ledger of accepted / handed-back messages against the real mailbox or the real actor's handler log, plus real-time order (send a returned before send b began => a first); non-trivial = execution with >= 1 branching decision".into(),
        assumptions: vec![
            "sequential consistency".into(),
            "tokio channel operations are atomic steps".into(),
            "bounds: 2-3 senders, 1-2 messages each".into(),
        ],
        engine: "vsched (shuttle coroutines + DFS with sleep sets / deviation bound) on the real ractor code",
    }
}
