//! Checks for the actor-core properties. Usage: checks-core <PROPERTY> <quick|thorough|replay <file>>
vsched::getrandom_shim!();

mod c01;
mod c02;
mod c03;
mod c04;
mod c05;
mod c06;
mod c07;
mod c08;
mod c09;
mod c10;
mod c11;
mod c12;
mod c16;
mod common;
mod lifecycle;

fn main() {
    let args: Vec<String> = std::env::args().skip(1).collect();
    let Some(prop) = args.first().cloned() else {
        eprintln!("usage: checks-core <PROPERTY> <quick|thorough|replay FILE>");
        std::process::exit(2);
    };
    let rest = &args[1..];
    let code = match prop.as_str() {
        "C01" => vsched::report::run_property(rest, &c01::plan),
        "C02" => vsched::report::run_property(rest, &c02::plan),
        "C03" => vsched::report::run_property(rest, &c03::plan),
        "C04" => vsched::report::run_property(rest, &c04::plan),
        "C05" => vsched::report::run_property(rest, &c05::plan),
        "C06" => vsched::report::run_property(rest, &c06::plan),
        "C07" => vsched::report::run_property(rest, &c07::plan),
        "C08" => vsched::report::run_property(rest, &c08::plan),
        "C09" => vsched::report::run_property(rest, &c09::plan),
        "C10" => vsched::report::run_property(rest, &c10::plan),
        "C11" => vsched::report::run_property(rest, &c11::plan),
        "C12" => vsched::report::run_property(rest, &c12::plan),
        "C16" => vsched::report::run_property(rest, &c16::plan),
        _ => {
            eprintln!("unknown property {prop}");
            2
        }
    };
    std::process::exit(code);
}
