//! Checks for the actor-core properties. Usage: checks-core <PROPERTY> <quick|thorough|replay <file>>
vsched::getrandom_shim!();

mod c07;

fn main() {
    let args: Vec<String> = std::env::args().skip(1).collect();
    let Some(prop) = args.first().cloned() else {
        eprintln!("usage: checks-core <PROPERTY> <quick|thorough|replay FILE>");
        std::process::exit(2);
    };
    let rest = &args[1..];
    let code = match prop.as_str() {
        "C07" => vsched::report::run_property(rest, &c07::plan),
        _ => {
            eprintln!("unknown property {prop}");
            2
        }
    };
    std::process::exit(code);
}
