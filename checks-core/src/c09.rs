//! C09 — every RPC completes and replies are never cross-wired.
use std::sync::{Arc, Mutex};
use std::time::Duration;

use ractor::rpc::CallResult;
use ractor::{Actor, ActorProcessingErr, ActorRef, RpcReplyPort};
use vsched::explore::Job;
use vsched::report::{Plan, Unit};
use vsched::{ExecCfg, Outcome};

#[derive(Clone, Copy, Debug, PartialEq, Eq)]
enum Beh {
    ReplyNow,
    ReplyAfterMs(u64),
    Hold,
    DropPort,
    ReplyFromTask,
    ErrBeforeReply,
    /// the handler never returns (it keeps the port and awaits forever): only a kill ends it
    Stuck,
}

#[cfg(feature = "alt")]
impl ractor::Message for Msg {}

enum Msg {
    Req { id: u32, beh: Beh, reply: RpcReplyPort<u32> },
    /// the same request in the shape the call! / call_t! macros build (arguments first, reply port last)
    TReq(u32, Beh, RpcReplyPort<u32>),
    Fwd(u32),
}

/// the request as seen through a derived reference (`ActorRef::get_derived`, which has its own call / cast)
struct DReq {
    id: u32,
    beh: Beh,
    reply: RpcReplyPort<u32>,
}
impl From<DReq> for Msg {
    fn from(d: DReq) -> Msg {
        Msg::Req { id: d.id, beh: d.beh, reply: d.reply }
    }
}
impl TryFrom<Msg> for DReq {
    type Error = ();
    fn try_from(m: Msg) -> Result<DReq, ()> {
        match m {
            Msg::Req { id, beh, reply } | Msg::TReq(id, beh, reply) => Ok(DReq { id, beh, reply }),
            _ => Err(()),
        }
    }
}
#[cfg(feature = "alt")]
impl ractor::Message for DReq {}

type L = Arc<Mutex<Vec<String>>>;

struct Callee {
    index: u32,
    log: L,
}

/// the value a callee sends for request `id`: unique per (callee, request)
fn value(index: u32, id: u32) -> u32 {
    index * 1000 + id
}

#[cfg_attr(feature = "alt", ractor::async_trait)]
impl Actor for Callee {
    type Msg = Msg;
    type State = Vec<RpcReplyPort<u32>>;
    type Arguments = ();
    async fn pre_start(&self, _m: ActorRef<Msg>, _: ()) -> Result<Self::State, ActorProcessingErr> {
        Ok(vec![])
    }
    async fn handle_supervisor_evt(&self, myself: ActorRef<Msg>, e: ractor::SupervisionEvent, _held: &mut Self::State) -> Result<(), ActorProcessingErr> {
        if self.index == SUP_STUCK {
            if matches!(e, ractor::SupervisionEvent::ActorTerminated(..) | ractor::SupervisionEvent::ActorFailed(..)) {
                self.log.lock().unwrap().push("sup-stuck".to_string());
                std::future::pending::<()>().await;
            }
            return Ok(());
        }
        // (what the default implementation does)
        if matches!(e, ractor::SupervisionEvent::ActorTerminated(..) | ractor::SupervisionEvent::ActorFailed(..)) {
            myself.stop(None);
        }
        Ok(())
    }
    async fn handle(&self, _m: ActorRef<Msg>, m: Msg, held: &mut Self::State) -> Result<(), ActorProcessingErr> {
        let m = match m {
            Msg::TReq(id, beh, reply) => Msg::Req { id, beh, reply },
            other => other,
        };
        match m {
            Msg::TReq(..) => unreachable!(),
            Msg::Fwd(v) => self.log.lock().unwrap().push(format!("fwd {v}")),
            Msg::Req { id, beh, reply } => {
                let v = value(self.index, id);
                self.log.lock().unwrap().push(format!("got {id}"));
                match beh {
                    Beh::ReplyNow => {
                        let ok = reply.send(v).is_ok();
                        self.log.lock().unwrap().push(format!("reply {id} {v} delivered={ok}"));
                    }
                    Beh::ReplyAfterMs(d) => {
                        ractor::concurrency::sleep(Duration::from_millis(d)).await;
                        let ok = reply.send(v).is_ok();
                        self.log.lock().unwrap().push(format!("reply {id} {v} delivered={ok}"));
                    }
                    Beh::Hold => held.push(reply),
                    Beh::DropPort => drop(reply),
                    Beh::ReplyFromTask => {
                        let log = self.log.clone();
                        ractor::concurrency::spawn(async move {
                            vsched::yield_now().await;
                            let ok = reply.send(v).is_ok();
                            log.lock().unwrap().push(format!("reply {id} {v} delivered={ok}"));
                        });
                    }
                    Beh::ErrBeforeReply => return Err("callee failed".into()),
                    Beh::Stuck => {
                        held.push(reply);
                        std::future::pending::<()>().await;
                    }
                }
            }
        }
        Ok(())
    }
}

/// index of the callee that supervises a child and never returns from its supervision handler
const SUP_STUCK: u32 = 77;

/// The callee is a supervisor that is busy inside `handle_supervisor_evt` (handling the exit of a child; the
/// handler awaits something that never completes) when requests are queued on it and it is killed: the queued
/// callers are released with SenderError at that moment, whatever kind of event the handler was working on.
/// `child_exit`: 0 stop (the event carries the child's state), 1 drain, 2 kill, 3 handler error
fn sup_busy_body(child_exit: usize, escalate: bool) -> vsched::Body {
    Arc::new(move || {
        Box::pin(async move {
            let log: L = Arc::new(Mutex::new(vec![]));
            let (callee, ch) = Actor::spawn(None, Callee { index: SUP_STUCK, log: log.clone() }, ()).await.expect("callee");
            let (child, kh) = Actor::spawn_linked(None, Callee { index: 78, log: log.clone() }, (), callee.get_cell()).await.expect("child");
            match child_exit {
                0 => child.stop(None),
                1 => {
                    let _ = child.drain();
                }
                2 => child.kill(),
                _ => {
                    let _ = child.call(|reply| Msg::Req { id: 1, beh: Beh::ErrBeforeReply, reply }, Some(Duration::from_millis(1))).await;
                }
            }
            let _ = kh.await;
            vsched::quiesce();
            let mut bad = Vec::new();
            if !log.lock().unwrap().iter().any(|l| l.starts_with("sup-stuck")) {
                bad.push(format!("set-up: the callee never entered its supervision handler: {:?}", log.lock().unwrap()));
            }
            let t0 = vsched::now();
            let mut callers = Vec::new();
            for (i, timeout) in [None, Some(50u64)].into_iter().enumerate() {
                let c = callee.clone();
                callers.push(vsched::spawn("caller", async move {
                    let r = c.call(|reply| Msg::Req { id: 10 + i as u32, beh: Beh::ReplyNow, reply }, timeout.map(Duration::from_millis)).await;
                    (timeout, r.map(|x| format!("{x:?}")).unwrap_or_else(|_| "send-error".to_string()), vsched::now())
                }));
            }
            vsched::quiesce();
            let c2 = callee.clone();
            let killer = vsched::spawn("closer", async move {
                if escalate {
                    c2.stop(None);
                    vsched::yield_now().await;
                }
                c2.kill();
            });
            let _ = killer.await;
            let mut key = Vec::new();
            for c in callers {
                match c.await {
                    None => bad.push("a caller task was lost".to_string()),
                    Some((timeout, res, at)) => {
                        key.push(res.clone());
                        if res.contains("Success") {
                            bad.push(format!("a request queued on a callee that was killed inside its supervision handler ended as {res}"));
                        }
                        if res.contains("Timeout") {
                            bad.push(format!("the callee was killed at once but the caller with timeout {timeout:?} ms only got Timeout, {} ns later, instead of SenderError", at - t0));
                        }
                    }
                }
            }
            let _ = ch.await;
            Outcome { key: format!("{key:?}"), violations: bad }
        })
    })
}

#[derive(Clone, Copy, Debug, PartialEq, Eq)]
enum Exit {
    None,
    Stop,
    Kill,
    Drain,
    /// a graceful request first, then the kill (escalation)
    StopThenKill,
    DrainThenKill,
}

#[derive(Clone, Debug)]
struct Sc {
    callers: Vec<(Beh, Option<u64>)>,
    exit: Exit,
    /// every second caller goes through a derived reference, the others through the call! / call_t! macros
    derived: bool,
}

fn call_body(sc: Sc) -> vsched::Body {
    Arc::new(move || {
        let sc = sc.clone();
        Box::pin(async move {
            let log: L = Arc::new(Mutex::new(vec![]));
            let (c, ch) = Actor::spawn(None, Callee { index: 1, log: log.clone() }, ()).await.expect("callee");
            let mut hs = Vec::new();
            for (i, (beh, timeout)) in sc.callers.iter().enumerate() {
                let c = c.clone();
                let (beh, timeout) = (*beh, *timeout);
                let sc_derived = sc.derived;
                hs.push(vsched::spawn("caller", async move {
                    let id = (i + 1) as u32;
                    let t0 = vsched::now();
                    let r = if sc_derived && i % 2 == 1 {
                        c.get_derived::<DReq>().call(|reply| DReq { id, beh, reply }, timeout.map(Duration::from_millis)).await.map_err(|_| ())
                    } else if sc_derived && i % 2 == 0 {
                        // (in the same units the other callers go through the macros: call_t! with arguments when
                        // there is a timeout, call! otherwise; both flatten the verdict into a Result)
                        let flat: Result<u32, ractor::RactorErr<Msg>> = match timeout {
                            Some(t) => ractor::call_t!(c, Msg::TReq, t, id, beh),
                            None => ractor::call!(c, Msg::TReq, id, beh),
                        };
                        match flat {
                            Ok(v) => Ok(CallResult::Success(v)),
                            Err(ractor::RactorErr::Timeout) => Ok(CallResult::Timeout),
                            Err(ractor::RactorErr::Messaging(ractor::MessagingErr::ChannelClosed)) => Ok(CallResult::SenderError),
                            Err(_) => Err(()),
                        }
                    } else {
                        c.call(|reply| Msg::Req { id, beh, reply }, timeout.map(Duration::from_millis)).await.map_err(|_| ())
                    };
                    let dt = vsched::now() - t0;
                    let r = match r {
                        Ok(CallResult::Success(v)) => format!("success {v}"),
                        Ok(CallResult::Timeout) => "timeout".to_string(),
                        Ok(CallResult::SenderError) => "sender-error".to_string(),
                        Err(_) => "send-failed".to_string(),
                    };
                    (id, beh, timeout, r, dt)
                }));
            }
            let c2 = c.clone();
            let exit = sc.exit;
            let closer = vsched::spawn("closer", async move {
                match exit {
                    Exit::None => {}
                    Exit::Stop => c2.stop(None),
                    Exit::Kill => c2.kill(),
                    Exit::Drain => {
                        let _ = c2.drain();
                    }
                    Exit::StopThenKill => {
                        c2.stop(None);
                        vsched::yield_now().await;
                        c2.kill();
                    }
                    Exit::DrainThenKill => {
                        let _ = c2.drain();
                        vsched::yield_now().await;
                        c2.kill();
                    }
                }
            });
            let _ = closer.await;
            // callers that can only be released by the callee's exit (held ports, no timeout)
            let needs_exit = sc.callers.iter().any(|(b, t)| *b == Beh::Hold && t.is_none()) && sc.exit == Exit::None;
            if needs_exit {
                vsched::quiesce_time();
                c.stop(None);
            }
            let mut results = Vec::new();
            for h in hs {
                results.push(h.await.expect("caller task"));
            }
            if !needs_exit {
                c.stop(None);
            }
            let _ = ch.await;
            let l = log.lock().unwrap().clone();
            let mut bad = Vec::new();
            for (id, beh, timeout, r, dt) in &results {
                if let Some(v) = r.strip_prefix("success ") {
                    let v: u32 = v.parse().unwrap();
                    if v != value(1, *id) {
                        bad.push(format!("call {id} returned Success({v}), the value sent for another call (expected {})", value(1, *id)));
                    }
                    if !l.iter().any(|e| e.starts_with(&format!("reply {id} {v} "))) {
                        bad.push(format!("call {id} returned Success({v}) but the callee never sent that on its port: {l:?}"));
                    }
                }
                if let Some(t) = timeout {
                    let t_ns = t * 1_000_000;
                    if *dt > t_ns {
                        bad.push(format!("call {id} with timeout {t} ms completed after {dt} ns"));
                    }
                    if r == "timeout" && *dt != t_ns {
                        bad.push(format!("call {id} reported a timeout after {dt} ns, not at {t} ms"));
                    }
                    if let Beh::ReplyAfterMs(d) = beh {
                        if d < t && sc.exit == Exit::None && !r.starts_with("success") {
                            bad.push(format!("call {id}: the reply after {d} ms was due before the {t} ms timeout but the caller got {r}"));
                        }
                        if d > t && r.starts_with("success") {
                            bad.push(format!("call {id}: success although the reply ({d} ms) came after the timeout ({t} ms)"));
                        }
                    }
                } else {
                    match beh {
                        Beh::ReplyNow | Beh::ReplyAfterMs(_) | Beh::ReplyFromTask if sc.exit == Exit::None => {
                            if !r.starts_with("success") {
                                bad.push(format!("call {id} ({beh:?}, no exit, no timeout) ended as {r}"));
                            }
                        }
                        Beh::DropPort | Beh::Hold | Beh::ErrBeforeReply | Beh::Stuck => {
                            if r.starts_with("success") || r == "timeout" {
                                bad.push(format!("call {id} ({beh:?}) ended as {r}"));
                            }
                        }
                        _ => {}
                    }
                }
            }
            Outcome {
                key: format!("results={:?} log={l:?}", results.iter().map(|r| (r.0, r.3.clone())).collect::<Vec<_>>()),
                violations: bad,
            }
        })
    })
}

fn multi_body(behs: [Beh; 3], timeout: Option<u64>, exit_one: Option<Exit>) -> vsched::Body {
    multi_body_x(behs, timeout, exit_one, [0, 1, 2])
}

/// `members[i]` = which of the three callees is listed at position i (a callee may be listed more than once:
/// a list merged from two groups); request i carries id 7 + i
fn multi_body_x(behs: [Beh; 3], timeout: Option<u64>, exit_one: Option<Exit>, members: [usize; 3]) -> vsched::Body {
    Arc::new(move || {
        Box::pin(async move {
            let log: L = Arc::new(Mutex::new(vec![]));
            let mut callees = Vec::new();
            let mut handles = Vec::new();
            for i in 0..3u32 {
                let (c, h) = Actor::spawn(None, Callee { index: i + 1, log: log.clone() }, ()).await.expect("callee");
                callees.push(c);
                handles.push(h);
            }
            let cs: Vec<_> = members.iter().map(|m| callees[*m].clone()).collect();
            let k = Arc::new(Mutex::new(0usize));
            let k2 = k.clone();
            let caller = vsched::spawn("caller", async move {
                let t0 = vsched::now();
                let r = ractor::rpc::multi_call(
                    &cs,
                    move |reply| {
                        let mut g = k2.lock().unwrap();
                        let b = behs[*g];
                        let id = 7 + *g as u32;
                        *g += 1;
                        Msg::Req { id, beh: b, reply }
                    },
                    timeout.map(Duration::from_millis),
                )
                .await;
                (r, vsched::now() - t0)
            });
            let c1 = callees[1].clone();
            let closer = vsched::spawn("closer", async move {
                match exit_one {
                    Some(Exit::Stop) => c1.stop(None),
                    Some(Exit::Kill) => c1.kill(),
                    Some(Exit::Drain) => {
                        let _ = c1.drain();
                    }
                    _ => {}
                }
            });
            let _ = closer.await;
            if timeout.is_none() && behs.contains(&Beh::Hold) {
                vsched::quiesce_time();
                for c in &callees {
                    c.stop(None);
                }
            }
            let (res, took) = caller.await.expect("caller");
            for c in &callees {
                c.stop(None);
            }
            for h in handles {
                let _ = h.await;
            }
            let mut bad = Vec::new();
            // with a timeout T the whole multi_call answers no later than T, and a member whose reply is due
            // after T is reported as Timeout
            if let Some(t) = timeout {
                if took > t * 1_000_000 {
                    bad.push(format!("multi_call with timeout {t} ms returned after {took} ns"));
                }
                if let Ok(v) = &res {
                    for (i, r) in v.iter().enumerate() {
                        if let (Beh::ReplyAfterMs(d), CallResult::Success(_)) = (behs[i], r) {
                            if d > t {
                                bad.push(format!("callee {} replies after {d} ms but multi_call (timeout {t} ms) reports Success for it", i + 1));
                            }
                        }
                        if let (Beh::ReplyAfterMs(d), true) = (behs[i], !matches!(r, CallResult::Success(_))) {
                            if d < t && exit_one.is_none() {
                                bad.push(format!("callee {} replies after {d} ms, before the {t} ms timeout, but its result is not Success", i + 1));
                            }
                        }
                    }
                }
            }
            let key;
            match res {
                Err(e) => {
                    key = "send-failed".to_string();
                    if exit_one.is_none() {
                        bad.push(format!("multi_call failed ({e}) although every callee was running"));
                    }
                }
                Ok(v) => {
                    if v.len() != 3 {
                        bad.push(format!("multi_call returned {} results for 3 callees", v.len()));
                    }
                    let mut ks = Vec::new();
                    for (i, r) in v.iter().enumerate() {
                        match r {
                            CallResult::Success(x) => {
                                if *x != value(members[i] as u32 + 1, 7 + i as u32) {
                                    bad.push(format!("result {i} is Success({x}): that is the reply of callee {} to request {}, not of callee {} to request {}", x / 1000, x % 1000, members[i] + 1, 7 + i));
                                }
                                ks.push(format!("ok{x}"));
                            }
                            CallResult::Timeout => ks.push("timeout".into()),
                            CallResult::SenderError => ks.push("sender-error".into()),
                        }
                        // (with a zero timeout the timer may win against an immediate reply)
                        let expect_success = matches!(behs[i], Beh::ReplyNow | Beh::ReplyFromTask) && !(i == 1 && exit_one.is_some()) && timeout != Some(0);
                        if expect_success && !matches!(r, CallResult::Success(_)) {
                            bad.push(format!("callee {} replied immediately but result {i} is not Success", i + 1));
                        }
                        if matches!(behs[i], Beh::DropPort) && !matches!(r, CallResult::SenderError) {
                            bad.push(format!("callee {} dropped the port but result {i} is not SenderError", i + 1));
                        }
                    }
                    key = format!("{ks:?}");
                }
            }
            Outcome { key, violations: bad }
        })
    })
}

fn forward_body(beh: Beh, timeout: Option<u64>, exit: Exit) -> vsched::Body {
    Arc::new(move || {
        Box::pin(async move {
            let log: L = Arc::new(Mutex::new(vec![]));
            let flog: L = Arc::new(Mutex::new(vec![]));
            let (c, ch) = Actor::spawn(None, Callee { index: 1, log: log.clone() }, ()).await.expect("callee");
            let (f, fh) = Actor::spawn(None, Callee { index: 9, log: flog.clone() }, ()).await.expect("forward target");
            let t0 = vsched::now();
            let h = c.call_and_forward(|reply| Msg::Req { id: 3, beh, reply }, &f, Msg::Fwd, timeout.map(Duration::from_millis));
            let c2 = c.clone();
            let closer = vsched::spawn("closer", async move {
                match exit {
                    Exit::None => {}
                    Exit::Stop => c2.stop(None),
                    Exit::Kill => c2.kill(),
                    Exit::Drain => {
                        let _ = c2.drain();
                    }
                    Exit::StopThenKill => {
                        c2.stop(None);
                        vsched::yield_now().await;
                        c2.kill();
                    }
                    Exit::DrainThenKill => {
                        let _ = c2.drain();
                        vsched::yield_now().await;
                        c2.kill();
                    }
                }
            });
            let _ = closer.await;
            let mut bad = Vec::new();
            let res = match h {
                Err(_) => "send-failed".to_string(),
                Ok(h) => {
                    if timeout.is_none() && beh == Beh::Hold && exit == Exit::None {
                        vsched::quiesce_time();
                        c.stop(None);
                    }
                    match h.await {
                        Ok(CallResult::Success(Ok(()))) => "forwarded".into(),
                        Ok(CallResult::Success(Err(_))) => "forward-failed".into(),
                        Ok(CallResult::Timeout) => "timeout".into(),
                        Ok(CallResult::SenderError) => "sender-error".into(),
                        Err(_) => {
                            bad.push("the forwarding task failed".to_string());
                            "join-error".into()
                        }
                    }
                }
            };
            // the verdict and its time: Timeout exactly at T (never earlier: a callee that lost the port is a
            // SenderError, at once), everything else no later than T
            let took = vsched::now() - t0;
            if let Some(t) = timeout {
                if res == "timeout" && took < t * 1_000_000 {
                    bad.push(format!("call_and_forward with timeout {t} ms reported Timeout after only {took} ns"));
                }
                if res != "send-failed" && res != "join-error" && took > t * 1_000_000 {
                    bad.push(format!("call_and_forward with timeout {t} ms answered ({res}) after {took} ns"));
                }
            } else if res == "timeout" {
                bad.push("call_and_forward without a timeout reported Timeout".to_string());
            }
            if beh == Beh::DropPort && exit == Exit::None && res != "sender-error" {
                bad.push(format!("the callee dropped the reply port but the forward ended as {res}"));
            }
            vsched::quiesce_time();
            c.stop(None);
            f.stop(None);
            let _ = ch.await;
            let _ = fh.await;
            let fwd: Vec<String> = flog.lock().unwrap().iter().filter(|e| e.starts_with("fwd")).cloned().collect();
            if res == "forwarded" {
                if fwd != vec![format!("fwd {}", value(1, 3))] {
                    bad.push(format!("the call succeeded but the forward target received {fwd:?}"));
                }
            } else if !fwd.is_empty() {
                bad.push(format!("the call ended as {res} but the forward target received {fwd:?}"));
            }
            if beh == Beh::ReplyNow && exit == Exit::None && res != "forwarded" {
                bad.push(format!("immediate reply, no exit: the forward ended as {res}"));
            }
            Outcome { key: format!("{res} fwd={fwd:?}"), violations: bad }
        })
    })
}

pub fn plan(tier: &str) -> Plan {
    let thorough = tier == "thorough";
    let cfg = ExecCfg::default();
    let bound = if thorough { 3 } else { 2 };
    let mut units = Vec::new();
    let mut scs: Vec<(String, Sc)> = Vec::new();
    let behs = [Beh::ReplyNow, Beh::ReplyAfterMs(5), Beh::Hold, Beh::DropPort, Beh::ReplyFromTask, Beh::ErrBeforeReply];
    for exit in [Exit::None, Exit::Stop, Exit::Kill, Exit::Drain] {
        // three concurrent callers with different behaviours
        scs.push((format!("3callers/{exit:?}/mixed"), Sc { callers: vec![(Beh::ReplyNow, None), (Beh::ReplyFromTask, None), (Beh::ReplyAfterMs(5), Some(10))], exit, derived: false }));
        scs.push((format!("3callers/{exit:?}/hold+drop"), Sc { callers: vec![(Beh::Hold, None), (Beh::DropPort, None), (Beh::ReplyNow, None)], exit, derived: false }));
        for b in behs {
            if thorough || matches!((b, exit), (Beh::ReplyAfterMs(_), _) | (Beh::Hold, Exit::Kill) | (Beh::ErrBeforeReply, Exit::None) | (Beh::ReplyFromTask, Exit::Stop)) {
                scs.push((format!("2callers/{exit:?}/{b:?}"), Sc { callers: vec![(b, None), (Beh::ReplyNow, Some(20))], exit, derived: false }));
            }
        }
    }
    // timeout relation: d < T, d == T, d > T
    for (d, t) in [(3u64, 5u64), (5, 5), (7, 5)] {
        scs.push((format!("timeout/d{d}-T{t}"), Sc { callers: vec![(Beh::ReplyAfterMs(d), Some(t)), (Beh::Hold, Some(t))], exit: Exit::None, derived: false }));
    }
    // escalation: a graceful request, then a kill, with a handler that never returns: every caller must be
    // released (SenderError), the one being handled and the ones still queued
    for exit in [Exit::StopThenKill, Exit::DrainThenKill] {
        scs.push((format!("escalation/{exit:?}/stuck+queued"), Sc { callers: vec![(Beh::Stuck, None), (Beh::ReplyNow, None), (Beh::Hold, None)], exit, derived: false }));
        scs.push((format!("escalation/{exit:?}/slow+now"), Sc { callers: vec![(Beh::ReplyAfterMs(5), None), (Beh::ReplyNow, Some(20))], exit, derived: false }));
    }
    // the zero timeout: an answer (possibly Timeout) at once, whatever the callee does with the port
    scs.push(("timeout/zero/hold+late+now".into(), Sc { callers: vec![(Beh::Hold, Some(0)), (Beh::ReplyAfterMs(5), Some(0)), (Beh::ReplyNow, Some(0))], exit: Exit::None, derived: false }));
    scs.push(("timeout/zero/hold-vs-kill".into(), Sc { callers: vec![(Beh::Hold, Some(0)), (Beh::ReplyFromTask, Some(0))], exit: Exit::Kill, derived: false }));
    for (name, sc) in scs {
        // the same through a derived reference for every second caller (all scenarios in the thorough tier, the
        // multi-caller, timeout and escalation ones in the quick tier)
        if thorough || name.starts_with("3callers") || name.starts_with("timeout") || name.starts_with("escalation") {
            let mut d = sc.clone();
            d.derived = true;
            units.push(Unit::explore(Job::new(format!("call-derived/{name}").replace(['(', ')'], ""), cfg.clone(), Some(bound), call_body(d))));
        }
        units.push(Unit::explore(Job::new(format!("call/{name}").replace(['(', ')'], ""), cfg.clone(), Some(bound), call_body(sc))));
    }
    for (behs, timeout, exit) in [
        ([Beh::ReplyFromTask, Beh::ReplyNow, Beh::ReplyAfterMs(2)], None, None),
        ([Beh::ReplyAfterMs(4), Beh::ReplyNow, Beh::DropPort], Some(10), None),
        ([Beh::ReplyNow, Beh::Hold, Beh::ReplyFromTask], Some(5), Some(Exit::Kill)),
        ([Beh::Hold, Beh::ReplyNow, Beh::ReplyAfterMs(2)], Some(0), None),
        // staggered replies around the timeout: the deadline is T after the requests went out, for all members
        ([Beh::ReplyAfterMs(3), Beh::ReplyAfterMs(6), Beh::ReplyAfterMs(9)], Some(5), None),
        ([Beh::ReplyAfterMs(9), Beh::ReplyAfterMs(3), Beh::ReplyAfterMs(6)], Some(5), None),
        ([Beh::ReplyAfterMs(3), Beh::ReplyAfterMs(1), Beh::ReplyAfterMs(2)], None, Some(Exit::Stop)),
    ] {
        units.push(Unit::explore(Job::new(format!("multi/{behs:?}/{timeout:?}/{exit:?}").replace(['(', ')', ' '], ""), cfg.clone(), Some(bound), multi_body(behs, timeout, exit))));
    }
    // the caller's own send loop seen at the granularity of its channel operations: a member may have answered, or
    // dropped its port, or died, while the caller is still sending to the rest of the list (on a multi-threaded
    // runtime the members run in parallel with the caller)
    let k_kinds: &'static [vsched::PointKind] = &[vsched::PointKind::Channel];
    let fine = ExecCfg {
        filter: Some(Arc::new(move |k, _l, t: &vsched::TaskInfo| k_kinds.contains(&k) && t.role == "caller")),
        tolerate_lib_panics: true,
        ..Default::default()
    };
    for (behs, timeout, exit) in [
        ([Beh::DropPort, Beh::ReplyNow, Beh::ReplyNow], None, None),
        ([Beh::ReplyNow, Beh::DropPort, Beh::ReplyFromTask], Some(10), None),
        ([Beh::DropPort, Beh::DropPort, Beh::ReplyNow], Some(5), None),
        ([Beh::ReplyNow, Beh::Hold, Beh::ReplyNow], Some(5), Some(Exit::Kill)),
        ([Beh::ReplyFromTask, Beh::ReplyNow, Beh::ReplyAfterMs(2)], None, Some(Exit::Stop)),
    ] {
        units.push(Unit::explore(Job::new(format!("multi-fine/{behs:?}/{timeout:?}/{exit:?}").replace(['(', ')', ' '], ""), fine.clone(), Some(bound), multi_body(behs, timeout, exit))));
    }
    // the callee is a supervisor stuck in its supervision handler when it is killed with requests queued
    for child_exit in 0..4usize {
        for escalate in [false, true] {
            if !thorough && escalate && child_exit != 0 {
                continue;
            }
            units.push(Unit::explore(Job::new(
                format!("callee-in-supervision-handler/child-{}/{}", ["stopped", "drained", "killed", "failed"][child_exit], if escalate { "stop-then-kill" } else { "kill" }),
                cfg.clone(),
                Some(bound),
                sup_busy_body(child_exit, escalate),
            )));
        }
    }
    // a callee listed more than once (a member list merged from two groups): one result per position
    for (behs, members) in [
        ([Beh::ReplyNow, Beh::ReplyNow, Beh::ReplyNow], [0usize, 1, 0]),
        ([Beh::ReplyFromTask, Beh::ReplyAfterMs(2), Beh::ReplyNow], [0, 0, 1]),
        ([Beh::ReplyAfterMs(3), Beh::ReplyNow, Beh::ReplyFromTask], [2, 2, 2]),
    ] {
        units.push(Unit::explore(Job::new(format!("multi-repeated/{behs:?}/{members:?}").replace(['(', ')', ' '], ""), cfg.clone(), Some(bound), multi_body_x(behs, None, None, members))));
    }
    for (beh, timeout, exit) in [
        (Beh::ReplyNow, None, Exit::None),
        (Beh::ReplyAfterMs(5), Some(3), Exit::None),
        (Beh::ReplyFromTask, None, Exit::Stop),
        (Beh::Hold, None, Exit::Kill),
        (Beh::DropPort, Some(5), Exit::Drain),
        (Beh::Hold, Some(0), Exit::None),
        (Beh::DropPort, Some(50), Exit::None),
        (Beh::Hold, Some(50), Exit::Kill),
        (Beh::ErrBeforeReply, Some(50), Exit::None),
        (Beh::Hold, Some(50), Exit::Stop),
    ] {
        units.push(Unit::explore(Job::new(format!("forward/{beh:?}/{timeout:?}/{exit:?}").replace(['(', ')'], ""), cfg.clone(), Some(bound + 1), forward_body(beh, timeout, exit))));
    }
    Plan {
        property: "C09",
        units,
        rule: "1-3 concurrent callers x callee behaviour (reply now / after d / from a spawned task / hold the port / drop it / fail) x callee exit (stop / kill / drain landing anywhere by schedule, and stop-then-kill / drain-then-kill against a handler that never returns) x timeout relation (d<T, d=T, d>T, T=0, none), multi_call over 3 callees, call_and_forward; deviation-bounded DFS over task-level schedules with the virtual clock (same-instant timer ties are explored); oracle: Success(v) only with the value the callee sent on that call's own port, every call returns (a stuck caller is a scheduler-proved hang), completion time <= T and = T for Timeout, multi_call results in request order, forward delivered exactly once iff the call succeeded; non-trivial = execution with >= 1 branching decision".into(),
        assumptions: vec![
            "task granularity; computation takes zero virtual time".into(),
        ],
        engine: "vsched (shuttle coroutines + deviation-bounded DFS + virtual clock) on the real ractor code",
    }
}
