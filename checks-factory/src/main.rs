//! Checks for the factory properties C13 / C14 / C15.
//! Usage: checks-factory <PROPERTY> <quick|thorough|replay FILE>
vsched::getrandom_shim!();

mod harness;
mod limiter;
mod oracle;

fn main() {
    let args: Vec<String> = std::env::args().skip(1).collect();
    let Some(prop) = args.first().cloned() else {
        eprintln!("usage: checks-factory <PROPERTY> <quick|thorough|replay FILE>");
        std::process::exit(2);
    };
    let rest = &args[1..];
    let code = match prop.as_str() {
        "C13" => vsched::report::run_property(rest, &|t| harness::plan("C13", t)),
        "C14" => vsched::report::run_property(rest, &|t| harness::plan("C14", t)),
        "C15" => vsched::report::run_property(rest, &|t| harness::plan("C15", t)),
        _ => {
            eprintln!("unknown property {prop}");
            2
        }
    };
    std::process::exit(code);
}
