//! A real `Factory` with real worker actors whose job handlers block on a per-worker gate, so that
//! completions, deaths, resizes and drains happen exactly when the *history* says. The history itself
//! is enumerated by the explorer (`choose_free` = every enabled event at every step, to a fixed
//! depth); between events the system runs to quiescence, and the schedules of every such run are
//! explored within the deviation bound (this is what permutes `Finished` / supervision / dispatch).
use std::collections::{BTreeMap, VecDeque};
use std::sync::{Arc, Mutex};
use std::time::Duration;

use futures::future::BoxFuture;
use futures::FutureExt;
use ractor::concurrency::OneshotReceiver;
use ractor::factory::queues::{DefaultQueue, PriorityManager, PriorityQueue, Queue, StandardPriority};
use ractor::factory::routing::{CustomHashFunction, CustomRouting, KeyPersistentRouting, QueuerRouting, RoundRobinRouting, Router, StickyQueuerRouting};
use ractor::factory::*;
use ractor::{Actor, ActorCell, ActorProcessingErr, ActorRef, ActorStatus};
use vsched::explore::Job as XJob;
use vsched::report::{Plan, Unit};
use vsched::{ExecCfg, Outcome};

pub type Key = u8;

#[derive(Debug)]
pub struct JobMsg {
    pub id: u32,
    /// tells the log when (and thereby in whose hands) the job ceased to exist
    pub guard: DropGuard,
}

pub struct DropGuard {
    id: u32,
    world: World,
}
impl std::fmt::Debug for DropGuard {
    fn fmt(&self, f: &mut std::fmt::Formatter<'_>) -> std::fmt::Result {
        write!(f, "guard({})", self.id)
    }
}
impl Drop for DropGuard {
    fn drop(&mut self) {
        if !std::thread::panicking() {
            self.world.log(Ev::Dropped { id: self.id });
        }
    }
}

#[derive(Debug, Clone, PartialEq, Eq)]
pub enum How {
    Ok,
    Err,
    Panic,
}

#[derive(Debug, Clone, PartialEq, Eq)]
pub enum Ev {
    Built { wid: usize, inc: u32 },
    Start { wid: usize, inc: u32, key: Key, id: u32 },
    End { wid: usize, inc: u32, key: Key, id: u32, how: How },
    Discard { reason: String, id: u32 },
    /// a discard reported to the handler that had been replaced through UpdateSettings
    StaleDiscard { reason: String, id: u32 },
    Completed { id: u32 },
    /// an armed kill (see `Discards`) has taken full effect: the worker is Stopped
    WorkerGone { wid: usize },
    /// the job object was dropped (after it ran, with a dead worker's mailbox, with the factory's state, ...)
    Dropped { id: u32 },
    Hook(&'static str),
    Stat(&'static str),
    /// history events, as issued by the script
    Script(String),
}

#[derive(Default)]
pub struct WorldInner {
    pub log: Vec<(u64, Ev)>,
    pub incs: BTreeMap<usize, u32>,
    pub cmds: BTreeMap<usize, VecDeque<How>>,
}

#[derive(Clone, Default)]
pub struct World {
    pub inner: Arc<Mutex<WorldInner>>,
    pub gates: Arc<Mutex<BTreeMap<usize, Arc<tokio::sync::Notify>>>>,
    /// a worker to kill from inside the next discard callback
    pub armed: Arc<Mutex<Option<(usize, ActorCell)>>>,
    /// workers that linger in post_stop until released
    pub slow_stop: Arc<Mutex<std::collections::BTreeSet<usize>>>,
}

impl World {
    pub fn log(&self, e: Ev) {
        let lc = vsched::log(format!("{e:?}"));
        self.inner.lock().unwrap().log.push((lc, e));
    }
    fn gate(&self, wid: usize) -> Arc<tokio::sync::Notify> {
        self.gates.lock().unwrap().entry(wid).or_insert_with(|| Arc::new(tokio::sync::Notify::new())).clone()
    }
    pub fn release(&self, wid: usize, how: How) {
        self.inner.lock().unwrap().cmds.entry(wid).or_default().push_back(how);
        self.gate(wid).notify_one();
    }
    async fn wait(&self, wid: usize) -> How {
        loop {
            if let Some(h) = self.inner.lock().unwrap().cmds.entry(wid).or_default().pop_front() {
                return h;
            }
            let g = self.gate(wid);
            g.notified().await;
        }
    }
    pub fn events(&self) -> Vec<(u64, Ev)> {
        self.inner.lock().unwrap().log.clone()
    }
    /// jobs started and not ended: (wid, inc, key, id)
    pub fn in_progress(&self) -> Vec<(usize, u32, Key, u32)> {
        let l = self.events();
        let mut v = Vec::new();
        for (_, e) in &l {
            if let Ev::Start { wid, inc, key, id } = e {
                let ended = l.iter().any(|(_, x)| matches!(x, Ev::End { id: i2, inc: n2, .. } if i2 == id && n2 == inc));
                if !ended {
                    v.push((*wid, *inc, *key, *id));
                }
            }
        }
        v
    }
}

pub struct TW {
    world: World,
    inc: u32,
}

impl Worker for TW {
    type Key = Key;
    type Message = JobMsg;
    type State = ();
    type Arguments = ();
    async fn pre_start(&self, _wid: WorkerId, _f: &ActorRef<FactoryMessage<Key, JobMsg>>, _: ()) -> Result<(), ActorProcessingErr> {
        Ok(())
    }
    async fn handle(&self, wid: WorkerId, _f: &ActorRef<FactoryMessage<Key, JobMsg>>, job: Job<Key, JobMsg>, _: &mut ()) -> Result<Key, ActorProcessingErr> {
        let (key, id) = (job.key, job.msg.id);
        self.world.log(Ev::Start { wid, inc: self.inc, key, id });
        let how = self.world.wait(wid).await;
        self.world.log(Ev::End { wid, inc: self.inc, key, id, how: how.clone() });
        match how {
            How::Ok => Ok(key),
            How::Err => Err("worker failed".into()),
            How::Panic => panic!("worker panicked"),
        }
    }
    async fn post_stop(&self, wid: WorkerId, _f: &ActorRef<FactoryMessage<Key, JobMsg>>, _: &mut ()) -> Result<(), ActorProcessingErr> {
        // a worker that was told to stop "slowly" lingers in post_stop (it refuses messages, and its supervisor
        // has not been told anything yet) until the script lets it go
        let slow = self.world.slow_stop.lock().unwrap().contains(&wid);
        if slow {
            self.world.log(Ev::Script(format!("worker {wid} lingers in post_stop")));
            loop {
                if !self.world.slow_stop.lock().unwrap().contains(&wid) {
                    break;
                }
                let g = self.world.gate(wid + 100);
                g.notified().await;
            }
        }
        Ok(())
    }
}

struct Builder(World);
impl WorkerBuilder<TW, ()> for Builder {
    fn build(&mut self, wid: usize) -> (TW, ()) {
        let inc = {
            let mut g = self.0.inner.lock().unwrap();
            let e = g.incs.entry(wid).or_insert(0);
            let v = *e;
            *e += 1;
            v
        };
        self.0.log(Ev::Built { wid, inc });
        (TW { world: self.0.clone(), inc }, ())
    }
}

/// the handler the factory starts with when Cfg::late_handler is set; it is replaced before the first event
struct ReplacedDiscards(World);
impl DiscardHandler<Key, JobMsg> for ReplacedDiscards {
    fn discard(&self, reason: DiscardReason, job: &mut Job<Key, JobMsg>) {
        self.0.log(Ev::StaleDiscard { reason: format!("{reason:?}"), id: job.msg.id });
    }
}

struct Discards(World);
impl DiscardHandler<Key, JobMsg> for Discards {
    fn discard(&self, reason: DiscardReason, job: &mut Job<Key, JobMsg>) {
        self.0.log(Ev::Discard { reason: format!("{reason:?}"), id: job.msg.id });
        // a discard callback does real work: 2 us of (virtual) time pass while an expired job is written off
        if matches!(reason, DiscardReason::TtlExpired) {
            vsched::burn(Duration::from_micros(2));
        }
        // armed by the script: the worker dies right now, i.e. while the factory is in the middle of the
        // handler that discards this job (and before it dispatches the next one)
        let armed = self.0.armed.lock().unwrap().take();
        if let Some((wid, cell)) = armed {
            cell.kill();
            for _ in 0..500 {
                if cell.get_status() == ActorStatus::Stopped {
                    break;
                }
                vsched::yield_sync();
            }
            self.0.log(Ev::WorkerGone { wid });
        }
    }
}

struct Stats(World);
impl FactoryStatsLayer for Stats {
    fn job_completed(&self, _f: &str, options: &JobOptions) {
        // the job id travels in the (never reached) TTL: see `mk_job`
        // (short TTLs carry it in their microseconds)
        let id = options
            .ttl()
            .map(|t| if t.as_millis() < 1000 { (100_005u64.saturating_sub(t.as_micros() as u64) / 2) as u32 } else { (t.as_millis() as u64).saturating_sub(TTL_BASE_MS) as u32 })
            .unwrap_or(u32::MAX);
        self.0.log(Ev::Completed { id });
    }
    fn job_discarded(&self, _f: &str) {
        self.0.log(Ev::Stat("discarded"));
    }
    fn job_ttl_expired(&self, _f: &str, n: usize) {
        if n > 0 {
            self.0.log(Ev::Stat("ttl_expired"));
        }
    }
    fn job_rate_limited(&self, _f: &str) {
        self.0.log(Ev::Stat("rate_limited"));
    }
}

struct Hooks(World);
impl FactoryLifecycleHooks<Key, JobMsg> for Hooks {
    fn on_factory_started(&self, _f: ActorRef<FactoryMessage<Key, JobMsg>>) -> BoxFuture<'_, Result<(), ActorProcessingErr>> {
        self.0.log(Ev::Hook("started"));
        async { Ok(()) }.boxed()
    }
    fn on_factory_draining(&self, _f: ActorRef<FactoryMessage<Key, JobMsg>>) -> BoxFuture<'_, Result<(), ActorProcessingErr>> {
        self.0.log(Ev::Hook("draining"));
        async { Ok(()) }.boxed()
    }
    fn on_factory_stopped(&self) -> BoxFuture<'_, Result<(), ActorProcessingErr>> {
        self.0.log(Ev::Hook("stopped"));
        async { Ok(()) }.boxed()
    }
}

const TTL_BASE_MS: u64 = 100_000_000;

pub struct Submitted {
    pub id: u32,
    pub key: Key,
    pub lc: u64,
    pub rx: OneshotReceiver<Option<Job<Key, JobMsg>>>,
    /// None = undecided, Some(true) accepted, Some(false) returned to the submitter
    pub accepted: Option<bool>,
    pub port_closed: bool,
    pub send_failed: bool,
    /// dispatched after DrainRequests was issued
    pub after_drain: bool,
    pub short_ttl: bool,
}

#[derive(Clone, Copy, Debug, PartialEq, Eq)]
pub enum Routing {
    KeyPersistent,
    Sticky,
    Queuer,
    RoundRobin,
    CustomConst,
    CustomIdentity,
    CustomMax,
    /// QueuerRouting / KeyPersistentRouting behind a RateLimitedRouter with a leaky bucket
    /// (1 token per 10 ms, at most 2, 1 to begin with)
    RlQueuer,
    RlKeyPersistent,
}

#[derive(Clone, Copy, Debug, PartialEq, Eq)]
pub enum Discard {
    None,
    Newest(usize),
    Oldest(usize),
    /// the factory starts WITHOUT a discard limit; a later UpdateSettings (event SetLimit) installs one in this mode
    LateNewest,
    LateOldest,
}

#[derive(Clone, Copy, Debug, PartialEq, Eq)]
pub enum QueueKind {
    Default,
    /// PriorityQueue: key b's jobs overtake key a's jobs in the queue; everything is discardable
    Priority,
    /// as above, and key b's jobs are not discardable
    PriorityKeep,
}

/// key 1 ("b") is urgent, key 0 ("a") is best effort
struct Prio {
    keep_b: bool,
}
impl PriorityManager<Key, StandardPriority> for Prio {
    fn is_discardable(&self, k: &Key) -> bool {
        !(self.keep_b && *k == 1)
    }
    fn get_priority(&self, k: &Key) -> Option<StandardPriority> {
        Some(if *k == 1 { StandardPriority::Highest } else { StandardPriority::BestEffort })
    }
}
type PQ = PriorityQueue<Key, JobMsg, StandardPriority, Prio, 5>;

#[derive(Clone, Copy, Debug)]
pub struct Cfg {
    pub routing: Routing,
    pub discard: Discard,
    pub workers: usize,
    pub depth: usize,
    /// jobs carry a short TTL and the history may advance time
    pub ttl: bool,
    /// reduced event alphabet (one kind of death, no kill), used for the deeper histories
    pub lean: bool,
    /// the script may issue a request (dispatch / resize / drain) right behind the previous event, without
    /// letting the system settle in between
    pub burst: bool,
    pub queue: QueueKind,
    /// the history may change the discard limit through UpdateSettings
    pub set_limit: bool,
    /// only dispatches (three keys) and completions: longer histories of plain job flow
    pub flow_only: bool,
    /// a small alphabet around "a worker dies right after it reported completion" (dispatch of one key,
    /// completion, kill-after-finished, drain), explored with decision points inside the factory's own
    /// handlers (before every channel operation of every task)
    pub fine_deaths: bool,
    /// a fixed history (tokens as in FACTORY_HISTORY) instead of the enumeration
    pub script: Option<&'static str>,
    /// the history may tell an idle worker to stop "slowly" (it lingers in post_stop)
    pub slow_stops: bool,
    /// the factory starts with a discard handler that is replaced through UpdateSettings before the first
    /// event; whatever is discarded afterwards must reach the new one
    pub late_handler: bool,
    /// the discard limit is a Dynamic one: it starts at the limit of `discard` and its controller answers this value
    /// from the factory's first ping tick (10 s) on; the history may let that much time pass (AdvanceLong)
    pub dynamic_to: Option<usize>,
}

impl Cfg {
    pub fn name(&self) -> String {
        let q = match self.queue {
            QueueKind::Default => "",
            QueueKind::Priority => "/prio",
            QueueKind::PriorityKeep => "/prio-keep",
        };
        let mode = match (self.lean, self.burst) {
            (true, true) => "/lean+burst",
            (true, false) => "/lean",
            _ => "",
        };
        format!("{:?}/{:?}/w{}/d{}{}{mode}{q}{}{}", self.routing, self.discard, self.workers, self.depth, if self.ttl { "/ttl" } else { "" }, if self.set_limit { "/setlimit" } else { "" }, if self.flow_only { "/flow3keys".to_string() } else if self.fine_deaths { "/fine-deaths".to_string() } else if let Some(s) = self.script { format!("/script-{}", s.replace(',', "-")) } else if self.slow_stops { "/slow-stops".to_string() } else if self.late_handler { "/handler-replaced".to_string() } else if let Some(t) = self.dynamic_to { format!("/dynamic-to-{t}") } else { String::new() }).replace(['(', ')'], "")
    }
    pub fn factory_queueing(&self) -> bool {
        matches!(self.routing, Routing::Sticky | Routing::Queuer | Routing::RlQueuer)
    }
    pub fn rate_limited(&self) -> bool {
        matches!(self.routing, Routing::RlQueuer | Routing::RlKeyPersistent)
    }
}

struct HashConst;
impl CustomHashFunction<Key> for HashConst {
    fn hash(&self, _k: &Key, _n: usize) -> usize {
        7
    }
}
struct HashIdentity;
impl CustomHashFunction<Key> for HashIdentity {
    fn hash(&self, k: &Key, _n: usize) -> usize {
        *k as usize
    }
}
struct HashMax;
impl CustomHashFunction<Key> for HashMax {
    fn hash(&self, _k: &Key, _n: usize) -> usize {
        usize::MAX
    }
}

pub type FRef = ActorRef<FactoryMessage<Key, JobMsg>>;

async fn spawn_factory<R: Router<Key, JobMsg>>(router: R, cfg: Cfg, world: &World) -> (FRef, ractor::concurrency::JoinHandle<()>) {
    match cfg.queue {
        QueueKind::Default => spawn_factory_q(router, DefaultQueue::<Key, JobMsg>::default(), cfg, world).await,
        QueueKind::Priority => spawn_factory_q(router, PQ::new(Prio { keep_b: false }), cfg, world).await,
        QueueKind::PriorityKeep => spawn_factory_q(router, PQ::new(Prio { keep_b: true }), cfg, world).await,
    }
}

async fn spawn_factory_q<R: Router<Key, JobMsg>, Q: Queue<Key, JobMsg>>(router: R, queue: Q, cfg: Cfg, world: &World) -> (FRef, ractor::concurrency::JoinHandle<()>) {
    struct Ctl(usize);
    impl ractor::factory::DynamicDiscardController for Ctl {
        fn compute(&mut self, _current: usize) -> futures::future::BoxFuture<'_, usize> {
            let v = self.0;
            Box::pin(async move { v })
        }
    }
    let discard_settings = match (cfg.discard, cfg.dynamic_to) {
        (Discard::None | Discard::LateNewest | Discard::LateOldest, _) => DiscardSettings::None,
        (Discard::Newest(l), None) => DiscardSettings::Static { limit: l, mode: DiscardMode::Newest },
        (Discard::Oldest(l), None) => DiscardSettings::Static { limit: l, mode: DiscardMode::Oldest },
        (Discard::Newest(l), Some(t)) => DiscardSettings::Dynamic { limit: l, mode: DiscardMode::Newest, updater: Box::new(Ctl(t)) },
        (Discard::Oldest(l), Some(t)) => DiscardSettings::Dynamic { limit: l, mode: DiscardMode::Oldest, updater: Box::new(Ctl(t)) },
    };
    let args = FactoryArguments::builder()
        .worker_builder(Box::new(Builder(world.clone())))
        .num_initial_workers(cfg.workers)
        .router(router)
        .queue(queue)
        .discard_handler(if cfg.late_handler { Arc::new(ReplacedDiscards(world.clone())) as Arc<dyn DiscardHandler<Key, JobMsg>> } else { Arc::new(Discards(world.clone())) })
        .discard_settings(discard_settings)
        .lifecycle_hooks(Box::new(Hooks(world.clone())))
        .stats(Arc::new(Stats(world.clone())))
        .build();
    let f = Factory::<Key, JobMsg, (), TW, R, Q>::default();
    Actor::spawn(None, f, args).await.expect("factory")
}

pub const RL_MAX: usize = 2;
pub const RL_INITIAL: usize = 1;
fn bucket() -> LeakyBucketRateLimiter {
    LeakyBucketRateLimiter::builder().refill(1).interval(Duration::from_millis(10)).max(RL_MAX).initial(RL_INITIAL).build()
}

async fn spawn_for(cfg: Cfg, world: &World) -> (FRef, ractor::concurrency::JoinHandle<()>) {
    match cfg.routing {
        Routing::KeyPersistent => spawn_factory(KeyPersistentRouting::<Key, JobMsg>::default(), cfg, world).await,
        Routing::Sticky => spawn_factory(StickyQueuerRouting::<Key, JobMsg>::default(), cfg, world).await,
        Routing::Queuer => spawn_factory(QueuerRouting::<Key, JobMsg>::default(), cfg, world).await,
        Routing::RoundRobin => spawn_factory(RoundRobinRouting::<Key, JobMsg>::default(), cfg, world).await,
        Routing::CustomConst => spawn_factory(CustomRouting::<Key, JobMsg, _>::new(HashConst), cfg, world).await,
        Routing::CustomIdentity => spawn_factory(CustomRouting::<Key, JobMsg, _>::new(HashIdentity), cfg, world).await,
        Routing::CustomMax => spawn_factory(CustomRouting::<Key, JobMsg, _>::new(HashMax), cfg, world).await,
        Routing::RlQueuer => spawn_factory(RateLimitedRouter::builder().router(QueuerRouting::<Key, JobMsg>::default()).rate_limiter(bucket()).build(), cfg, world).await,
        Routing::RlKeyPersistent => spawn_factory(RateLimitedRouter::builder().router(KeyPersistentRouting::<Key, JobMsg>::default()).rate_limiter(bucket()).build(), cfg, world).await,
    }
}

#[derive(Clone, Debug, PartialEq, Eq)]
pub enum Event {
    Dispatch(Key),
    Complete(usize),
    DieIn(usize, How),
    Kill(usize),
    KillAfterFinished(usize),
    Resize(usize),
    /// a request for a pool of ZERO workers (true: through UpdateSettings.worker_count, false: AdjustWorkerPool):
    /// documented as ignored, the pool keeps the last non-zero size
    ResizeZero(bool),
    Drain,
    Advance,
    /// 10.1 s pass: the factory's ping tick fires (a Dynamic discard limit is recomputed there)
    AdvanceLong,
    /// UpdateSettings: a new static discard limit (same mode)
    SetLimit(usize),
    /// the next discard callback kills worker `w` and waits until it is gone (inside the factory's handler)
    ArmKillOnDiscard(usize),
    /// worker `w` is told to stop (gracefully, from outside) and lingers in post_stop until the finale: it is
    /// neither available nor reported dead
    StopSlowly(usize),
    /// marker: the next event was issued right behind the previous one (no settling in between)
    NoSettle,
}

/// everything the oracles need
pub struct Run {
    pub cfg: Cfg,
    pub history: Vec<Event>,
    pub events: Vec<(u64, Ev)>,
    pub jobs: Vec<Submitted>,
    pub factory_status: ActorStatus,
    pub live_workers: usize,
    pub last_resize: Option<usize>,
    pub drained: bool,
    pub deaths: usize,
    /// (after event index, queue depth, number of active workers, available capacity, in-progress count)
    pub probes: Vec<(usize, Option<usize>, Option<usize>, Option<usize>, usize)>,
    /// logical time of each probe (same order as `probes`)
    pub probe_lc: Vec<u64>,
    /// (history index from which it applies, discard limit in effect)
    pub limits: Vec<(usize, Option<usize>)>,
    pub finale_rounds: usize,
    /// jobs that were started and have not ended when the run is judged
    pub still_in_progress: usize,
}

fn worker_cells(f: &FRef) -> Vec<ActorCell> {
    let mut c = f.get_children();
    c.sort_by_key(|c| c.get_id());
    c
}

async fn ask(f: &FRef, which: u8) -> Option<usize> {
    let r = match which {
        0 => f.call(FactoryMessage::GetQueueDepth, Some(Duration::from_millis(1))).await,
        1 => f.call(FactoryMessage::GetNumActiveWorkers, Some(Duration::from_millis(1))).await,
        _ => f.call(FactoryMessage::GetAvailableCapacity, Some(Duration::from_millis(1))).await,
    };
    match r {
        Ok(ractor::rpc::CallResult::Success(v)) => Some(v),
        _ => None,
    }
}

pub async fn run(cfg: Cfg) -> Run {
    let world = World::default();
    // schedules are explored from the first event on that can race with the factory's own work (a
    // death, a resize, a drain); before that the default schedule is followed
    vsched::explore_schedules(false);
    let (f, fh) = spawn_for(cfg, &world).await;
    vsched::quiesce();
    if cfg.late_handler {
        let h: Arc<dyn DiscardHandler<Key, JobMsg>> = Arc::new(Discards(world.clone()));
        let _ = f.cast(FactoryMessage::UpdateSettings(UpdateSettingsRequest::builder().discard_handler(Some(h)).build()));
        vsched::quiesce();
    }
    let mut next_id = 1u32;
    let mut jobs: Vec<Submitted> = Vec::new();
    let mut history = Vec::new();
    let mut probes = Vec::new();
    let mut probe_lc = Vec::new();
    let mut requested = cfg.workers;
    let mut last_resize = None;
    let mut drained = false;
    let mut deaths = 0usize;
    // wid -> cell of the current incarnation: children sorted by id are in build order
    let current_cell = |wid: usize, world: &World, f: &FRef| -> Option<ActorCell> {
        // the k-th Built event overall corresponds to the k-th child id ever spawned; map through ids
        let builds: Vec<(usize, u32)> = world.events().iter().filter_map(|(_, e)| if let Ev::Built { wid, inc } = e { Some((*wid, *inc)) } else { None }).collect();
        let cells = worker_cells(f);
        // ids are allocated in spawn order: the i-th build has the i-th smallest id among all workers ever
        // built; dead ones are no longer children, so match by rank among the *live* builds
        let _ = &builds;
        let live: Vec<ActorCell> = cells;
        // find the newest build of this wid and its rank among builds whose actor is still a child
        // (robust shortcut: a worker's own log tells its incarnation; the factory never has two live
        // incarnations of one wid, so pick by elimination using the order of ids)
        let mut wids_in_build_order: Vec<usize> = Vec::new();
        for (w, _) in &builds {
            wids_in_build_order.push(*w);
        }
        // live builds = last build of each wid that still is a child: assume dead incarnations are gone
        let mut last_build_index: BTreeMap<usize, usize> = BTreeMap::new();
        for (i, w) in wids_in_build_order.iter().enumerate() {
            last_build_index.insert(*w, i);
        }
        let mut live_builds: Vec<(usize, usize)> = last_build_index.iter().map(|(w, i)| (*i, *w)).collect();
        live_builds.sort();
        if live_builds.len() != live.len() {
            return None; // a worker is gone (shrunk or dead): identification by rank is not possible now
        }
        live_builds.iter().position(|(_, w)| *w == wid).map(|p| live[p].clone())
    };
    let mut no_wait = false;
    let mut cur_limit = match cfg.discard {
        Discard::None | Discard::LateNewest | Discard::LateOldest => None,
        Discard::Newest(l) | Discard::Oldest(l) => Some(l),
    };
    let mut limits: Vec<(usize, Option<usize>)> = vec![(0, cur_limit)];
    for step in 0..cfg.depth {
        if f.get_status() >= ActorStatus::Stopping {
            break;
        }
        // enabled events, simplest first
        let prog = world.in_progress();
        let mut en: Vec<Event> = vec![Event::Dispatch(0), Event::Dispatch(1)];
        if cfg.flow_only {
            en.push(Event::Dispatch(2));
        }
        if cfg.fine_deaths {
            en = vec![Event::Dispatch(0)];
            for w in 0..2usize {
                if prog.iter().any(|p| p.0 == w) {
                    en.push(Event::Complete(w));
                    en.push(Event::KillAfterFinished(w));
                }
            }
            if !drained {
                en.push(Event::Drain);
            }
        }
        for w in 0..3usize {
            if !no_wait && prog.iter().any(|p| p.0 == w) {
                en.push(Event::Complete(w));
            }
        }
        for w in 0..3usize {
            if no_wait || cfg.flow_only || cfg.fine_deaths {
                break; // right behind the previous event only requests to the factory are issued
            }
            if prog.iter().any(|p| p.0 == w) {
                if !cfg.lean {
                    en.push(Event::KillAfterFinished(w));
                }
                en.push(Event::DieIn(w, How::Panic));
                if !cfg.lean {
                    en.push(Event::DieIn(w, How::Err));
                }
            }
            if !cfg.lean && current_cell(w, &world, &f).is_some() {
                en.push(Event::Kill(w));
            }
        }
        for n in 1..=3usize {
            if n != requested && !cfg.flow_only && !cfg.fine_deaths {
                en.push(Event::Resize(n));
            }
        }
        if !drained && !cfg.flow_only && !cfg.fine_deaths {
            en.push(Event::Drain);
        }
        if cfg.slow_stops && world.slow_stop.lock().unwrap().is_empty() {
            for w in 0..2usize {
                if current_cell(w, &world, &f).is_some() && !prog.iter().any(|p| p.0 == w) {
                    en.push(Event::StopSlowly(w));
                }
            }
        }
        if cfg.set_limit {
            for l in [0usize, 2] {
                if Some(l) != cur_limit {
                    en.push(Event::SetLimit(l));
                }
            }
        }
        if cfg.ttl || cfg.rate_limited() {
            en.push(Event::Advance);
        }
        if cfg.dynamic_to.is_some() && !history.contains(&Event::AdvanceLong) {
            en.push(Event::AdvanceLong);
        }
        // debugging aid: FACTORY_HISTORY="D0,D0,KF0,D0" pins the history
        let pinned = std::env::var("FACTORY_HISTORY").ok().or(cfg.script.map(|s| s.to_string())).and_then(|h| {
            h.split(',').nth(step).map(|t| match t {
                "D0" => Event::Dispatch(0),
                "D1" => Event::Dispatch(1),
                "D2" => Event::Dispatch(2),
                "C0" => Event::Complete(0),
                "C1" => Event::Complete(1),
                "KF0" => Event::KillAfterFinished(0),
                "KF1" => Event::KillAfterFinished(1),
                "K0" => Event::Kill(0),
                "K1" => Event::Kill(1),
                "P0" => Event::DieIn(0, How::Panic),
                "R1" => Event::Resize(1),
                "R2" => Event::Resize(2),
                "R3" => Event::Resize(3),
                "Z0" => Event::ResizeZero(false),
                "Z1" => Event::ResizeZero(true),
                "DR" => Event::Drain,
                "A" => Event::Advance,
                "AL" => Event::AdvanceLong,
                "ARM0" => Event::ArmKillOnDiscard(0),
                "ARM1" => Event::ArmKillOnDiscard(1),
                "SS0" => Event::StopSlowly(0),
                "SS1" => Event::StopSlowly(1),
                "L0" => Event::SetLimit(0),
                "L2" => Event::SetLimit(2),
                _ => Event::Advance,
            })
        });
        let ev = match pinned {
            Some(e) => e,
            None => en[vsched::choose_free("event", en.len())].clone(),
        };
        if matches!(ev, Event::Kill(_) | Event::KillAfterFinished(_) | Event::DieIn(..) | Event::Resize(_) | Event::Drain) {
            vsched::explore_schedules(true);
        }
        world.log(Ev::Script(format!("{ev:?}")));
        history.push(ev.clone());
        match ev {
            Event::Dispatch(key) => {
                let id = next_id;
                next_id += 1;
                let (tx, rx) = ractor::concurrency::oneshot();
                // the (unreachable) TTL carries the job id into the stats callbacks; with `ttl` the
                // first key gets a really short one
                // (with a priority queue the short TTL goes to the urgent key: it expires at the head of the queue
                // while jobs of the other key wait behind it)
                let short = cfg.ttl && key == if cfg.queue == QueueKind::Default { 0 } else { 1 };
                // (short TTLs straddle the factory's first periodic sweep at 100 ms, later jobs expiring EARLIER: job 2
                // has 1 us to live at that moment, job 3 expired 1 us ago, job 4 3 us ago; the discard callback of an
                // expired job takes 2 us (see Discards), so a job further up the queue expires while the sweep runs)
                let ttl = if short { Duration::from_micros(100_005u64.saturating_sub(2 * id as u64)) } else { Duration::from_millis(TTL_BASE_MS + id as u64) };
                let job = Job { key, msg: JobMsg { id, guard: DropGuard { id, world: world.clone() } }, options: JobOptions::new(Some(ttl)), accepted: Some(tx.into()) };
                let lc = vsched::stamp();
                let r = f.cast(FactoryMessage::Dispatch(job));
                jobs.push(Submitted { id, key, lc, rx, accepted: None, port_closed: false, send_failed: r.is_err(), after_drain: drained, short_ttl: short });
            }
            Event::Complete(w) => world.release(w, How::Ok),
            Event::DieIn(w, how) => {
                deaths += 1;
                world.release(w, how)
            }
            Event::Kill(w) => {
                if let Some(c) = current_cell(w, &world, &f) {
                    deaths += 1;
                    c.kill();
                }
            }
            Event::KillAfterFinished(w) => {
                // the worker finishes its job (Finished is on its way to the factory) and is killed
                // right away: which of the two the factory sees first is up to the schedule
                let cell = current_cell(w, &world, &f);
                let target = prog.iter().find(|p| p.0 == w).map(|p| p.3);
                world.release(w, How::Ok);
                for _ in 0..20 {
                    let done = world.events().iter().any(|(_, e)| matches!(e, Ev::End { id, .. } if Some(*id) == target));
                    if done {
                        break;
                    }
                    vsched::yield_now().await;
                }
                if let Some(c) = cell {
                    deaths += 1;
                    c.kill();
                }
            }
            Event::Resize(n) => {
                requested = n;
                last_resize = Some(n);
                if n == 3 {
                    // the other way to resize: a settings update carrying the worker count
                    let _ = f.cast(FactoryMessage::UpdateSettings(UpdateSettingsRequest::builder().worker_count(n).build()));
                } else {
                    let _ = f.cast(FactoryMessage::AdjustWorkerPool(n));
                }
            }
            Event::ResizeZero(via_settings) => {
                if via_settings {
                    let _ = f.cast(FactoryMessage::UpdateSettings(UpdateSettingsRequest::builder().worker_count(0).build()));
                } else {
                    let _ = f.cast(FactoryMessage::AdjustWorkerPool(0));
                }
            }
            Event::SetLimit(l) => {
                cur_limit = Some(l);
                limits.push((history.len() - 1, cur_limit));
                let mode = if matches!(cfg.discard, Discard::Oldest(_) | Discard::LateOldest) { DiscardMode::Oldest } else { DiscardMode::Newest };
                let _ = f.cast(FactoryMessage::UpdateSettings(UpdateSettingsRequest::builder().discard_settings(DiscardSettings::Static { limit: l, mode }).build()));
            }
            Event::Drain => {
                drained = true;
                let _ = f.cast(FactoryMessage::DrainRequests);
            }
            Event::Advance => vsched::sleep(Duration::from_millis(150)).await,
            Event::AdvanceLong => {
                vsched::sleep(Duration::from_millis(10_100)).await;
                // from its first tick on the controller answers the new limit. The factory's own queue follows at once;
                // a worker's copy follows with its answer to the ping, which a worker that is inside a job does not
                // give: for worker-queued routing the new limit only counts if the worker was idle at the tick
                // (otherwise the bound stays the larger, initial one)
                if cfg.factory_queueing() || world.in_progress().is_empty() {
                    cur_limit = cfg.dynamic_to;
                    limits.push((history.len() - 1, cur_limit));
                }
            }
            Event::ArmKillOnDiscard(w) => {
                if let Some(c) = current_cell(w, &world, &f) {
                    deaths += 1;
                    *world.armed.lock().unwrap() = Some((w, c));
                }
            }
            Event::StopSlowly(w) => {
                if let Some(c) = current_cell(w, &world, &f) {
                    deaths += 1;
                    world.slow_stop.lock().unwrap().insert(w);
                    c.stop(Some("told to".into()));
                }
            }
            Event::NoSettle => unreachable!(),
        }
        let _ = &limits;
        // burst mode: the next request may follow at once (both sit in the factory's mailbox together)
        no_wait = cfg.burst
            && step + 1 < cfg.depth
            && matches!(history.last(), Some(Event::Dispatch(_) | Event::Resize(_) | Event::Drain | Event::Complete(_) | Event::DieIn(..)))
            && vsched::choose_free("settle", 2) == 1;
        if no_wait {
            world.log(Ev::Script("(no settling)".into()));
            history.push(Event::NoSettle);
            continue;
        }
        vsched::quiesce();
        for j in jobs.iter_mut().filter(|j| j.accepted.is_none() && !j.port_closed) {
            match j.rx.try_recv() {
                Ok(None) => j.accepted = Some(true),
                Ok(Some(_)) => j.accepted = Some(false),
                Err(tokio::sync::oneshot::error::TryRecvError::Empty) => {}
                Err(tokio::sync::oneshot::error::TryRecvError::Closed) => j.port_closed = true,
            }
        }
        if f.get_status() == ActorStatus::Running {
            let q = ask(&f, 0).await;
            let a = ask(&f, 1).await;
            let c = ask(&f, 2).await;
            probes.push((history.len() - 1, q, a, c, world.in_progress().len()));
            probe_lc.push(vsched::stamp());
        }
    }
    // finale: lingering workers may go, then every job in progress completes until nothing moves any more
    let lingering: Vec<usize> = world.slow_stop.lock().unwrap().iter().copied().collect();
    if !lingering.is_empty() {
        world.slow_stop.lock().unwrap().clear();
        for w in lingering {
            world.gate(w + 100).notify_one();
        }
        vsched::quiesce();
    }
    let mut rounds = 0;
    for _ in 0..24 {
        let prog = world.in_progress();
        // only jobs on live incarnations can complete
        let live_incs = world.inner.lock().unwrap().incs.clone();
        let mut released = false;
        for (w, inc, _, _) in &prog {
            if live_incs.get(w).is_some_and(|n| *n == inc + 1) {
                world.release(*w, How::Ok);
                released = true;
            }
        }
        if !released {
            break;
        }
        rounds += 1;
        vsched::quiesce();
    }
    for j in jobs.iter_mut().filter(|j| j.accepted.is_none() && !j.port_closed) {
        match j.rx.try_recv() {
            Ok(None) => j.accepted = Some(true),
            Ok(Some(_)) => j.accepted = Some(false),
            Err(tokio::sync::oneshot::error::TryRecvError::Empty) => {}
            Err(tokio::sync::oneshot::error::TryRecvError::Closed) => j.port_closed = true,
        }
    }
    // a drain that was completed by a worker's death (not by a Finished message) is noticed by the factory at
    // its next periodic tick at the latest: let two of them pass
    if drained {
        vsched::sleep(Duration::from_millis(250)).await;
        vsched::quiesce();
    }
    let still_in_progress = world.in_progress().len();
    let factory_status = f.get_status();
    let live_workers = f.get_children().iter().filter(|c| c.get_status() <= ActorStatus::Draining).count();
    let r = Run {
        cfg,
        history,
        events: world.events(),
        jobs,
        factory_status,
        live_workers,
        last_resize,
        drained,
        deaths,
        probes,
        probe_lc,
        limits,
        finale_rounds: rounds,
        still_in_progress,
    };
    f.stop(None);
    // workers blocked at their gate never finish on their own: kill what is left
    for c in f.get_children() {
        c.kill();
    }
    let _ = fh.await;
    r
}

pub fn body(cfg: Cfg, property: &'static str) -> vsched::Body {
    Arc::new(move || {
        Box::pin(async move {
            let run = run(cfg).await;
            let violations = match property {
                "C13" => crate::oracle::c13(&run),
                "C14" => crate::oracle::c14(&run),
                _ => crate::oracle::c15(&run),
            };
            Outcome {
                key: format!(
                    "{:?} | {}",
                    run.history,
                    run.events
                        .iter()
                        .filter_map(|(_, e)| match e {
                            Ev::Start { wid, inc, id, .. } => Some(format!("s{id}@{wid}.{inc}")),
                            Ev::End { id, how, .. } => Some(format!("e{id}{}", if *how == How::Ok { "" } else { "!" })),
                            Ev::Discard { reason, id } => Some(format!("d{id}:{}", &reason[..2])),
                            Ev::Built { wid, inc } if *inc > 0 => Some(format!("b{wid}.{inc}")),
                            _ => None,
                        })
                        .collect::<Vec<_>>()
                        .join(",")
                ),
                violations,
            }
        })
    })
}

pub fn plan(property: &'static str, tier: &str) -> Plan {
    let thorough = tier == "thorough";
    let mut cfgs: Vec<(Cfg, usize)> = Vec::new();
    let routings = [Routing::KeyPersistent, Routing::Sticky, Routing::Queuer, Routing::RoundRobin, Routing::CustomConst, Routing::CustomIdentity, Routing::CustomMax];
    let discards = [Discard::None, Discard::Newest(0), Discard::Newest(1), Discard::Oldest(1), Discard::Oldest(2), Discard::Newest(2), Discard::Oldest(0)];
    for r in routings {
        for (i, d) in discards.iter().enumerate() {
            let relevant = match property {
                "C15" => true,
                "C14" => i < 2 || thorough,
                _ => i < 3 || thorough,
            };
            if !relevant {
                continue;
            }
            let main4 = matches!(r, Routing::KeyPersistent | Routing::Sticky | Routing::Queuer | Routing::RoundRobin) && i == 0;
            // schedules (deviation bound 1) are explored where the property is about races with deaths
            let raced = main4
                && match property {
                    "C13" => !matches!(r, Routing::RoundRobin),
                    "C14" => matches!(r, Routing::KeyPersistent | Routing::Sticky),
                    _ => matches!(r, Routing::Queuer),
                };
            let depth = match (thorough, main4) {
                (false, true) => 4,
                (false, false) => 3,
                (true, true) => 5,
                (true, false) => 4,
            };
            let bound = if raced || (thorough && main4) { 1 } else { 0 };
            if bound >= 1 {
                // the big ones are split by their first event (each of them then shards by its next choice):
                // the subtrees below the first event are very uneven in size
                for first in ["D0", "D1", "R1", "R3", "DR", "K0", "K1"] {
                    cfgs.push((Cfg { routing: r, discard: *d, workers: 2, depth, ttl: false, lean: false, burst: false, queue: QueueKind::Default, set_limit: false, flow_only: false, fine_deaths: false, script: Some(first), slow_stops: false, late_handler: false, dynamic_to: None }, bound));
                }
            } else {
                cfgs.push((Cfg { routing: r, discard: *d, workers: 2, depth, ttl: false, lean: false, burst: false, queue: QueueKind::Default, set_limit: false, flow_only: false, fine_deaths: false, script: None, slow_stops: false, late_handler: false, dynamic_to: None }, bound));
            }
        }
    }
    // deeper histories over the reduced alphabet (one kind of death, no kill), default schedule: multi-step
    // set-ups such as "a queued job survives its worker's death, then the pool is resized, then the key
    // comes back" need five events
    for r in routings {
        let main = matches!(r, Routing::KeyPersistent | Routing::Sticky | Routing::Queuer | Routing::RoundRobin);
        if !main && !thorough {
            // the custom hashers share the worker-queued path of KeyPersistent: one of them at depth 5
            if r != Routing::CustomIdentity {
                continue;
            }
        }
        cfgs.push((Cfg { routing: r, discard: Discard::None, workers: 2, depth: if thorough { 6 } else { 5 }, ttl: false, lean: true, burst: false, queue: QueueKind::Default, set_limit: false, flow_only: false, fine_deaths: false, script: None, slow_stops: false, late_handler: false, dynamic_to: None }, 0));
    }
    // bursts: requests that sit in the factory's mailbox together (a resize right behind a resize, a
    // dispatch right behind a drain request, ...), so the factory handles the second before the workers
    // reacted to the first
    for r in [Routing::Queuer, Routing::KeyPersistent, Routing::Sticky, Routing::RoundRobin] {
        cfgs.push((Cfg { routing: r, discard: Discard::None, workers: 2, depth: if thorough { 5 } else { 4 }, ttl: false, lean: true, burst: true, queue: QueueKind::Default, set_limit: false, flow_only: false, fine_deaths: false, script: None, slow_stops: false, late_handler: false, dynamic_to: None }, 0));
        if property == "C15" {
            cfgs.push((Cfg { routing: r, discard: Discard::Newest(1), workers: 2, depth: if thorough { 4 } else { 3 }, ttl: false, lean: true, burst: true, queue: QueueKind::Default, set_limit: false, flow_only: false, fine_deaths: false, script: None, slow_stops: false, late_handler: false, dynamic_to: None }, 0));
        }
    }
    // the priority queue (factory-queued routing only: worker queues are plain FIFOs): urgent key b
    // overtakes best-effort key a; with and without non-discardable jobs
    for r in [Routing::Queuer, Routing::Sticky] {
        for (q, d) in [(QueueKind::Priority, Discard::None), (QueueKind::Priority, Discard::Oldest(1)), (QueueKind::PriorityKeep, Discard::Newest(1)), (QueueKind::PriorityKeep, Discard::Oldest(1))] {
            if property != "C15" && d != Discard::None && !thorough {
                continue;
            }
            cfgs.push((Cfg { routing: r, discard: d, workers: 1, depth: if thorough { 6 } else { 4 }, ttl: false, lean: true, burst: false, queue: q, set_limit: false, flow_only: false, fine_deaths: false, script: None, slow_stops: false, late_handler: false, dynamic_to: None }, 0));
        }
    }
    // plain job flow with three keys, longer: several same-key jobs waiting while every worker is busy
    for r in [Routing::Sticky, Routing::KeyPersistent, Routing::Queuer, Routing::RoundRobin] {
        if !thorough && !(matches!(r, Routing::Sticky | Routing::KeyPersistent) || property == "C13") {
            continue;
        }
        cfgs.push((Cfg { routing: r, discard: Discard::None, workers: 2, depth: if thorough { 8 } else { 6 }, ttl: false, lean: true, burst: false, queue: QueueKind::Default, set_limit: false, flow_only: true, fine_deaths: false, script: None, slow_stops: false, late_handler: false, dynamic_to: None }, 0));
    }
    // a leaky-bucket rate limiter in front of the router; the history may let 150 ms pass (refill to the cap)
    for r in [Routing::RlQueuer, Routing::RlKeyPersistent] {
        cfgs.push((Cfg { routing: r, discard: Discard::None, workers: 2, depth: if thorough { 6 } else { 5 }, ttl: false, lean: true, burst: false, queue: QueueKind::Default, set_limit: false, flow_only: false, fine_deaths: false, script: None, slow_stops: false, late_handler: false, dynamic_to: None }, 0));
    }
    // a worker dies right after it reported completion, at the granularity of the factory's own channel
    // operations (worker-queued routing: the next job of its queue is dispatched while it is going down)
    if property != "C14" || thorough {
        for r in [Routing::KeyPersistent, Routing::RoundRobin] {
            cfgs.push((Cfg { routing: r, discard: Discard::None, workers: 1, depth: 4, ttl: false, lean: true, burst: false, queue: QueueKind::Default, set_limit: false, flow_only: false, fine_deaths: true, script: None, slow_stops: false, late_handler: false, dynamic_to: None }, if thorough { 3 } else { 2 }));
        }
    }
    // scripted histories: a worker is killed from inside the factory's own handler (in the callback that
    // discards an expired job, before the next job of that worker's queue is dispatched); schedules explored
    for r in [Routing::KeyPersistent, Routing::RoundRobin] {
        for script in ["D1,D0,D1,A,ARM0,C0", "D1,D0,D1,A,DR,ARM0,C0", "D1,D0,D1,D1,A,ARM0,C0,C0"] {
            cfgs.push((
                Cfg { routing: r, discard: Discard::None, workers: 1, depth: script.split(',').count(), ttl: true, lean: true, burst: false, queue: QueueKind::Default, set_limit: false, flow_only: false, fine_deaths: false, script: Some(script), slow_stops: false, late_handler: false, dynamic_to: None },
                if thorough { 2 } else { 1 },
            ));
        }
    }
    // scripted histories: a worker with jobs of two keys queued behind its active one reports completion and dies
    // right away, the pool grows (so that keys hash differently), the first key is dispatched again: the jobs of one
    // key still run in submission order, one at a time (schedules explored: the death may overtake the report)
    if property == "C14" || thorough {
        for script in ["D0,D1,D0,KF0,R2,D0", "D1,D0,D1,KF0,R2,D1", "D0,D2,D0,KF0,R2,D0", "D2,D0,D2,KF0,R2,D2", "D1,D2,D1,KF0,R2,D1", "D2,D1,D2,KF0,R2,D2", "D0,D1,D0,KF0,R3,D0", "D1,D0,D1,KF0,R3,D1", "D2,D1,D2,KF0,R3,D2"] {
            cfgs.push((
                Cfg { routing: Routing::KeyPersistent, discard: Discard::None, workers: 1, depth: script.split(',').count(), ttl: false, lean: true, burst: false, queue: QueueKind::Default, set_limit: false, flow_only: false, fine_deaths: false, script: Some(script), slow_stops: false, late_handler: false, dynamic_to: None },
                if thorough { 2 } else { 1 },
            ));
        }
    }
    // a factory started with NO workers (supported: jobs are parked in the factory's queue whatever the router),
    // more jobs accepted than the pool is then grown to: each completion pulls the next parked job
    if property == "C13" || thorough {
        for r in [Routing::KeyPersistent, Routing::RoundRobin, Routing::Queuer, Routing::Sticky] {
            for script in ["D0,D1,D0,D1,D0,R2,C0,C1,C0", "D0,D0,D0,R1,C0,C0", "D0,D1,D2,D0,R1,C0,R2,C0,C1"] {
                cfgs.push((
                    Cfg { routing: r, discard: Discard::None, workers: 0, depth: script.split(',').count(), ttl: false, lean: true, burst: false, queue: QueueKind::Default, set_limit: false, flow_only: false, fine_deaths: false, script: Some(script), slow_stops: false, late_handler: false, dynamic_to: None },
                    if thorough { 1 } else { 0 },
                ));
            }
        }
    }
    // a factory started without a discard limit gets one at run time (UpdateSettings): the existing workers' own
    // queues (worker-queued routing) and the factory queue follow it
    if property == "C15" || thorough {
        for r in [Routing::KeyPersistent, Routing::Queuer, Routing::Sticky] {
            for (d, script) in [(Discard::LateNewest, "L2,D0,D0,D0,D0,D0,C0"), (Discard::LateNewest, "L0,D0,D0,D0"), (Discard::LateOldest, "L2,D0,D0,D0,D0,D0,C0"), (Discard::LateOldest, "L0,D0,D0,D0,C0")] {
                cfgs.push((
                    Cfg { routing: r, discard: d, workers: 1, depth: script.split(',').count(), ttl: false, lean: true, burst: false, queue: QueueKind::Default, set_limit: true, flow_only: false, fine_deaths: false, script: Some(script), slow_stops: false, late_handler: false, dynamic_to: None },
                    0,
                ));
            }
        }
    }
    // a Dynamic discard limit that its controller lowers at the factory's first ping tick: the workers' own queues
    // (worker-queued routing) and the factory queue follow the new limit
    if property == "C15" || thorough {
        for r in [Routing::KeyPersistent, Routing::Queuer] {
            for (d, to) in [(Discard::Newest(3), 1usize), (Discard::Oldest(3), 1), (Discard::Newest(2), 0)] {
                cfgs.push((Cfg { routing: r, discard: d, workers: 1, depth: if thorough { 7 } else { 6 }, ttl: false, lean: true, burst: false, queue: QueueKind::Default, set_limit: false, flow_only: true, fine_deaths: false, script: None, slow_stops: false, late_handler: false, dynamic_to: Some(to) }, 0));
            }
        }
    }
    // scripted histories with requests for a pool of zero workers (ignored: the pool keeps its size and goes on
    // running jobs), through both entry points, before / between / after ordinary resizes
    if property == "C15" || thorough {
        for r in [Routing::Queuer, Routing::KeyPersistent] {
            for script in ["Z1,D0,D1,C0", "D0,Z0,D1,C0,C1", "R1,Z1,D0,D0,C0", "D0,D1,Z1,C0,C1,D0", "Z0,R3,Z1,D0"] {
                cfgs.push((
                    Cfg { routing: r, discard: Discard::None, workers: 2, depth: script.split(',').count(), ttl: false, lean: true, burst: false, queue: QueueKind::Default, set_limit: false, flow_only: false, fine_deaths: false, script: Some(script), slow_stops: false, late_handler: false, dynamic_to: None },
                    if thorough { 1 } else { 0 },
                ));
            }
        }
    }
    // a worker that lingers in post_stop (told to stop from outside): unavailable but not yet reported dead
    if property != "C14" || thorough {
        for r in [Routing::KeyPersistent, Routing::RoundRobin, Routing::Queuer] {
            for d in [Discard::Newest(1), Discard::Oldest(1), Discard::None] {
                if d == Discard::None && property == "C15" {
                    continue;
                }
                cfgs.push((Cfg { routing: r, discard: d, workers: 1, depth: if thorough { 5 } else { 4 }, ttl: false, lean: true, burst: false, queue: QueueKind::Default, set_limit: false, flow_only: false, fine_deaths: false, script: None, slow_stops: true, late_handler: false, dynamic_to: None }, 0));
            }
        }
    }
    // the same with two workers: dispatches routed to the lingering worker are parked for its replacement, and a
    // shrink that covers its slot arrives before its death is reported
    if property == "C13" || property == "C14" || thorough {
        for r in [Routing::KeyPersistent, Routing::RoundRobin, Routing::Sticky] {
            if property == "C14" && !thorough && r != Routing::Sticky {
                continue;
            }
            // (C14's recorded finding needs five events)
            let depth = if thorough || property == "C14" { 5 } else { 4 };
            cfgs.push((Cfg { routing: r, discard: Discard::None, workers: 2, depth, ttl: false, lean: true, burst: false, queue: QueueKind::Default, set_limit: false, flow_only: false, fine_deaths: false, script: None, slow_stops: true, late_handler: false, dynamic_to: None }, 0));
        }
    }
    // the discard limit changes under way (UpdateSettings)
    if property == "C15" || thorough {
        for r in [Routing::Queuer, Routing::KeyPersistent] {
            for d in [Discard::Newest(1), Discard::Oldest(1)] {
                cfgs.push((Cfg { routing: r, discard: d, workers: 1, depth: if thorough { 6 } else { 5 }, ttl: false, lean: true, burst: false, queue: QueueKind::Default, set_limit: true, flow_only: false, fine_deaths: false, script: None, slow_stops: false, late_handler: false, dynamic_to: None }, 0));
            }
        }
    }
    // TTL expiry with time advancing
    for r in [Routing::Queuer, Routing::KeyPersistent] {
        cfgs.push((Cfg { routing: r, discard: Discard::None, workers: 1, depth: if thorough { 5 } else { 4 }, ttl: true, lean: false, burst: false, queue: QueueKind::Default, set_limit: false, flow_only: false, fine_deaths: false, script: None, slow_stops: false, late_handler: false, dynamic_to: None }, 0));
    }
    // TTL expiry at the head of a priority queue (the urgent key carries the TTL, jobs of the other key wait behind)
    for r in [Routing::Queuer, Routing::Sticky] {
        if property == "C13" || thorough {
            cfgs.push((Cfg { routing: r, discard: Discard::None, workers: 1, depth: if thorough { 6 } else { 5 }, ttl: true, lean: true, burst: false, queue: QueueKind::Priority, set_limit: false, flow_only: false, fine_deaths: false, script: None, slow_stops: false, late_handler: false, dynamic_to: None }, 0));
        }
    }
    // the discard handler is replaced through UpdateSettings before the first event: expiry in the shared
    // queue, in a worker's own queue (key-bound and sticky routing) and load shedding reach the new one
    if property == "C13" || thorough {
        for r in [Routing::Sticky, Routing::Queuer, Routing::KeyPersistent] {
            cfgs.push((Cfg { routing: r, discard: Discard::None, workers: 1, depth: if thorough { 5 } else { 4 }, ttl: true, lean: false, burst: false, queue: QueueKind::Default, set_limit: false, flow_only: false, fine_deaths: false, script: None, slow_stops: false, late_handler: true, dynamic_to: None }, 0));
        }
        for r in [Routing::Sticky, Routing::KeyPersistent] {
            cfgs.push((Cfg { routing: r, discard: Discard::Oldest(1), workers: 2, depth: 4, ttl: false, lean: true, burst: false, queue: QueueKind::Default, set_limit: false, flow_only: false, fine_deaths: false, script: None, slow_stops: false, late_handler: true, dynamic_to: None }, 0));
        }
    }
    let mut units = Vec::new();
    for (cfg, bound) in cfgs {
        let mut ecfg = ExecCfg { stack: 1 << 19, max_steps: 60_000, ..Default::default() };
        if cfg.fine_deaths {
            ecfg.filter = Some(Arc::new(|k, _l, _t| k == vsched::PointKind::Channel));
        }
        let split = if bound >= 1 && !cfg.lean { 16 } else if cfg.depth >= 4 { 16 } else { 2 };
        units.push(Unit::explore_split(XJob::new(format!("{}/{}", property.to_lowercase(), cfg.name()), ecfg, Some(if thorough && !cfg.lean { bound.max(1) } else { bound }), body(cfg, property)), split));
    }
    if property == "C15" {
        units.extend(crate::limiter::units(thorough));
    }
    Plan {
        property: match property {
            "C13" => "C13",
            "C14" => "C14",
            _ => "C15",
        },
        units,
        rule: "every event history up to the stated depth over {dispatch(key a|b), complete(w), die(w: panic | Err | kill | kill right after Finished), resize(1|2|3), drain, advance} (only enabled events; enumerated exhaustively as free choices; in the burst units a request may also follow its predecessor without the system settling in between) on a real Factory with gate-controlled real workers, for each routing mode x discard setting; the system runs to quiescence between events and the schedules of those runs are explored within the deviation bound (bound 1 permutes Finished / supervision events / dispatches); oracle: per-job fate ledger and routing monitors computed from the workers', discard handler's, stats layer's and lifecycle hooks' logs; non-trivial = execution with >= 1 branching decision; distinct = distinct (history, schedule) vectors".into(),
        assumptions: vec![
            "task granularity; zero-cost computation on the virtual clock".into(),
            "2 initial workers (resizable to 1..3), 2 keys; default queue, and the 5-level priority queue (key b urgent, optionally not discardable) for factory-queued routing".into(),
        ],
        engine: "vsched (shuttle coroutines + exhaustive history enumeration x deviation-bounded schedule DFS) on the real ractor code; leaky bucket: exhaustive enumeration of operation sequences against a counter model",
    }
}
