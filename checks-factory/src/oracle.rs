//! Oracles over one factory run: fate ledger (C13), routing monitors (C14), capacity controls (C15).
use std::collections::{BTreeMap, BTreeSet};

use ractor::ActorStatus;

use crate::harness::{Discard, Ev, Event, How, QueueKind, Routing, Run};

struct Fate {
    starts: Vec<(u64, usize, u32)>,
    ends: Vec<(u64, How)>,
    discards: Vec<String>,
    completed: Vec<u64>,
}

fn fates(run: &Run) -> BTreeMap<u32, Fate> {
    let mut m: BTreeMap<u32, Fate> = BTreeMap::new();
    for j in &run.jobs {
        m.insert(j.id, Fate { starts: vec![], ends: vec![], discards: vec![], completed: vec![] });
    }
    for (lc, e) in &run.events {
        match e {
            Ev::Start { wid, inc, id, .. } => {
                if let Some(f) = m.get_mut(id) {
                    f.starts.push((*lc, *wid, *inc))
                }
            }
            Ev::End { id, how, .. } => {
                if let Some(f) = m.get_mut(id) {
                    f.ends.push((*lc, how.clone()))
                }
            }
            Ev::Discard { reason, id } => {
                if let Some(f) = m.get_mut(id) {
                    f.discards.push(reason.clone())
                }
            }
            Ev::Completed { id } => {
                if let Some(f) = m.get_mut(id) {
                    f.completed.push(*lc)
                }
            }
            _ => {}
        }
    }
    m
}

/// the recorded defect: the factory consumed a `Finished` that a dead incarnation had sent, i.e. it
/// booked a job as completed while that job had not ended
fn stale_finished(run: &Run) -> bool {
    let f = fates(run);
    let replaced = run.events.iter().any(|(_, e)| matches!(e, Ev::Built { inc, .. } if *inc > 0));
    replaced
        && f.values().any(|x| {
            x.completed.iter().any(|c| match x.ends.first() {
                None => true,
                Some((e, _)) => c < e,
            })
        })
}

/// jobs that were sent, never started, were neither discarded nor returned, and ceased to exist (their drop is
/// logged) at a moment when no worker was going down: a death only excuses a job that went down WITH that
/// worker, i.e. was dropped before the worker's replacement was built (or, for kills armed by the script,
/// before the worker was observed gone); one that was dropped later was in the factory's hands
fn vanished_in_factory(run: &Run, f: &BTreeMap<u32, Fate>) -> Vec<u32> {
    let moments: Vec<u64> = run.events.iter().filter_map(|(l, e)| if matches!(e, Ev::Built { inc, .. } if *inc > 0) || matches!(e, Ev::WorkerGone { .. }) { Some(*l) } else { None }).collect();
    let mut out = Vec::new();
    for j in &run.jobs {
        let x = &f[&j.id];
        let refused = !x.discards.is_empty() || j.accepted == Some(false);
        let died_in_mailbox = j.after_drain && j.port_closed && j.accepted.is_none() && run.factory_status >= ActorStatus::Stopping;
        if !x.starts.is_empty() || refused || j.send_failed || died_in_mailbox {
            continue;
        }
        if let Some(d) = run.events.iter().find(|(_, e)| matches!(e, Ev::Dropped { id } if *id == j.id)).map(|(l, _)| *l) {
            let with_worker = moments.iter().any(|b| d < *b) || (moments.is_empty() && run.deaths > 0);
            if !with_worker {
                out.push(j.id);
            }
        }
    }
    out
}

pub fn c13(run: &Run) -> Vec<String> {
    let mut bad = Vec::new();
    let f = fates(run);
    let stale = stale_finished(run);
    let sig = if stale { "[[sig:stale-finished-after-replacement]] " } else { "" };
    for (_, e) in &run.events {
        if let Ev::StaleDiscard { reason, id } = e {
            bad.push(format!("job {id} was discarded ({reason}) to the handler that UpdateSettings had replaced before the job was submitted; the current handler never heard of it"));
        }
    }
    let mut missing = 0usize;
    for j in &run.jobs {
        let x = &f[&j.id];
        let handled = x.ends.iter().filter(|e| e.1 == How::Ok).count();
        if x.starts.len() > 1 {
            bad.push(format!("job {} was started {} times: {:?}", j.id, x.starts.len(), x.starts));
        }
        if handled > 1 {
            bad.push(format!("job {} was handled {handled} times", j.id));
        }
        if !x.starts.is_empty() && !x.discards.is_empty() {
            bad.push(format!("job {} was handed to a worker and also discarded ({:?})", j.id, x.discards));
        }
        if x.discards.len() > 1 {
            bad.push(format!("job {} was reported to the discard handler {} times: {:?}", j.id, x.discards.len(), x.discards));
        }
        if j.accepted == Some(false) && !x.starts.is_empty() {
            bad.push(format!("job {} was returned to the submitter and also run", j.id));
        }
        if j.accepted == Some(false) && x.discards.is_empty() {
            bad.push(format!("job {} was returned to the submitter without telling the discard handler why", j.id));
        }
        for d in &x.discards {
            let ok = match d.as_str() {
                "Shutdown" => run.drained,
                "Loadshed" => run.cfg.discard != Discard::None,
                "TtlExpired" => j.short_ttl,
                "RateLimited" => run.cfg.rate_limited(),
                _ => false,
            };
            if !ok {
                bad.push(format!("job {} was discarded with reason {d}, which does not apply in this configuration", j.id));
            }
        }
        let refused = !x.discards.is_empty() || j.accepted == Some(false);
        // a request that was still in the mailbox when the drained factory stopped was never accepted:
        // the submitter sees its acceptance port closed without an answer
        let died_in_mailbox = j.after_drain && j.port_closed && j.accepted.is_none() && run.factory_status >= ActorStatus::Stopping;
        if x.starts.is_empty() && !refused && !j.send_failed && !died_in_mailbox {
            missing += 1;
        }
        // started but neither ended nor on a dead incarnation: still blocked at the end although the
        // finale released every live worker
        if x.starts.len() == 1 && x.ends.is_empty() {
            let (_, wid, inc) = x.starts[0];
            let died = run.events.iter().any(|(_, e)| matches!(e, Ev::Built { wid: w, inc: n } if *w == wid && *n > inc));
            if !died && run.factory_status == ActorStatus::Running && run.deaths == 0 {
                bad.push(format!("job {} started on worker {wid}.{inc} and never finished although no worker died", j.id));
            }
        }
    }
    // lost together with a dying worker: at most one job per death; none while workers are healthy
    let lost_running = run
        .jobs
        .iter()
        .filter(|j| {
            let x = &f[&j.id];
            x.starts.len() == 1 && !x.ends.iter().any(|e| e.1 == How::Ok) && x.discards.is_empty()
        })
        .count();
    let factory_alive = run.factory_status == ActorStatus::Running || run.drained;
    if factory_alive {
        if missing + lost_running > run.deaths {
            bad.push(format!(
                "{sig}{} accepted job(s) never ran and {} died with a worker, but only {} worker death(s) happened (history {:?})",
                missing, lost_running, run.deaths, run.history
            ));
        }
        for id in vanished_in_factory(run, &f) {
            bad.push(format!(
                "{sig}job {id} was accepted, never ran, was neither discarded nor returned, and ceased to exist while no worker was dying ({} death(s), every replacement had been built): it disappeared in the factory's hands (history {:?})",
                run.deaths, run.history
            ));
        }
    } else if !run.drained {
        bad.push(format!("the factory itself is {:?} at the end of the history {:?}", run.factory_status, run.history));
    }
    bad
}

pub fn c14(run: &Run) -> Vec<String> {
    let mut bad = Vec::new();
    let stale = stale_finished(run);
    let sig = if stale { "[[sig:stale-finished-after-replacement]] " } else { "" };
    // intervals per job: (start lc, end lc or MAX, wid, inc, key, id)
    let mut iv: Vec<(u64, u64, usize, u32, u8, u32)> = Vec::new();
    for (lc, e) in &run.events {
        if let Ev::Start { wid, inc, key, id } = e {
            let end = run
                .events
                .iter()
                .find(|(_, x)| matches!(x, Ev::End { id: i2, inc: n2, .. } if i2 == id && n2 == inc))
                .map(|(l, _)| *l)
                .or_else(|| {
                    // the incarnation died: the job stopped being in progress when the replacement was built
                    run.events.iter().find(|(l, x)| l > lc && matches!(x, Ev::Built { wid: w, inc: n } if w == wid && *n > *inc)).map(|(l, _)| *l)
                })
                .unwrap_or(u64::MAX);
            iv.push((*lc, end, *wid, *inc, *key, *id));
        }
    }
    // a worker handles one job at a time
    for a in &iv {
        for b in &iv {
            if a.5 < b.5 && a.2 == b.2 && a.3 == b.3 && a.0 < b.1 && b.0 < a.1 {
                bad.push(format!("worker {}.{} had jobs {} and {} in progress at the same time", a.2, a.3, a.5, b.5));
            }
        }
    }
    if matches!(run.cfg.routing, Routing::KeyPersistent | Routing::Sticky) {
        // (second recorded finding: a job parked for a worker that refuses messages but has not been reported dead
        // is not "in progress" for the sticky router, which sends the key's next job elsewhere)
        let sig = if !stale && run.cfg.routing == Routing::Sticky && run.history.iter().any(|e| matches!(e, Event::StopSlowly(_))) { "[[sig:parked-job-of-a-lingering-worker-breaks-key-affinity]] " } else { sig };
        for a in &iv {
            for b in &iv {
                if a.5 < b.5 && a.4 == b.4 && a.2 != b.2 && a.0 < b.1 && b.0 < a.1 {
                    bad.push(format!(
                        "{sig}jobs {} and {} have the same key {} and were in progress on workers {} and {} at the same time (history {:?})",
                        a.5, b.5, a.4, a.2, b.2, run.history
                    ));
                }
            }
        }
    }
    if run.cfg.routing == Routing::KeyPersistent {
        // jobs of one key are handled in submission order
        for key in [0u8, 1, 2] {
            let order: Vec<u32> = iv.iter().filter(|x| x.4 == key).map(|x| x.5).collect();
            let mut sorted = order.clone();
            sorted.sort();
            if order != sorted {
                bad.push(format!("key-persistent routing handled the jobs of key {key} in the order {order:?}"));
            }
        }
    }
    // custom hashing (and every other mode) stays inside the pool
    let max_pool = 3usize;
    for x in &iv {
        if x.2 >= max_pool {
            bad.push(format!("job {} ran on worker index {}, outside any pool size used", x.5, x.2));
        }
    }
    // ... and inside the CURRENT pool: a job is routed when it is dispatched (custom hashing, round robin) and
    // must then go to a worker below the size requested last before that dispatch; workers that a shrink
    // removed but that are still busy are not part of the pool any more. (Key-persistent and sticky routing
    // deliberately keep a key with the worker that still holds jobs of it; queuer routing queues in the
    // factory and routes when a worker frees up, possibly after a later growth.) Histories in which the system settled after
    // every request only.
    if matches!(run.cfg.routing, Routing::CustomConst | Routing::CustomIdentity | Routing::CustomMax | Routing::RoundRobin) && !run.history.contains(&Event::NoSettle) {
        let mut size = run.cfg.workers;
        let mut dispatched = 0u32;
        let mut size_at: BTreeMap<u32, usize> = BTreeMap::new();
        for e in &run.history {
            match e {
                Event::Resize(n) => size = *n,
                Event::Dispatch(_) => {
                    dispatched += 1;
                    size_at.insert(dispatched, size);
                }
                _ => {}
            }
        }
        for x in &iv {
            if let Some(n) = size_at.get(&x.5) {
                // (with an EMPTY pool nothing is routed at dispatch time: the job waits in the factory's queue
                // whatever the router, and is routed after a later growth)
                if *n > 0 && x.2 >= *n {
                    bad.push(format!("job {} was dispatched when the pool had {n} worker(s) and ran on worker {} (history {:?})", x.5, x.2, run.history));
                }
            }
        }
    }
    if run.factory_status != ActorStatus::Running && !run.drained {
        bad.push(format!("the factory died ({:?}) during history {:?}", run.factory_status, run.history));
    }
    // round robin: the first n dispatches to an idle pool of n workers reach n different workers
    if run.cfg.routing == Routing::RoundRobin {
        let n = run.cfg.workers;
        let first: Vec<&Event> = run.history.iter().take(n).collect();
        if first.len() == n && first.iter().all(|e| matches!(e, Event::Dispatch(_))) {
            let ids: Vec<u32> = (1..=n as u32).collect();
            let workers: BTreeSet<usize> = iv.iter().filter(|x| ids.contains(&x.5)).map(|x| x.2).collect();
            if workers.len() != n {
                bad.push(format!("round robin sent the first {n} jobs to workers {workers:?}"));
            }
        }
    }
    // queuer: nothing waits in the factory queue while a worker is idle (probes are taken at quiescence)
    if matches!(run.cfg.routing, Routing::Queuer | Routing::Sticky) {
        for (step, q, active, _cap, in_progress) in &run.probes {
            if let (Some(q), Some(active)) = (q, active) {
                // (resizes change the pool under the probe and a draining factory hands nothing out; worker deaths
                // do not excuse anything: at quiescence the dead worker has been replaced and its replacement is
                // as available as any worker)
                // (a resize is honoured as well: the pool size is the one requested last; a worker that a shrink
                // is retiring still counts as busy until it is done, so "fewer busy workers than the pool size"
                // means that a worker of the pool proper is idle)
                let after_resize_or_death = run.history[..=*step].iter().any(|e| matches!(e, Event::Drain | Event::StopSlowly(_) | Event::ArmKillOnDiscard(_)));
                let size = run.history[..=*step].iter().rev().find_map(|e| if let Event::Resize(n) = e { Some(*n) } else { None }).unwrap_or(run.cfg.workers);
                if *q > 0 && *active < size && !after_resize_or_death && matches!(run.cfg.routing, Routing::Queuer | Routing::RlQueuer) && !(run.cfg.rate_limited()) {
                    bad.push(format!(
                        "{sig}after step {step} of {:?}: {q} job(s) wait in the factory queue while only {active} of {size} workers are busy ({in_progress} jobs in progress)",
                        run.history
                    ));
                }
            }
        }
    }
    bad
}

pub fn c15(run: &Run) -> Vec<String> {
    let mut bad = Vec::new();
    let f = fates(run);
    // discard limit: waiting jobs after each processed event
    let limit = match run.cfg.discard {
        Discard::None => None,
        Discard::Newest(l) | Discard::Oldest(l) => Some(l),
        // no limit until a settings update installs one
        Discard::LateNewest | Discard::LateOldest => Some(usize::MAX),
    };
    // the limit in effect after history[i] (settings updates move it)
    // (mode Newest only ever refuses the incoming job, so jobs admitted under an earlier, larger limit stay:
    // there the bound is the largest limit that was in effect so far)
    let newest_mode = matches!(run.cfg.discard, Discard::Newest(_) | Discard::LateNewest);
    let limit_at = |i: usize| {
        let upto = run.limits.iter().filter(|(from, _)| *from <= i);
        if newest_mode {
            upto.filter_map(|(_, l)| *l).max()
        } else {
            upto.last().and_then(|(_, l)| *l)
        }
    };
    let changed = run.limits.len() > 1;
    if let Some(l0) = limit {
        if run.cfg.factory_queueing() {
            for (step, q, ..) in &run.probes {
                let l = limit_at(*step).unwrap_or(l0);
                // a lowered limit takes effect with the next dispatch ("after a dispatch has been processed")
                // (and a dispatch refused because the factory is draining does not go through the limit at all)
                if changed && (!matches!(run.history[*step], Event::Dispatch(_)) || run.history[..=*step].contains(&Event::Drain)) {
                    continue;
                }
                if let Some(q) = q {
                    // jobs the priority manager declares non-discardable (key b in the prio-keep units) are
                    // queued regardless of the limit
                    let keep = if run.cfg.queue == QueueKind::PriorityKeep { run.history[..=*step].iter().filter(|e| matches!(e, Event::Dispatch(1))).count() } else { 0 };
                    if *q > l.saturating_add(keep) {
                        bad.push(format!("after step {step} of {:?} the factory queue holds {q} jobs, the discard limit is {l} ({keep} non-discardable jobs were dispatched)", run.history));
                    }
                }
            }
        }
        // WHICH job is shed (queuer routing, where all waiting jobs sit in one queue; histories in
        // which the system settled after every request, so that "at that moment" is well defined):
        // newest = the job being dispatched; oldest = the longest-waiting job of the lowest priority class
        // that has one (the default queue has a single class)
        // (queuer routing only: sticky routing parks jobs of a key that is in progress at that worker)
        // (... and no worker lingering on its way out: a job whose dispatch to such a worker failed is parked at
        // that worker, outside the factory queue)
        if run.cfg.routing == Routing::Queuer && !run.history.contains(&Event::NoSettle) && !run.history.iter().any(|e| matches!(e, Event::StopSlowly(_))) {
            let first_lc = |id: u32, pick: &dyn Fn(&Ev) -> bool| run.events.iter().find(|(_, e)| pick(e) && matches!(e, Ev::Start { id: i, .. } | Ev::Discard { id: i, .. } if *i == id)).map(|(l, _)| *l);
            for (t, e) in &run.events {
                let Ev::Discard { reason, id } = e else { continue };
                if reason != "Loadshed" {
                    continue;
                }
                let key_of = |i: u32| run.jobs.iter().find(|j| j.id == i).map(|j| j.key).unwrap_or(0);
                // (observation outside the listed properties, see DESIGN.md 10.6: in mode Oldest the factory
                // sheds without consulting PriorityManager::is_discardable, so a "non-discardable" job can be
                // shed; C15 only bounds the number of waiting discardable jobs, so this is not demanded here)
                // jobs sent before this moment that neither started nor were discarded before it
                let waiting: Vec<u32> = run
                    .jobs
                    .iter()
                    .filter(|j| j.lc < *t && !j.send_failed && !j.after_drain)
                    .filter(|j| j.id == *id || (first_lc(j.id, &|e| matches!(e, Ev::Start { .. })).is_none_or(|l| l > *t) && first_lc(j.id, &|e| matches!(e, Ev::Discard { .. })).is_none_or(|l| l > *t)))
                    .map(|j| j.id)
                    .collect();
                let newest = run.jobs.iter().filter(|j| j.lc < *t).map(|j| j.id).max();
                match run.cfg.discard {
                    Discard::Newest(_) | Discard::LateNewest => {
                        if Some(*id) != newest {
                            bad.push(format!("discard mode Newest shed job {id}, but the job being dispatched was {newest:?} (waiting: {waiting:?}, history {:?})", run.history));
                        }
                    }
                    Discard::Oldest(_) | Discard::LateOldest => {
                        let class = |i: u32| if run.cfg.queue == QueueKind::Default { 0 } else { key_of(i) };
                        let candidates: Vec<u32> = waiting.clone();
                        // lowest priority class present (key a = best effort = class 0 here), then the oldest in it
                        let lowest = candidates.iter().map(|i| class(*i)).min();
                        let expect = candidates.iter().copied().filter(|i| Some(class(*i)) == lowest).min();
                        // the job being dispatched may itself be the only candidate
                        if expect.is_some() && Some(*id) != expect {
                            bad.push(format!("discard mode Oldest shed job {id}, but the longest-waiting job of the lowest priority was {expect:?} (waiting: {waiting:?}, history {:?})", run.history));
                        }
                    }
                    Discard::None => {}
                }
            }
        }
        // every shed job is reported exactly once, with the Loadshed reason
        for (id, x) in &f {
            let shed = x.discards.iter().filter(|d| *d == "Loadshed").count();
            if shed > 1 {
                bad.push(format!("job {id} was reported as load-shed {shed} times"));
            }
        }
        // worker-queued routing: at most `l` discardable jobs wait per worker. When every waiting job is
        // bound for the same worker (a one-worker pool that is never resized, or a single key under
        // key-persistent / constant-hash routing) the number of jobs that were sent, not refused, not yet
        // started and not yet discarded at the moment of a probe is bounded by the limit in effect
        let one_queue = match run.cfg.routing {
            Routing::KeyPersistent => (0u8..3).any(|k| run.jobs.iter().all(|j| j.key == k)),
            Routing::CustomConst | Routing::CustomMax => true,
            _ => false,
        } || (run.cfg.workers == 1 && !run.history.iter().any(|e| matches!(e, Event::Resize(_))));
        if !run.cfg.factory_queueing() && one_queue && !run.history.contains(&Event::NoSettle) {
            for ((step, ..), t) in run.probes.iter().zip(run.probe_lc.iter()) {
                if !matches!(run.history[*step], Event::Dispatch(_)) || run.history[..=*step].contains(&Event::Drain) {
                    continue;
                }
                let l = limit_at(*step).unwrap_or(l0);
                let first = |id: u32, start: bool| run.events.iter().find(|(_, e)| if start { matches!(e, Ev::Start { id: i, .. } if *i == id) } else { matches!(e, Ev::Discard { id: i, .. } if *i == id) }).map(|(l, _)| *l);
                let waiting: Vec<u32> = run
                    .jobs
                    .iter()
                    .filter(|j| j.lc < *t && !j.send_failed && j.accepted != Some(false))
                    .filter(|j| first(j.id, true).is_none_or(|x| x > *t) && first(j.id, false).is_none_or(|x| x > *t))
                    .map(|j| j.id)
                    .collect();
                if waiting.len() > l {
                    bad.push(format!("after step {step} of {:?} jobs {waiting:?} wait for one worker, the discard limit in effect is {l}", run.history));
                }
            }
        }
    } else {
        for (id, x) in &f {
            if x.discards.iter().any(|d| d == "Loadshed") {
                bad.push(format!("job {id} was load-shed although no discard limit is configured"));
            }
        }
    }
    // rate limiter: between two moments at which time passed (Advance = 150 ms = refill to the cap) no more jobs
    // are handed to workers than the bucket can hold; before the first of them no more than its initial balance
    if run.cfg.rate_limited() && !run.cfg.factory_queueing() {
        // worker-queued routing behind the limiter: a job the limiter lets through goes to its worker's own queue
        // and may start much later, so starts say nothing about admission. A job the limiter holds back is
        // reported (RateLimited) and returned at once: within a stretch of history in which no time passes, the
        // dispatches that were not reported rate-limited passed the limiter
        let mut cap = crate::harness::RL_INITIAL;
        let mut through = 0usize;
        let mut k = 0usize; // the k-th Dispatch of the history created run.jobs[k]
        for (i, ev) in run.history.iter().enumerate() {
            match ev {
                Event::Advance => {
                    cap = crate::harness::RL_MAX;
                    through = 0;
                }
                Event::Dispatch(_) => {
                    if let Some(j) = run.jobs.get(k) {
                        let x = &f[&j.id];
                        let held_back = x.discards.iter().any(|d| d == "RateLimited" || d == "Shutdown") || j.send_failed || j.after_drain;
                        if !held_back {
                            through += 1;
                            if through > cap {
                                bad.push(format!("job {} is the {through}th job that passed the rate limiter in a stretch in which no time passed (step {i} of {:?}): the leaky bucket holds at most {cap} tokens", j.id, run.history));
                            }
                        }
                    }
                    k += 1;
                }
                _ => {}
            }
        }
    }
    if run.cfg.rate_limited() && run.cfg.factory_queueing() {
        let mut cap = crate::harness::RL_INITIAL;
        let mut started = 0usize;
        for (_, e) in &run.events {
            match e {
                Ev::Script(s) if s == "Advance" => {
                    cap = crate::harness::RL_MAX;
                    started = 0;
                }
                Ev::Start { id, .. } => {
                    started += 1;
                    if started > cap {
                        bad.push(format!("job {id} is the {started}th job handed to a worker since time last passed, the leaky bucket holds at most {cap} tokens (history {:?})", run.history));
                    }
                }
                _ => {}
            }
        }
    }
    if run.cfg.rate_limited() {
        for (id, x) in &f {
            let n = x.discards.iter().filter(|d| *d == "RateLimited").count();
            if n > 1 {
                bad.push(format!("job {id} was reported as rate-limited {n} times"));
            }
        }
    } else {
        for (id, x) in &f {
            if x.discards.iter().any(|d| d == "RateLimited") {
                bad.push(format!("job {id} was reported as rate-limited although no rate limiter is configured"));
            }
        }
    }
    // pool size converges to the last requested size (when nothing is in progress any more)
    if run.factory_status == ActorStatus::Running && !run.drained {
        let want = run.last_resize.unwrap_or(run.cfg.workers);
        let still_running = run.events.iter().filter(|(_, e)| matches!(e, Ev::Start { .. })).count()
            - run.events.iter().filter(|(_, e)| matches!(e, Ev::End { .. })).count();
        let lost_blocked = still_running > 0;
        if run.live_workers != want && !lost_blocked {
            // recorded defect: a worker that was marked for removal by a shrink (it was busy) dies and is
            // *replaced*; the idle replacement keeps the draining mark and is never removed
            let replaced_outside = run.events.iter().any(|(_, e)| matches!(e, Ev::Built { wid, inc } if *inc > 0 && *wid >= want));
            let sig = if replaced_outside && run.live_workers > want { "[[sig:replaced-draining-worker-never-removed]] " } else { "" };
            bad.push(format!("{sig}after history {:?} the factory has {} live workers, the last requested size is {want}", run.history, run.live_workers));
        }
    }
    // draining
    if run.drained {
        for j in run.jobs.iter().filter(|j| j.after_drain) {
            let x = &f[&j.id];
            if !x.starts.is_empty() {
                bad.push(format!("job {} was dispatched after DrainRequests and still ran", j.id));
            }
            if !j.send_failed && !(x.discards.iter().any(|d| d == "Shutdown") || j.accepted == Some(false) || j.port_closed) {
                bad.push(format!("job {} was dispatched after DrainRequests and was neither refused nor reported (discards {:?}, accepted {:?})", j.id, x.discards, j.accepted));
            }
        }
        if run.factory_status != ActorStatus::Stopped && run.deaths == 0 {
            bad.push(format!("DrainRequests was issued, every accepted job finished, but the factory is {:?} (history {:?})", run.factory_status, run.history));
        }
        // ... also when a worker's death (not a Finished message) was what completed the drain: nothing is
        // running or waiting any more, two periodic ticks have passed
        let waiting = run.jobs.iter().any(|j| !j.after_drain && !j.send_failed && f[&j.id].starts.is_empty() && f[&j.id].discards.is_empty() && j.accepted != Some(false));
        if run.factory_status != ActorStatus::Stopped && run.deaths > 0 && run.still_in_progress == 0 && !waiting && !run.history.iter().any(|e| matches!(e, Event::StopSlowly(_))) {
            bad.push(format!("{}DrainRequests was issued, nothing is running or waiting any more (the last job went down with its worker), two ticks have passed, but the factory is {:?} (history {:?})", if stale_finished(run) { "[[sig:stale-finished-after-replacement]] " } else { "" }, run.factory_status, run.history));
        }
        let hooks: Vec<&str> = run.events.iter().filter_map(|(_, e)| if let Ev::Hook(h) = e { Some(*h) } else { None }).collect();
        let want: &[&str] = if run.factory_status == ActorStatus::Stopped { &["started", "draining", "stopped"] } else { &["started", "draining"] };
        if hooks != want && run.deaths == 0 {
            bad.push(format!("lifecycle hooks ran as {hooks:?}, expected {want:?}"));
        }
        let sig = if stale_finished(run) { "[[sig:stale-finished-after-replacement]] " } else { "" };
        for id in vanished_in_factory(run, &f) {
            if run.jobs.iter().any(|j| j.id == id && !j.after_drain) {
                bad.push(format!("{sig}job {id} was accepted before the drain, no dying worker took it along, and it never finished: the factory stopped without it (history {:?})", run.history));
            }
        }
        if run.deaths == 0 {
            for j in run.jobs.iter().filter(|j| !j.after_drain && j.accepted == Some(true)) {
                let x = &f[&j.id];
                if !x.ends.iter().any(|e| e.1 == How::Ok) && x.discards.is_empty() {
                    bad.push(format!("job {} was accepted before the drain but never finished", j.id));
                }
            }
        }
    } else {
        let hooks: Vec<&str> = run.events.iter().filter_map(|(_, e)| if let Ev::Hook(h) = e { Some(*h) } else { None }).collect();
        if run.factory_status == ActorStatus::Running && hooks != ["started"] {
            bad.push(format!("lifecycle hooks ran as {hooks:?} on a factory that was never drained"));
        }
    }
    bad
}
