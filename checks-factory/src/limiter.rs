//! C15, leaky bucket: every operation sequence up to length 6 over {check+bump, check only,
//! advance(dt)} for a grid of limiter parameters chosen from the branch conditions in ratelim.rs
//! (zero interval, unrepresentable interval, zero refill, usize::MAX refill, max 0 / MAX, initial
//! balance above max), on the virtual clock, against a token-bucket reference.
use std::sync::Arc;
use std::time::Duration;

use ractor::factory::{LeakyBucketRateLimiter, RateLimiter};
use serde_json::json;
use vsched::report::{EnumResult, Unit};
use vsched::{ExecCfg, Outcome};

#[derive(Clone, Copy, Debug)]
enum Op {
    Admit,
    Check,
    Adv(u8),
}

fn dt(interval: Duration, k: u8) -> Duration {
    match k {
        0 => Duration::ZERO,
        1 => interval.saturating_sub(Duration::from_nanos(1)),
        2 => interval,
        _ => interval.saturating_mul(5) / 2,
    }
}

struct Model {
    refill: u128,
    interval: u128,
    max: u128,
    bal: u128,
    deadline: Option<u128>,
}

impl Model {
    fn refresh(&mut self, now: u128) {
        let Some(d) = self.deadline else { return };
        if now < d {
            return;
        }
        if self.interval == 0 {
            self.bal = (self.bal + self.refill).min(self.max);
            self.deadline = Some(now);
            return;
        }
        let periods = (now - d) / self.interval + 1;
        self.bal = (self.bal + periods.saturating_mul(self.refill)).min(self.max);
        let nd = d + periods * self.interval;
        self.deadline = if nd > u64::MAX as u128 { None } else { Some(nd) };
    }
}

fn sweep(refill: usize, interval: Duration, max: usize, initial: Option<usize>, len: usize) -> (u64, Vec<String>, Vec<String>) {
    let alphabet = [Op::Admit, Op::Check, Op::Adv(0), Op::Adv(1), Op::Adv(2), Op::Adv(3)];
    let mut bad = Vec::new();
    let mut outcomes = std::collections::BTreeSet::new();
    let mut n = 0u64;
    let total = alphabet.len().pow(len as u32);
    for code in 0..total {
        let mut c = code;
        let seq: Vec<Op> = (0..len)
            .map(|_| {
                let o = alphabet[c % alphabet.len()];
                c /= alphabet.len();
                o
            })
            .collect();
        n += 1;
        let t0 = vsched::now() as u128;
        let r = std::panic::catch_unwind(std::panic::AssertUnwindSafe(|| {
            let mut lim = LeakyBucketRateLimiter::builder().refill(refill).interval(interval).max(max).maybe_initial(initial).build();
            let m0 = initial.unwrap_or(max).min(max) as u128;
            let mut model = Model {
                refill: refill as u128,
                interval: interval.as_nanos(),
                max: (max as u128).min(isize::MAX as u128),
                bal: m0.min(isize::MAX as u128),
                deadline: {
                    let d = t0 + interval.as_nanos();
                    if d > u64::MAX as u128 { None } else { Some(d) }
                },
            };
            // the implementation caps tokens at MAX_LB_BALANCE but not `max`: mirror only `max`
            model.max = max as u128;
            model.bal = m0;
            let mut admitted: Vec<u128> = Vec::new();
            let mut errs = Vec::new();
            for op in &seq {
                match op {
                    Op::Adv(k) => vsched::burn(dt(interval, *k)),
                    Op::Check | Op::Admit => {
                        let now = vsched::now() as u128;
                        let ok = lim.check();
                        model.refresh(now);
                        let want = model.bal > 0;
                        if ok != want {
                            errs.push(format!("check() = {ok} but the reference bucket holds {} tokens", model.bal));
                        }
                        if lim.balance as u128 > max as u128 {
                            errs.push(format!("balance {} exceeds max {max}", lim.balance));
                        }
                        if matches!(op, Op::Admit) && ok {
                            lim.bump();
                            model.bal = model.bal.saturating_sub(1);
                            admitted.push(now);
                        }
                    }
                }
            }
            // over every window the admissions are bounded by the balance plus the refills in it
            let iv = interval.as_nanos();
            if iv > 0 {
                for a in 0..admitted.len() {
                    for b in a..admitted.len() {
                        let count = (b - a + 1) as u128;
                        let boundaries = (admitted[b] - t0) / iv - (admitted[a] - t0) / iv;
                        // the bucket can hold at most `max` at the window start
                        let allowed = (max as u128).saturating_add(boundaries.saturating_mul(refill as u128));
                        if count > allowed {
                            errs.push(format!("{count} admissions in a window that allows {allowed}"));
                        }
                    }
                }
                let total_allowed = (initial.unwrap_or(max).min(max) as u128)
                    .saturating_add(admitted.last().map(|t| (t - t0) / iv).unwrap_or(0).saturating_mul(refill as u128));
                if admitted.len() as u128 > total_allowed {
                    errs.push(format!("{} admissions in total, the bucket and its refills allow {total_allowed}", admitted.len()));
                }
            }
            (errs, admitted.len())
        }));
        match r {
            Ok((errs, adm)) => {
                outcomes.insert(format!("admitted={adm}"));
                for e in errs {
                    if bad.len() < 5 {
                        bad.push(format!("{e}; sequence {seq:?}"));
                    }
                }
            }
            Err(_) => {
                if bad.len() < 5 {
                    bad.push(format!("panic; sequence {seq:?}"));
                }
            }
        }
    }
    (n, bad, outcomes.into_iter().collect())
}

pub fn units(thorough: bool) -> Vec<Unit> {
    let len = if thorough { 7 } else { 5 };
    let mut v = Vec::new();
    let refills = [0usize, 1, 2, usize::MAX];
    let intervals = [Duration::ZERO, Duration::from_nanos(1), Duration::from_millis(1), Duration::MAX];
    let maxes = [0usize, 1, 3, ractor::factory::ratelim::MAX_LB_BALANCE];
    let initials = [None, Some(0usize), Some(1), Some(5)];
    for (ii, interval) in intervals.into_iter().enumerate() {
        let f: vsched::report::EnumFn = Arc::new(move |_ctx| {
            let mut res = EnumResult::default();
            let mut viol: Vec<(String, serde_json::Value)> = Vec::new();
            for refill in refills {
                for max in maxes {
                    for initial in initials {
                        // the enumeration runs inside one controlled execution (virtual clock)
                        let body: vsched::Body = Arc::new(move || {
                            Box::pin(async move {
                                let (n, bad, outs) = sweep(refill, interval, max, initial, len);
                                Outcome { key: format!("{n}|{}", outs.join(",")), violations: bad }
                            })
                        });
                        let cfg = ExecCfg { fresh_thread: false, keep_trace: false, max_virtual_ns: u64::MAX, ..Default::default() };
                        let r = vsched::run_one(&cfg, &body, &[]);
                        let params = json!({"refill": refill.to_string(), "interval_ns": interval.as_nanos().to_string(), "max": max.to_string(), "initial": initial});
                        match r.outcome {
                            Some(o) => {
                                let (n, outs) = o.key.split_once('|').unwrap_or(("0", ""));
                                let n: u64 = n.parse().unwrap_or(0);
                                res.evaluations += n;
                                res.transitions += n * len as u64;
                                res.states += n;
                                res.distinct_nontrivial += n;
                                *res.outcomes.entry(outs.to_string()).or_insert(0) += 1;
                                if res.samples.len() < 3 {
                                    res.samples.push(json!({"params": params, "sequences": n, "admission_counts_seen": outs}));
                                }
                                for b in o.violations {
                                    viol.push((format!("leaky bucket: {b}"), params.clone()));
                                }
                            }
                            None => viol.push((format!("leaky bucket sweep did not finish: {:?} {:?}", r.panic, r.liveness), params)),
                        }
                    }
                }
            }
            res.exhaustive = true;
            res.violations = viol.into_iter().take(10).collect();
            res.note = format!("all operation sequences of length {len} over 6 operations for 64 parameter tuples at interval {interval:?}");
            res
        });
        v.push(Unit::enumerate(format!("limiter/interval{ii}"), 1, f));
    }
    v
}
