#!/bin/bash
# Runs the thorough tier of the given properties (default: all) inside a `vp run --with-repo` snapshot:
# the harness crates are pointed at the snapshot of /repo, built there, and every result stays in the snapshot.
# usage (from the snapshot's root):  bash tools/thorough_snapshot.sh [C01 C02 ...]
set -u
root=$(pwd)
repo="${VP_RUN_REPO:-/repo}"
if [ "$repo" != "/repo" ]; then
  sed -i "s#\"/repo/#\"$repo/#g" engine/Cargo.toml checks-core/Cargo.toml checks-factory/Cargo.toml checks-cluster/Cargo.toml
fi
export VERIF_ROOT="$root" VERIF_WORKERS="${VERIF_WORKERS:-12}"
./check setup || { echo "setup failed"; exit 2; }
props="$*"; [ -n "$props" ] || props="C01 C02 C03 C04 C05 C06 C07 C08 C09 C10 C11 C12 C13 C14 C15 C16 C17 C18 C19 C20"
for p in $props; do
  s=$(date +%s)
  out=$(./check "$p" thorough 2>&1); code=$?
  e=$(date +%s)
  echo "$p exit=$code wall=$((e-s))s $(echo "$out" | grep "thorough:" | cut -c1-300)"
  echo "$out" | grep -E "^VIOLATION|^KNOWN-FINDING|MACHINERY|clauses" | cut -c1-400 | sort | uniq -c | head -8
done
python3 tools/results_table.py "$root/evidence"
