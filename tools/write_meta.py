#!/usr/bin/env python3
"""usage: tools/write_meta.py <seed-id> <PROP> <needs-to-manifest> <PROP=how caught>...   (reads seeded/<id>/confirm.json)"""
import json, sys, os
sid, prop, needs = sys.argv[1:4]
d = f"/verif/seeded/{sid}"
c = json.load(open(f"{d}/confirm.json"))
caught = dict(a.split("=", 1) for a in sys.argv[4:])
meta = {
    "id": sid, "breaks_property": prop, "needs_to_manifest": needs,
    "source": "independent sub-agent given only the property text and a scratch worktree",
    "confirmed": {"existing_suite_with_change": c["suite_with_change"], "demo_with_change": c["demo_with_change"], "demo_without_change": c["demo_without_change"]},
    "what_i_ran": f"tools/confirm_seed.sh {prop} {sid} in /tmp/wt-{prop} (suite with the change and the demo moved aside; demo with and without the change); tools/try_seed.sh seeded/{sid}/patch.diff " + " ".join(caught.keys()),
    "caught_by": caught,
}
json.dump(meta, open(f"{d}/meta.json", "w"), indent=1)
print(json.dumps(meta, indent=1))
