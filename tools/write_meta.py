#!/usr/bin/env python3
"""Assemble seeded/<id>/meta.json from confirm.json (tools/confirm_seed.sh), detection.json (tools/try_seed.sh)
and the notes below. usage: tools/write_meta.py            (all seeds)"""
import json, os, glob
NOTES = {
 "C01-callback-polled-before-signal": ("C01", "a kill signal and the wake-up of the running callback become ready between two polls of the actor task: run_with_signal now polls the callback first, so it runs on after the kill", ""),
 "C02-admission-check-then-add": ("C02", "a drain lands between a sender's load of the admission word and its fetch_add (the CAS loop became check-then-add)", ""),
 "C03-callback-polled-before-signal": ("C03", "same change as C01's seed, observed as priority inversion: a message handler resumes although a kill is pending", ""),
 "C04-mark-running-inside-task": ("C04", "the actor task is aborted after spawn_linked returned but before the task's first poll: mark_running() now runs inside the task, so the cancellation event is never armed and the supervisor hears nothing", ""),
 "C06-wait-returns-at-stopping": ("C06", "a waiter registers between the Stopping and Stopped transitions (post_stop still running) and is released at once", ""),
 "C07-optimistic-admission": ("C07", "the drainer reads the admission word inside a losing sender's fetch_add/fetch_sub window and concludes that messages are in flight / none are", ""),
 "C08-unlink-only-with-event": ("C08", "a start that fails after the actor was linked to its supervisor: the unlink now only happens on the path that also emits an event", ""),
 "C09-multicall-skips-dead-member": ("C09", "a multi_call whose dead member is not the last of the list: the result vector loses the entry and later results shift", ""),
 "C10-cleanup-reruns-on-stopped": ("C10", "a respawn under the same name between the old holder's Stopping and Stopped transitions: the second cleanup unregisters the successor", ""),
 "C11-deferred-index-pruning": ("C11", "the sole member of a group exits while a different actor joins that group: the scope index entry is pruned after the join re-created it", "missed by the first version of the check (no scenario had a different actor joining the group of an exiting sole member); scenarios sole-member-exits-vs-other-joins and sole-member-leaves-vs-other-joins-vs-query were added"),
 "C12-send-after-liveness-guard": ("C12", "the target actor is gone when the timer fires: the liveness guard now sits after the send, so the handle reports success", ""),
 "C13-drain-check-ignores-current-job": ("C13", "worker-queued routing, a shrink that hits a worker holding an active job plus a queued one, then ordinary completions: the last job of its backlog is cast to a worker that is stopped in the same step", ""),
 "C14-replacement-wipes-pending-keys": ("C14", "key-persistent routing; a worker dies with a job queued behind its active one, the pool is resized so that the key hashes elsewhere, the key is dispatched again: five events", "the quick tier of the first version enumerated histories of depth 4 only (thorough: 6): depth-5 histories over a reduced alphabet (one kind of death, no kill) were added to the quick tier"),
 "C15-late-termination-hits-regrown-slot": ("C15", "a shrink followed by a grow that the factory handles before the retired worker's termination event arrives (both requests in the mailbox together)", "missed by the first version: the harness let the system settle after every request; burst histories (a request issued right behind the previous one) were added"),
 "C16-forwarder-exits-on-unstarted-subscriber": ("C16", "a subscriber created by spawn_instant and subscribed before its start-up task was polled, with the forwarding task polled first", "missed by the first version (all subscribers were created by Actor::spawn); an instant subscriber was added"),
 "C17-digest-prefix-compare": ("C17", "a challenge digest shorter than 32 bytes (zip-based comparison stops at the shorter side): an empty digest authenticates", ""),
 "C18-election-counts-unauthenticated": ("C18", "a stalled connection that only claimed the peer's name and ranks higher in the election is present when the honest link authenticates", "missed by the first version (the spoofing connection only ever arrived after the honest link); squatter-first scenarios were added"),
 "C19-read-len-hoisted": ("C19", "a frame payload that is not obtained in one read while the next frame's bytes are already waiting", ""),
 "C20-tag-counter-reset-when-idle": ("C20", "a call times out at the caller while the peer's deadline is still running (transit takes time), nothing else is outstanding, and a new call is made before the late answer arrives", "missed by the first version (zero transit time: the two deadlines coincide); links with transit time on the virtual clock and the timed-out-then-call-again scenario were added"),
 "C05-no-terminate-before-running": ("C05", "an actor that linked children in pre_start and then exits before it ever ran (pre_start Err / panic, cancelled spawn future, refused link)", "missed by the first version of C05 (caught by C08's 'the actor still has children'); start-up failure scenarios with a two-level linked subtree were added to C05"),
 # ---- second round (a different place and mechanism was asked for) ----
 "C04b-draining-supervisor-refuses-events": ("C04", "the supervisor is draining a backlog (alive, status Draining) when the child exits: send_supervisor_evt now refuses events for status >= Draining", "missed at first (supervisors were idle or busy, never draining); draining-supervisor scenarios were added to C04"),
 "C06b-cleanup-on-every-advance": ("C06", "a successor takes the name while the old holder is inside post_stop; the second clean-up (on the Stopped transition) removes the successor's registration", "caught by C10 from the start; C06 (whose statement has 'exit cleanup runs once') had no successor in play and missed it: cleanup-once units were added to C06"),
 "C09b-zero-timeout-means-none": ("C09", "call with a timeout of exactly zero and a callee that keeps the port: the caller hangs", "missed at first (timeouts were 3..20 ms); zero-timeout scenarios for call, multi_call and call_and_forward were added"),
 "C12b-zero-period-fast-path": ("C12", "a zero or sub-millisecond one-shot period: the message is sent synchronously inside send_after, so it is early and cannot be aborted", "missed at first (periods were whole milliseconds and aborts happened after an await); microsecond periods and an abort issued before the timer task could run were added"),
 "C13b-grown-worker-not-indexed": ("C13", "the pool is grown after start-up and a worker of a new slot dies with jobs queued for it", ""),
 "C16b-v2-swap-remove-skips-subscriber": ("C16", "output-port-v2, a stopped subscriber that is not last in the list, and a publication after the stop", ""),
 "C19b-external-session-ignores-frame-limit": ("C19", "a node configured with a small inbound frame limit, a session over a user-supplied transport, and a declared length between the limit and 16 MiB", "missed at first (the configured limit was only exercised on the frame reader in isolation); live NodeServer sessions with a 64-byte limit were added"),
 "C01b-kill-ignored-when-draining-or-stopping": ("C01", "kill() on an actor that is already Draining or Stopping (a drain or stop raced with it) is silently dropped, so handlers and post_stop begin after kill() returned", "caught by the stopper/drainer/killer-racing scenarios, which I had added to C01 on my own an hour before this change arrived; C03 (whose statement has the same clause) missed it until it got the same scenarios"),
 "C03b-supervision-burst-before-stop": ("C03", "stop() returns while a supervision handler runs and a second supervision event is already pending: the loop now drains the supervision port before it looks at the stop port", "missed at first (only one supervision event was ever in flight); the pg stimulus now produces two events back to back"),
 "C05b-link-status-check-outside-lock": ("C05", "link() passes its status check, the child then exits completely, and link() then records the link under a supervisor that stays alive", "missed at first: in every core unit the supervisor exited too and its exit wiped the stale entries; two cores with a supervisor that stays alive were added"),
 "C07b-admission-release-fast-path": ("C07", "a complete drain() falls between the last in-flight sender's status load and its decrement in MessageAdmission::drop: nobody queues the marker and the actor stays Draining", ""),
 "C08b-join-recheck-removed": ("C08", "another task is inside pg::join for the starting actor, between the status pre-filter and the insertion, while the start fails and its clean-up runs", "caught by C11 from the start; missed by C08 (side effects were performed by pre_start itself at task granularity); an outsider task that joins / monitors / links the starting actor, explored with a decision point before every map, lock and atomic step, was added"),
 "C10b-register-takes-over-stopping-owner": ("C10", "a same-name spawn lands between the owner's status store (Stopping) and its unregister: the newcomer overwrites the entry, the owner's clean-up deletes it", ""),
 "C02c-call-skips-type-check": ("C02", "a call through an ActorRef of the wrong message type (ActorRef::from(cell) is unchecked): ActorRef::call now bypasses the runtime type check, the wrongly typed message is queued and kills the actor when it is reached", "missed at first (the wrong-type clause was only exercised through ActorCell::send_message); every public send path (send_message, cast, rpc::cast, call, rpc::call, send_after) through the cell and through a wrongly typed ActorRef was added"),
 "C11b-join-reverse-index-before-group-lock": ("C11", "an exit (or leave) of the joining actor completes between join's reverse-index update and its acquisition of the group entry", ""),
 "C14b-sticky-hint-prefers-free-worker": ("C14", "sticky routing, every worker busy, two jobs of a third key waiting in the factory queue; one worker takes the first, the other completes while it is still running", "out of reach at first (two keys only; a job whose key is in progress never enters the factory queue, so two same-key jobs in the queue need a third key); three-key dispatch/complete histories of depth 6 were added"),
 "C15b-drained-ignores-retiring-workers": ("C15", "a shrink hits a busy worker, DrainRequests arrives before it is idle, the other workers are idle: the factory stops and drops the jobs queued behind the retiring worker's job", ""),
 "C17b-empty-auth-message-skipped": ("C17", "an authentication message with an unset oneof (payload 0A 00) before the handshake: skipped at session level instead of closing the session, which can then still authenticate", "missed at first (the empty message was only fed to the state machine directly); it was added to the alphabet of the live-session sweeps"),
 "C18b-check-session-first-same-nonce": ("C18", "two sessions registered under the same (peer name, connection id): a legacy peer (id 0) or a repeated id, with the first dial finishing its handshake last, or stalled same-id claims", "missed at first (real nodes draw distinct random ids); a peer played by the harness (it knows the cookie and chooses the ids) was added, run under several hash seeds"),
 "C20b-pid-monitor-after-scan": ("C20", "an actor is registered between a session's scan of the local actors and its subscription to later spawns (no await in between: needs a decision point inside the registry operations)", "missed at first twice over: every actor existed before the connection or appeared after ready, and at task granularity the window does not exist; a unit that spawns an actor at a schedule-chosen moment during session set-up with decision points at the registry's map operations was added. It also exposed a harness artefact: both nodes live in one process and number their sessions alike, so the two remote references of one actor share a remote id and pg keeps only one; the proxies are now taken from the sessions' child sets"),
}
for d in sorted(glob.glob("/verif/seeded/*")):
    sid = os.path.basename(d)
    if sid not in NOTES or not os.path.exists(f"{d}/confirm.json"):
        print("skip", sid); continue
    prop, needs, hist = NOTES[sid]
    c = json.load(open(f"{d}/confirm.json"))
    rever = c.get("demo_reverified")
    det = json.load(open(f"{d}/detection.json")) if os.path.exists(f"{d}/detection.json") else {}
    caught = {p: f"{v['tier']}: exit {v['exit']}, {v['violation_lines']} VIOLATION line(s), e.g. {v['sample'].strip()[:300]}" for p, v in det.items() if v["exit"] == 1}
    silent = [p for p, v in det.items() if v["exit"] == 0]
    meta = {
        "id": sid, "breaks_property": prop, "needs_to_manifest": needs,
        "source": "independent sub-agent given only the property text and a scratch worktree of /repo",
        "confirmed": {"existing_suite_with_change": c["suite_with_change"].strip(), "demo_with_change": c["demo_with_change"].strip(), "demo_without_change": c["demo_without_change"].strip()},
        "what_i_ran": f"tools/confirm_seed.sh {prop} {sid} in the agent's worktree (whole workspace suite with the change and the demo moved aside; the demo with and without the change); tools/try_seed.sh {sid} " + " ".join(det.keys()) + " (git -C /repo apply, quick checks, git -C /repo checkout -- .)",
        "caught_by": caught,
        "also_run_without_alarm": silent,
    }
    if hist:
        meta["history"] = hist
    if rever:
        meta["confirmed"]["demo_reverified"] = rever
    json.dump(meta, open(f"{d}/meta.json", "w"), indent=1)
    print(sid, "caught by", list(caught), "silent", silent)
