#!/usr/bin/env python3
"""Mutation sweep: a sanity test OF THE MACHINERY (not a deciding step of any property).

Works in a private copy (default /tmp/mut: repo/ + verif/ with the path dependencies rewritten), so /repo and
/verif are never touched. For every mutant of the chosen source files (condition negated, relational operator
shifted, && <-> ||, a call statement deleted): build the harness against the mutated tree, run the quick checks
mapped to the file until one reports a VIOLATION (killed) or all pass (survivor); survivors are then run through
the repository's own test suite of the crate, which tells "also invisible to the existing tests" apart.
Results: <work>/results.jsonl, one line per mutant.

usage: tools/mutation_sweep.py <group> [--every K] [--offset O] [--max N] [--work DIR] [--ops neg,rel,bool,del]
groups: pg registry supervision cell props actor time rpc port factory cluster
"""
import json, os, re, subprocess, sys, time, shutil, hashlib

GROUPS = {
    "pg": (["ractor/src/pg.rs"], ["C11", "C08", "C06"]),
    "registry": (["ractor/src/registry.rs", "ractor/src/registry/pid_registry.rs"], ["C10", "C06", "C08"]),
    "supervision": (["ractor/src/actor/supervision.rs"], ["C05", "C04", "C08"]),
    "cell": (["ractor/src/actor/actor_cell.rs"], ["C01", "C03", "C06", "C04", "C05", "C07", "C02", "C08", "C10", "C09"]),
    "props": (["ractor/src/actor/actor_properties.rs"], ["C07", "C02", "C06", "C03", "C01", "C04", "C09", "C08"]),
    "actor": (["ractor/src/actor.rs"], ["C01", "C03", "C04", "C08", "C05", "C06", "C07", "C02", "C10"]),
    "time": (["ractor/src/time.rs"], ["C12"]),
    "rpc": (["ractor/src/rpc.rs"], ["C09"]),
    "port": (["ractor/src/port/output.rs"], ["C16"]),
    "factory": (["ractor/src/factory/factoryimpl.rs", "ractor/src/factory/worker.rs", "ractor/src/factory/routing.rs", "ractor/src/factory/queues.rs", "ractor/src/factory/discard.rs", "ractor/src/factory/ratelim.rs"], ["C13", "C14", "C15"]),
    "cluster": (["ractor_cluster/src/node.rs", "ractor_cluster/src/node/node_session.rs", "ractor_cluster/src/node/auth.rs", "ractor_cluster/src/net/session.rs", "ractor_cluster/src/remote_actor.rs"], ["C17", "C18", "C20", "C19"]),
}
NEEDS_VARIANTS = {"port", "registry"}


def sh(cmd, cwd=None, env=None, timeout=None):
    e = dict(os.environ)
    if env:
        e.update(env)
    try:
        p = subprocess.run(cmd, shell=True, cwd=cwd, env=e, capture_output=True, text=True, timeout=timeout)
        return p.returncode, p.stdout + p.stderr
    except subprocess.TimeoutExpired as x:
        return 124, (x.stdout or b"").decode(errors="replace") if isinstance(x.stdout, bytes) else (x.stdout or "")


def candidate_lines(path):
    src = open(path).read().split("\n")
    out = []
    in_tests = False
    skip_next_item = False
    depth_at_hook = None
    for i, line in enumerate(src):
        s = line.strip()
        if re.match(r"#\[cfg\(test\)\]", s):
            nxt = src[i + 1].strip() if i + 1 < len(src) else ""
            if nxt.endswith(";"):
                skip_next_item = True
                continue
            in_tests = True  # inline test modules sit at the end of these files
        if in_tests:
            continue
        if "verif_hooks" in s:
            skip_next_item = True
            continue
        if skip_next_item:
            skip_next_item = False
            continue
        if s.startswith("//") or "tracing::" in s or "log::" in s or s.startswith("#["):
            continue
        m = re.match(r"^(\s*(?:\} else )?if )(?!let\b)(.+) \{$", line)
        if m:
            out.append((i, "neg", m.group(1) + "!(" + m.group(2) + ") {"))
        for a, b in [(">=", ">"), ("<=", "<"), (" > ", " >= "), (" < ", " <= "), ("==", "!="), ("!=", "==")]:
            if a in line and "=>" not in line and "->" not in line and not s.startswith("impl") and "fn " not in s and "<" + "T" not in line:
                if a in (" > ", " < ") and ("<" in line.replace(" < ", "") or ">" in line.replace(" > ", "")):
                    continue
                out.append((i, "rel", line.replace(a, b, 1)))
                break
        if " && " in line:
            out.append((i, "bool", line.replace(" && ", " || ", 1)))
        elif " || " in line and "|| {" not in line and not re.search(r"\|\|\s*$", line):
            out.append((i, "bool", line.replace(" || ", " && ", 1)))
        if re.match(r"^\s+(self|state|monitor|[a-z_]+)(\.[a-z_]+)*(\.|::)[a-z_]+\(.*\);$", line) and not s.startswith("let ") and "return" not in s and "=" not in s.split("(")[0]:
            out.append((i, "del", re.match(r"^\s*", line).group(0) + "// (statement removed)"))
    return src, out


def main():
    args = sys.argv[1:]
    group = args[0]
    if "--list" in args:
        for f in GROUPS[group][0]:
            _, c = candidate_lines("/repo/" + f)
            print(f, len(c), {o: sum(1 for x in c if x[1] == o) for o in ("neg", "rel", "bool", "del")})
        return
    opt = {"--every": "1", "--offset": "0", "--max": "100000", "--work": "/tmp/mut", "--ops": "neg,rel,bool,del"}
    for k in list(opt):
        if k in args:
            opt[k] = args[args.index(k) + 1]
    work = opt["--work"]
    files, props = GROUPS[group]
    repo, verif = f"{work}/repo", f"{work}/verif"
    if not os.path.exists(repo):
        os.makedirs(work, exist_ok=True)
        sh(f"git clone -q /repo {repo}")
        sh(f"rsync -a --exclude target --exclude replays --exclude seeded --exclude evidence /verif/ {verif}/")
        sh(f"mkdir -p {verif}/evidence {verif}/replays")
        sh(f"sed -i 's#\"/repo/#\"{repo}/#g' engine/Cargo.toml checks-core/Cargo.toml checks-factory/Cargo.toml checks-cluster/Cargo.toml", cwd=verif)
        rc, out = sh("./check setup", cwd=verif)
        if rc != 0:
            print("setup failed", out[-2000:])
            sys.exit(2)
    crate = "checks-core" if props[0] in ("C01", "C02", "C03", "C04", "C05", "C06", "C07", "C08", "C09", "C10", "C11", "C12", "C16") else ("checks-factory" if props[0] in ("C13", "C14", "C15") else "checks-cluster")
    suffix_builds = group in NEEDS_VARIANTS
    res_path = f"{work}/results.jsonl"
    done = set()
    if os.path.exists(res_path):
        for l in open(res_path):
            done.add(json.loads(l)["id"])
    env = {"VERIF_ROOT": verif, "VERIF_WORKERS": os.environ.get("MUT_WORKERS", "6"), "VERIF_WALL_CAP": "150", "CARGO_NET_OFFLINE": "true"}
    n = 0
    for f in files:
        src, cands = candidate_lines(f"{repo}/{f}")
        ops = opt["--ops"].split(",")
        cands = [c for c in cands if c[1] in ops]
        for idx, (ln, op, new) in enumerate(cands):
            if idx % int(opt["--every"]) != int(opt["--offset"]) % int(opt["--every"]):
                continue
            mid = f"{f}:{ln + 1}:{op}:" + hashlib.sha1(new.encode()).hexdigest()[:6]
            if mid in done:
                continue
            if n >= int(opt["--max"]):
                return
            n += 1
            mutated = list(src)
            mutated[ln] = new
            open(f"{repo}/{f}", "w").write("\n".join(mutated))
            rec = {"id": mid, "file": f, "line": ln + 1, "op": op, "old": src[ln].strip(), "new": new.strip(), "t": time.time()}
            t0 = time.time()
            if crate == "checks-core" and not suffix_builds:
                rc, out = sh(f"cargo build --release --offline -p {crate}", cwd=verif, env=env, timeout=900)
            else:
                rc, out = sh(f"./check setup", cwd=verif, env=env, timeout=1800) if crate == "checks-core" else sh(f"cargo build --release --offline -p {crate}", cwd=verif, env=env, timeout=900)
            if rc != 0:
                rec["result"] = "stillborn"
            else:
                rec["result"] = "survived"
                rec["checks"] = {}
                for p in props:
                    exe = f"target/main/release/{crate}"
                    rc, out = sh(f"{exe} {p} quick", cwd=verif, env=env, timeout=600)
                    rec["checks"][p] = rc
                    if rc == 1:
                        rec["result"] = "killed"
                        rec["killed_by"] = p
                        m = re.search(r"clauses: (.*)", out)
                        rec["sample"] = (m.group(1)[:300] if m else "")
                        break
                    if rc not in (0, 1):
                        rec["result"] = "machinery"
                        rec["killed_by"] = p
                        rec["sample"] = out[-300:]
                        break
                if rec["result"] == "survived":
                    pk = "-p ractor_cluster -p ractor_cluster_integration_tests" if f.startswith("ractor_cluster") else "-p ractor"
                    rc, out = sh(f"cargo nextest run {pk} --offline --no-fail-fast --test-threads 6", cwd=repo, env={"CARGO_TARGET_DIR": f"{work}/repo-target"}, timeout=1200)
                    m = re.search(r"(\d+) tests run: (\d+) passed(?: \((\d+) flaky\))?(?:, (\d+) failed)?", out)
                    rec["suite"] = m.group(0) if m else out[-200:]
                    rec["suite_rc"] = rc
                    if rc != 0:
                        rec["result"] = "survived-but-suite-fails"
            rec["wall"] = round(time.time() - t0, 1)
            open(f"{repo}/{f}", "w").write("\n".join(src))
            with open(res_path, "a") as o:
                o.write(json.dumps(rec) + "\n")
            print(rec["result"], mid, rec.get("killed_by", ""), rec["wall"], flush=True)
        sh(f"git checkout -- {f}", cwd=repo)


if __name__ == "__main__":
    main()
