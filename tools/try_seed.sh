#!/bin/bash
# usage: tools/try_seed.sh <seed-id | patch.diff> <PROP>...
# Applies a seeded change to /repo, runs the quick checks (evidence and replays go to target/seedrun, never
# to the committed evidence), reverts, and (for a seed id) records the outcome in seeded/<id>/detection.json.
arg="$1"; shift
if [ -d "/verif/seeded/$arg" ]; then id="$arg"; patch="/verif/seeded/$arg/patch.diff"; else id=""; patch="$arg"; fi
tier="${SEED_TIER:-quick}"
mkdir -p /verif/target/seedrun; cp /verif/known_findings.json /verif/target/seedrun/; rm -rf /verif/target/seedrun/replays
cd /repo || exit 2
if ! git diff --quiet; then echo "/repo has uncommitted changes"; exit 2; fi
git apply "$patch" || { echo "patch does not apply"; exit 2; }
res="{}"
for p in "$@"; do
  out=$(cd /verif && VERIF_ROOT=/verif/target/seedrun ./check "$p" "$tier" 2>&1)
  code=$?
  echo "== $p exit=$code"
  echo "$out" | grep -E "VIOLATION|clauses|MACHINERY|$tier:" | sort | uniq -c | sort -rn | head -6 | cut -c1-400
  nviol=$(echo "$out" | grep -c "^VIOLATION")
  sample=$(echo "$out" | grep -m1 -E "^  clauses|clauses:" | cut -c1-600)
  res=$(python3 -c "import json,sys; r=json.loads(sys.argv[1]); r[sys.argv[2]]={'tier':sys.argv[6],'exit':int(sys.argv[3]),'violation_lines':int(sys.argv[4]),'sample':sys.argv[5]}; print(json.dumps(r))" "$res" "$p" "$code" "$nviol" "$sample" "$tier")
done
git checkout -- .
if [ -n "$id" ]; then
  python3 - "$id" "$res" <<'PY'
import json,sys,os
id,res=sys.argv[1],json.loads(sys.argv[2])
f=f"/verif/seeded/{id}/detection.json"
old=json.load(open(f)) if os.path.exists(f) else {}
old.update(res)
json.dump(old,open(f,"w"),indent=1)
PY
fi
