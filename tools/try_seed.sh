#!/bin/bash
# usage: tools/try_seed.sh <patch.diff> <PROP>...   — applies a seeded change to /repo, runs the quick checks, reverts
patch="$1"; shift
mkdir -p /verif/target/seedrun; cp /verif/known_findings.json /verif/target/seedrun/; rm -rf /verif/target/seedrun/replays
cd /repo || exit 2
if ! git diff --quiet; then echo "/repo has uncommitted changes"; exit 2; fi
git apply "$patch" || { echo "patch does not apply"; exit 2; }
for p in "$@"; do
  out=$(cd /verif && VERIF_ROOT=/verif/target/seedrun ./check "$p" quick 2>&1)
  code=$?
  echo "== $p exit=$code"
  echo "$out" | grep -E "VIOLATION|clauses|MACHINERY|quick:" | sort | uniq -c | sort -rn | head -6 | cut -c1-400
done
git checkout -- .
