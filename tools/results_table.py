#!/usr/bin/env python3
"""prints the per-property results table of DESIGN.md 10.1 from evidence files: tools/results_table.py [evidence-dir]"""
import json, sys, glob, os
d = sys.argv[1] if len(sys.argv) > 1 else "/verif/evidence"
print("| id | tier | units (shards) | executions / evaluations | decision nodes | transitions | distinct outcomes | bounds completed (units) | wall |")
print("|----|------|------|-----------|-------|-------|-------|------|------|")
for f in sorted(glob.glob(f"{d}/C*.json")):
    e = json.load(open(f)); c = e["coverage"]
    names = {}
    for u in c["units"]:
        names.setdefault(u["unit"], u.get("bound_completed"))
    hist = {}
    for b in names.values():
        hist[str(b)] = hist.get(str(b), 0) + 1
    bounds = ", ".join(f"{k}: {v}" for k, v in sorted(hist.items()))
    print(f"| {e['property_id']} | {e['tier']} | {len(names)} ({c['units_completed']}) | {c['evaluations']:,} | {c['states']:,} | {c['transitions']:,} | {c['distinct_outcomes']:,} | {bounds} | {e['wall_s']:.0f} s |")
