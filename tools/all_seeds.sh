#!/bin/bash
# Re-runs every seeded change against the quick check of its property (and records the outcome in
# seeded/<id>/detection.json): tools/all_seeds.sh [id-prefix]
cd /verif || exit 2
fail=0
for d in seeded/${1:-}*/; do
  id=$(basename "$d")
  [ -f "$d/meta.json" ] || continue
  prop=$(python3 -c "import json,sys; print(json.load(open(sys.argv[1]))['breaks_property'])" "$d/meta.json")
  # C02d is reported under C07 (see its meta)
  [ "$id" = "C02d-drain-exits-on-empty-queue" ] && prop=C07
  [ "$id" = "C02e-serialized-send-drops-admission-early" ] && prop=C07
  out=$(tools/try_seed.sh "$id" "$prop" 2>&1 | grep -E "^== |patch does not apply")
  echo "$id: $out"
  echo "$out" | grep -q "exit=1" || fail=1
done
exit $fail
