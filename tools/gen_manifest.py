#!/usr/bin/env python3
"""Regenerates /verif/MANIFEST.json from the table below (kept in one place so it is always valid)."""
import json, os, subprocess
ROOT = os.path.dirname(os.path.dirname(os.path.abspath(__file__)))

BASELINE = "cd /repo/$(cat /w/out/cargo_root.txt) && cargo nextest run --workspace --no-fail-fast --tool-config-file pb:/w/lib/nextest.toml --profile pb --test-threads 8 --offline"

# id -> (engine, technique, level text, level note, design ref)
CHECKS = {
 "C07": ("vsched",
   "stateless model checking of the real code: exhaustive DFS over schedules (sleep-set POR) + deviation-bounded DFS",
   "Every interleaving, at atomic/channel-operation granularity, of 2 senders x 1 drainer and 1 sender(2 msgs) x 2 drainers on the real send_message/drain code is enumerated (complete tree, one execution per Mazurkiewicz trace); larger configurations, spurious CAS failure and the live actor loop are enumerated up to a deviation bound. The oracle reads the real mailbox / the real actor's handler log.",
   "sequentially consistent memory; tokio channel, Notify and std lock operations are atomic steps; 2-3 senders, 1-2 drainers",
   "DESIGN.md section 5 C07"),
}

# scenario classes added after the first version of each check (rounds 7-10 of the seeded changes, own additions)
ADDED = {
 "C01": "serialized delivery with a failing handler (cluster build); thread-local actors through the Actor-trait adapter.",
 "C02": "derived wrong-type sends; a decision point right after a recv of the actor core produced a value; thread-local receivers with supervision events.",
 "C03": "long runs of supervision events (0..257 handled one by one, then a held handler, a burst and one message); stop with reason 'killed'; two killers / two stoppers; a child's exit at step granularity.",
 "C04": "callbacks that panic in their synchronous prelude (explicit fn -> impl Future form), all five callbacks, both kinds, with the panic of pre_start caught in the spawner's own task.",
 "C05": "cluster build: local actors and remote stand-ins with overlapping process numbers in one subtree; a link into a descendant of an exiting actor (closed child set, status still Running), complete schedule tree; task drop with a panicking state destructor.",
 "C06": "monitors build: a monitor that is gone, going, or alive next to a dead one; waits on an actor whose start-up task has not run yet; a pg racer during the exit; twin closers; a state destructor that panics.",
 "C09": "the caller of multi_call preemptible before each channel operation; a callee that is a supervisor stuck in its supervision handler when it is killed; call! / call_t! macro callers; repeated members.",
 "C10": "cluster build: stand-ins with a local holder's name (and process number).",
 "C11": "a monitor installed while a join is under way (a later query that does not list the member proves the join took effect afterwards); two groups of one scope; draining actors; remote-id cells.",
 "C12": "one-shot timers against a target inside a slow post_stop or draining a slow backlog; timers armed while the target is starting; derived references.",
 "C13": "two-worker pools with a worker lingering in post_stop; a factory started with zero workers; a replaced discard handler; TTL sweeps during which time passes.",
 "C14": "scripted six-event histories: a worker with two keys queued reports completion and dies, the pool grows, the key is dispatched again.",
 "C15": "a discard limit introduced at run time; Dynamic limits lowered by their controller; zero-size pool requests; regrow over a busy retiring worker.",
 "C16": "v2: a subscriber stopping between two sends of one batch, two or three subscribers found stopped in one pass; v1: repeated lag, a subscribe racing a publication (RwLock facade).",
 "C17": "a peer without the cookie that predicts the node's next challenge from earlier handshakes and reflects the node's own digest (14 observation histories x 8 predictors, real state machines); actors spawned after the session is ready.",
 "C18": "three real nodes; a third node played by the harness that advertises the address of an established peer (or none); scripted peers with boundary connection ids and an oracle that names the connection the rule picks.",
 "C19": "the plain-TCP arm of the frame reader through a stand-in read half with tokio's readiness semantics; encode/decode round trip of derived call variants with several same-typed fields behind the port; job metadata round trips.",
 "C20": "a task inside pg::join / pg::leave preemptible at its own steps while the actor exits or is joined again (engine option park_preempted: one deviation = everything else happens inside the window); join / leave lists mixing remotable and local-only actors; a link that loses its send direction only; frames arriving in pieces with stalls.",
}

CHECKS.update({
 "C01": ("vsched", "stateless model checking of the real actor loop: deviation-bounded DFS over task-level schedules x scenario grid, trace-automaton oracle",
   "For each scenario (Send / thread-local actor x spawn variant x callback program incl. Err/panic/self-kill x exit cause incl. a stopper, a drainer and a killer racing x racing senders, child exit, two pg events) every task-level schedule with at most 2 (quick) / 3 (thorough, core set) deviations from the FIFO default is executed on the real code; a per-actor automaton over the Enter/Tick/Exit/Cancelled trace decides overlap, order, once-ness and the post_stop rules.",
   "task granularity (switches only where a task blocks, finishes or spawns) plus fine/ units with a decision point at every atomic / lock / map / channel step of the actor task and the racing closers; builds: default (callbacks in the explicit fn -> impl Future form, invocation logged synchronously) and async-trait + cluster + monitors", "DESIGN.md section 5 C01"),
 "C02": ("vsched", "stateless model checking of the real send path: exhaustive DFS with sleep sets (2 senders) + deviation-bounded DFS, ledger and real-time-order oracle",
   "Senders, a closer (none/stop/kill/drain/exit path) and the real mailbox or real consumer actor; a decision point before every atomic, lock and channel operation of senders and closer. 2x1 cores are explored completely, larger ones up to a deviation bound.",
   "sequential consistency; tokio channel operations atomic; 2-3 senders x 1-2 messages", "DESIGN.md section 5 C02"),
 "C03": ("vsched", "stateless model checking of the real actor loop: deviation-bounded DFS over the arrival point of kill/stop/supervision events, logical-time oracle",
   "The arrival of kill(), stop() and a supervision event (enqueued synchronously through a pg monitor) relative to every callback of the actor is explored by schedule enumeration; the oracle compares the logical time of callback Enter/Tick/Exit events with the return time of the request.",
   "task granularity, plus fine/ units (decision point at every atomic / lock / map / channel step of the actor task and the closers) for the windows inside one poll", "DESIGN.md section 5 C03"),
 "C04": ("vsched", "stateless model checking + crash-point enumeration (task dropped before its k-th poll, all k) on the real code, supervisor-log oracle",
   "Failure site x Err/panic x exit cause (incl. racing stop/drain/kill) x actor kind x idle / busy / draining supervisor, a monitoring bystander in the monitors build, plus every abort point of the actor task, each under a deviation-bounded schedule DFS; the supervisor's log must hold [Started?] + exactly one correctly classified terminal event; bystander and stranger undisturbed; join handle completes.",
   "task granularity; thread-local actors never carry state (documented)", "DESIGN.md section 5 C04"),
 "C06": ("vsched", "stateless model checking at sync-operation granularity of the real exit path vs. waiters; hang detection by the scheduler",
   "Actor A (named, pg member and monitor, one child, supervised) exits by stop/kill/drain/Err/panic/abort while four waiters (parked before, two concurrent, one after) use wait/*_and_wait/join handle; decision points before every atomic, lock, map, notify and channel operation of the waiters and of A's task; snapshots of status/registry/pg/tree at the instant each wait returns; lost wake-ups surface as a scheduler-proved hang.",
   "sequential consistency; tokio Notify/channel operations atomic; DashMap whole-map operations atomic w.r.t. guarded accesses", "DESIGN.md section 5 C06"),
})

CHECKS.update({
 "C05": ("vsched", "stateless model checking: exhaustive/bounded DFS at lock-operation granularity of link/unlink/relink vs. the real exit path, plus task-level DFS over real supervision trees with structural invariants evaluated at every scheduling step",
   "Core: link, relink, unlink, a second link and a child exit race the real exit path on real cells, with an exiting and with a surviving supervisor (complete tree for two tasks, deviation-bounded for three). Live: chain/fan/bushy trees with Send and thread-local children, one node exits by stop/kill/Err/panic/task cancellation while another task spawns under it, links into it, relinks or unlinks a child; invariants (one supervisor, mirrored child set, stopped actors have neither) at every step, subtree death and no-running-orphan at quiescence. Start-up exits (pre_start Err/panic, dropped spawn future, supervisor gone) of an actor that linked a two-level subtree in pre_start, and instant-spawned children that are still Unstarted when their supervisor exits.",
   "sequential consistency; trees up to 5 nodes / depth 3; invariants are evaluated at step boundaries only", "DESIGN.md section 5 C05"),
 "C10": ("vsched", "stateless model checking of the real registry: exhaustive DFS with sleep sets on real cells + deviation-bounded DFS on real spawns/exits/respawns",
   "Concurrent registrations of one name (plain and linked spawns), lookups, the holder's exit path, respawns, and failed instant starts whose handle is held by a status poller, with a decision point before every DashMap, lock and atomic operation; oracle: one holder at a time, losers fail with ActorAlreadyRegistered leaving nothing, lookups return only a current holder and never one whose wait() returned, the name is reusable after wait().",
   "sequential consistency; DashMap accesses atomic (shards held across points are waited for); the pid table is checked on the cluster build of the harness (alt/ units)", "DESIGN.md section 5 C10"),
 "C11": ("vsched", "stateless model checking of the real pg module: exhaustive DFS with sleep sets (join vs exit) + deviation-bounded DFS (3 tasks), snapshot + port-reading oracle",
   "2-3 tasks run the real join/leave/monitor/demonitor/query functions and the real exit cleanup on shared groups and scopes; a decision point before every DashMap, lock, atomic and supervision-port operation; oracle: stopped actors are nowhere, scope index / reverse index / listener tables agree with the forward map, all six query functions agree, each get_members result is explained by an instant of its call, monitors saw every effective change with the right payload and nobody else saw anything.",
   "sequential consistency; DashMap iter() modelled as an atomic snapshot; redundant notifications for no-op calls are not flagged; delivery order between different calls is not demanded", "DESIGN.md section 5 C11"),
})

CHECKS.update({
 "C08": ("vsched", "stateless model checking + cut-point enumeration (spawn future dropped / instant task aborted before its k-th poll, all k) on the real spawn paths, residue-snapshot oracle",
   "Send and thread-local actors x spawn / spawn_linked / spawn_instant / spawn_linked_instant x failure cause (pre_start Err or panic, name taken, killed during start-up, supervisor draining or stopping, start future dropped at every poll, instant task aborted at every poll) x side effect performed by pre_start (group joins, monitors, link under another supervisor, linked child, casts, a call queued from outside) or by an outsider task (join / monitor / link from outside at map / lock / atomic granularity); each under a deviation-bounded schedule DFS; at quiescence nothing of the actor is left: status Stopped, waits return, name reusable, no pg trace, in no child set, no supervision event, queued calls fail.",
   "task granularity; a cut landing after post_start began is treated as a running actor that must work and clean up normally", "DESIGN.md section 5 C08"),
 "C09": ("vsched", "stateless model checking of call / multi_call / call_and_forward on the real code with a virtual clock (timer ties explored), reply-provenance oracle",
   "1-3 concurrent callers x callee behaviour (incl. a handler that never returns) x callee exit landing anywhere by schedule (incl. stop-then-kill, drain-then-kill) x timeout relation (incl. T = 0); Success(v) only with the value sent on that call's own port, every call returns (a stuck caller is a scheduler-proved hang), completion <= T and == T for Timeout, multi_call in request order, forward exactly once iff the call succeeded.",
   "task granularity; zero-cost computation on the virtual clock", "DESIGN.md section 5 C09"),
 "C12": ("vsched", "stateless model checking on a virtual clock: deviation-bounded DFS over same-instant ties, exact-timestamp oracle",
   "send_after / send_interval / exit_after / kill_after with periods from 0 and 1 us to 5 ms, target exit and handle abort (incl. before the timer task ever ran, and of interval / exit_after / kill_after handles) before / exactly at / after the expiry, message construction that burns half a period (exposes drift); same-instant ties between the timer, an unrelated ready task and the exit are explored.",
   "the seam's Interval (next_tick += period) replaces tokio's Interval: the no-drift clause is decided for time.rs's loop on top of it, not for tokio's timer wheel", "DESIGN.md section 5 C12"),
 "C16": ("vsched", "stateless model checking of the real forwarding tasks for both port implementations (two builds), per-subscriber sequence oracle",
   "A publisher sends 0..N with five or six subscribers (from the start, late at chosen points, filtering converter, self-stopping, slow, created by spawn_instant and subscribed before its start-up ran) on the default port and on output-port-v2; deviation-bounded DFS over task-level schedules; order, no duplicates, completeness where no lag is possible, survivors unaffected, a lagging default-port subscriber still receives the newest publications.",
   "tokio broadcast trusted as atomic steps; the v2 build is a second harness binary built with ractor/output-port-v2", "DESIGN.md section 5 C16"),
})

CHECKS.update({
 "C13": ("vsched", "exhaustive enumeration of bounded event histories on a real Factory x deviation-bounded schedule DFS, per-job fate ledger",
   "Every history up to depth 4 (quick; 3 on secondary configurations) / 5 (thorough; 4 on secondary configurations) over dispatch / complete / die (panic, Err, kill, kill right after Finished) / resize / drain / advance on a real factory with gate-controlled real workers, for 7 routing modes x discard settings, plus focused alphabets at greater depth: reduced deaths (depth 5), bursts (a request right behind the previous one), three keys of plain job flow (depth 6), limit changes, priority queues, rate-limited routers, a worker lingering in post_stop, a worker dying inside the factory's own handler (kill armed in the discard callback), deaths at the granularity of channel operations; schedules of the runs between events are explored with one deviation where deaths race with the factory. Oracle: each job is handled once, or refused once with an applicable reason, or lost with a dying worker (at most one per death, and only if its drop — jobs carry drop guards — precedes the replacement); nothing is handled twice, handled and discarded, or missing while workers are healthy.",
   "task granularity; 2 keys, 2 initial workers (1..3 after resizes), default queue; one recorded known finding (stale Finished after replacement)", "DESIGN.md section 5 C13-C15"),
 "C14": ("vsched", "exhaustive enumeration of bounded event histories on a real Factory x deviation-bounded schedule DFS, routing monitors",
   "Same history sweep; monitors: no two workers run the same key at once (key-persistent, sticky), key-persistent keeps submission order per key, every job routed by custom hashing or round robin runs on a worker below the pool size requested last before its dispatch, whatever the hash returns (const, identity, usize::MAX), round robin spreads the first n jobs over n workers, queuer never leaves a job waiting while a worker is idle (probed at quiescence), one job at a time per worker.",
   "task granularity; one recorded known finding (stale Finished after replacement)", "DESIGN.md section 5 C13-C15"),
 "C15": ("vsched", "exhaustive enumeration of bounded event histories on a real Factory (7 discard settings x 7 routing modes) + exhaustive operation-sequence enumeration of the leaky bucket against a token-bucket reference on the virtual clock",
   "Queue bound after every processed dispatch (factory queue and, where all waiting jobs are bound for one worker, the worker queue; under limit changes the limit in effect), which job is shed (newest = the one being dispatched, oldest = longest waiting of the lowest priority class), each shed job reported once with Loadshed, a leaky bucket in front of the router never hands out more jobs than its tokens, pool size converges to the last requested size with dead workers replaced, DrainRequests refuses new jobs / finishes accepted ones / stops the factory / runs hooks in order; leaky bucket: all sequences of length 5 (quick) / 7 (thorough) over {admit, check, advance by 0 / interval-1ns / interval / 2.5 intervals} for 256 parameter tuples (refill 0,1,2,MAX; interval 0,1ns,1ms,MAX; max 0,1,3,MAX; initial None,0,1,5).",
   "task granularity; two recorded known findings (a replaced draining worker is never removed; stale Finished after replacement, seen through draining) and one repaired defect (Oldest limit skipped for a parked job)", "DESIGN.md section 5 C13-C15"),
})

CHECKS.update({
 "C17": ("vsched+enum", "explicit-state enumeration of all input sequences through the real authentication state machines against a reference table + stateless model checking of real NodeServer sessions fed every frame sequence over an in-memory pipe",
   "All sequences of 5 (quick) / 6 (thorough) symbols over 18 symbols (right / wrong / empty / truncated / over-long digests) through ServerAuthenticationProcess / ClientAuthenticationProcess::next, with a peer that knows the cookie and one that does not: Ok only along the honest path, Close absorbing, anything else closes. Real sessions (accepting and dialling) receive every sequence of 3 (quick) / 4 (thorough) frames from a 15-symbol alphabet (incl. an authentication message with an unset oneof): no local actor handles anything, no proxy is created, pg is unchanged, the session is not listed, a bad authentication message stops it; then the honest (and a wrong-cookie) handshake, after which only the advertised remotable actor receives casts/calls.",
   "digests are not inverted (a peer without the cookie computes digests with another cookie); session runs use the default schedule (deviation bound 0 for the frame sweep, 1-2 for the handshake runs)", "DESIGN.md section 5 C17"),
 "C18": ("vsched+enum", "exhaustive enumeration through the real elect_sessions + stateless model checking of two real NodeServers joined by in-memory pipes",
   "Both name orders x every multiset of up to 3 (quick) / 4 (thorough) connections x every actor-id assignment at both nodes x every examination order: order independence, a common survivor, exactly one and the same when distinguishable, exactly one on the accepting side of a tie. Two real nodes: simultaneous dial, two and three dials, an unauthenticated connection claiming the peer's name after and BEFORE the honest link; one real node against a peer played by the harness that knows the cookie and chooses its connection ids (legacy 0, repeated ids, stalled same-id claims; both completion orders; several hash seeds); each node ends with exactly one listed, ready session over the same pipe, exactly one running session actor that considers itself authenticated, and the spoof neither displaces nor joins it.",
   "a link that became ready and is then superseded is reported ready and then disconnected (the repository's own tests accept that); both nodes share one process", "DESIGN.md section 5 C18"),
 "C19": ("enum+vsched", "exhaustive bounded enumeration of byte streams / fragmentations / argument strings through the real frame reader and generated decoders, round trips over boundary values, plus schedule-explored live actors",
   "Every byte stream of length <= 7 (quick) / 9 (thorough) over {00,01,08,7f,80,ff} through the real frame reader with a 16-byte limit (reads are counted: nothing is requested after an oversized header, never more than a chunk), boundary headers x payload x fragmentation, every fragmentation of valid frames with a Pending before each read, every argument string of length <= 6 / 8 over 5 symbols (+ length-prefix shapes) x 11 variant tags x cast/call through the derived decoders, every BytesConvertable type over boundary values, job metadata strings; an accepted payload is framed exactly (no trailing bytes); real Send and thread-local actors receiving undecodable payloads keep running; real sessions on a node with a 64-byte inbound limit close on an oversized header without waiting for a payload.",
   "bounded lengths and alphabets chosen from the decoders' branch conditions; prost trusted beyond totality; one fixed finding (thread-local actors)", "DESIGN.md section 5 C19"),
 "C20": ("vsched", "stateless model checking of two real NodeServers over an in-memory pipe with explored transport read sizes",
   "Session ready, then 2 senders x 2 casts and 3 concurrent calls (one abandoned, replies leaving out of request order) through the remote reference, group leave / re-join, an abandoned call followed by another, an actor appearing after ready, then the original stops or the link closes; read size in {all, 1, 7 bytes}; links with transit time on the virtual clock (timed-out calls whose answer arrives late); an actor spawned at a schedule-chosen moment of the session set-up and an actor stopping itself while casts are under way, both with decision points at the registries' map operations; schedules explored with deviation bound 1 (quick) / 2 (thorough) from the first remote send.",
   "both nodes share one process-wide registry and pg; no real TCP/TLS", "DESIGN.md section 5 C20"),
})

NOT_YET = {}

def main():
    props = [json.loads(l)["id"] for l in open(os.path.join(ROOT, "properties.jsonl"))]
    commits = subprocess.run(["git", "-C", "/repo", "log", "--format=%H %s"], capture_output=True, text=True).stdout.splitlines()
    hook_commits = [c.split()[0] for c in commits if " verif_hooks:" in c]
    checks = []
    for pid in props:
        if pid not in CHECKS:
            continue
        engine, technique, text, note, ref = CHECKS[pid]
        checks.append({
            "property_id": pid,
            "quick_cmd": f"./check {pid} quick",
            "thorough_cmd": f"./check {pid} thorough",
            "evidence_file": f"/verif/evidence/{pid}.json",
            "replay_cmd_template": "./check replay {path}",
            "engine": engine,
            "level_claimed": {"category": "model_checking", "text": text + (" Added later (DESIGN.md 10.7): " + ADDED[pid] if pid in ADDED else ""), "design_ref": ref},
            "level_note": note,
            "technique": technique,
        })
    na = [{"property_id": p, "reason": NOT_YET.get(p, "check not built yet in this session (planned, see DESIGN.md section 9); nothing is claimed for it until it is")}
          for p in props if p not in CHECKS]
    m = {
        "version": 1,
        "setup_cmd": "./check setup",
        "hooks": {
            "guard": "cargo feature verif_hooks (ractor; ractor_cluster forwards it)",
            "enable": "the harness crates under /verif depend on /repo/ractor (and /repo/ractor_cluster) by path with features = [\"verif_hooks\"]; ./check rebuilds them from /repo's working tree",
            "baseline_off_cmd": BASELINE,
            "source_commits": hook_commits,
            "add_only": True,
        },
        "engines": [
            {"name": "vsched", "path": "/verif/engine", "serves_properties": [c["property_id"] for c in checks if "vsched" in c["engine"]],
             "kind_free_text": "stateless model checker: every ractor task and harness task is a shuttle coroutine on one OS thread; our scheduler enumerates schedules depth-first under an iterated deviation bound, or completely with sleep-set partial-order reduction; virtual clock; abort/cut injection; runs the real ractor code through the verif_hooks seam"},
            {"name": "enum", "path": "/verif/engine/src/report.rs", "serves_properties": [c["property_id"] for c in checks if "enum" in c["engine"]],
             "kind_free_text": "exhaustive bounded enumeration / explicit-state BFS over real sequential code with a reference model"},
        ],
        "checks": checks,
        "not_applicable": na,
        "notes": "hooks.add_only: every hook patch only adds lines; the only effect on existing lines is that some `use` lines gain a preceding #[cfg(not(feature = \"verif_hooks\"))] attribute line (the existing line itself is unchanged). Exit codes: 0 held (KNOWN-FINDING lines possible), 1 VIOLATION, 2 machinery/build error. VERIF_WALL_CAP (seconds) and VERIF_WORKERS tune the run; VERIF_SEED is recorded (exploration is deterministic).",
    }
    json.dump(m, open(os.path.join(ROOT, "MANIFEST.json"), "w"), indent=1)
    print("MANIFEST.json:", len(checks), "checks,", len(na), "not_applicable")

if __name__ == "__main__":
    main()
