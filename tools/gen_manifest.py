#!/usr/bin/env python3
"""Regenerates /verif/MANIFEST.json from the table below (kept in one place so it is always valid)."""
import json, os, subprocess
ROOT = os.path.dirname(os.path.dirname(os.path.abspath(__file__)))

BASELINE = "cd /repo/$(cat /w/out/cargo_root.txt) && cargo nextest run --workspace --no-fail-fast --tool-config-file pb:/w/lib/nextest.toml --profile pb --test-threads 8 --offline"

# id -> (engine, technique, level text, level note, design ref)
CHECKS = {
 "C07": ("vsched",
   "stateless model checking of the real code: exhaustive DFS over schedules (sleep-set POR) + deviation-bounded DFS",
   "Every interleaving, at atomic/channel-operation granularity, of 2 senders x 1 drainer and 1 sender(2 msgs) x 2 drainers on the real send_message/drain code is enumerated (complete tree, one execution per Mazurkiewicz trace); larger configurations, spurious CAS failure and the live actor loop are enumerated up to a deviation bound. The oracle reads the real mailbox / the real actor's handler log.",
   "sequentially consistent memory; tokio channel, Notify and std lock operations are atomic steps; 2-3 senders, 1-2 drainers",
   "DESIGN.md section 5 C07"),
}

NOT_YET = {}

def main():
    props = [json.loads(l)["id"] for l in open(os.path.join(ROOT, "properties.jsonl"))]
    commits = subprocess.run(["git", "-C", "/repo", "log", "--format=%H %s"], capture_output=True, text=True).stdout.splitlines()
    hook_commits = [c.split()[0] for c in commits if " verif_hooks:" in c]
    checks = []
    for pid in props:
        if pid not in CHECKS:
            continue
        engine, technique, text, note, ref = CHECKS[pid]
        checks.append({
            "property_id": pid,
            "quick_cmd": f"./check {pid} quick",
            "thorough_cmd": f"./check {pid} thorough",
            "evidence_file": f"/verif/evidence/{pid}.json",
            "replay_cmd_template": "./check replay {path}",
            "engine": engine,
            "level_claimed": {"category": "model_checking", "text": text, "design_ref": ref},
            "level_note": note,
            "technique": technique,
        })
    na = [{"property_id": p, "reason": NOT_YET.get(p, "check not built yet in this session (planned, see DESIGN.md section 9); nothing is claimed for it until it is")}
          for p in props if p not in CHECKS]
    m = {
        "version": 1,
        "setup_cmd": "./check setup",
        "hooks": {
            "guard": "cargo feature verif_hooks (ractor; ractor_cluster forwards it)",
            "enable": "the harness crates under /verif depend on /repo/ractor (and /repo/ractor_cluster) by path with features = [\"verif_hooks\"]; ./check rebuilds them from /repo's working tree",
            "baseline_off_cmd": BASELINE,
            "source_commits": hook_commits,
            "add_only": True,
        },
        "engines": [
            {"name": "vsched", "path": "/verif/engine", "serves_properties": [c["property_id"] for c in checks if c["engine"] == "vsched"],
             "kind_free_text": "stateless model checker: every ractor task and harness task is a shuttle coroutine on one OS thread; our scheduler enumerates schedules depth-first under an iterated deviation bound, or completely with sleep-set partial-order reduction; virtual clock; abort/cut injection; runs the real ractor code through the verif_hooks seam"},
            {"name": "enum", "path": "/verif/engine/src/report.rs", "serves_properties": [c["property_id"] for c in checks if c["engine"] == "enum"],
             "kind_free_text": "exhaustive bounded enumeration / explicit-state BFS over real sequential code with a reference model"},
        ],
        "checks": checks,
        "not_applicable": na,
        "notes": "hooks.add_only: every hook patch only adds lines; the only effect on existing lines is that some `use` lines gain a preceding #[cfg(not(feature = \"verif_hooks\"))] attribute line (the existing line itself is unchanged). Exit codes: 0 held (KNOWN-FINDING lines possible), 1 VIOLATION, 2 machinery/build error. VERIF_WALL_CAP (seconds) and VERIF_WORKERS tune the run; VERIF_SEED is recorded (exploration is deterministic).",
    }
    json.dump(m, open(os.path.join(ROOT, "MANIFEST.json"), "w"), indent=1)
    print("MANIFEST.json:", len(checks), "checks,", len(na), "not_applicable")

if __name__ == "__main__":
    main()
