#!/bin/bash
# runs every thorough check once into a scratch evidence dir and summarises (developer tool)
cd /verif
mkdir -p target/thorough; cp known_findings.json target/thorough/
for p in "$@"; do
  s=$(date +%s)
  out=$(VERIF_ROOT=/verif/target/thorough VERIF_WALL_CAP=${CAP:-900} ./check $p thorough 2>&1)
  code=$?
  e=$(( $(date +%s) - s ))
  echo "$p exit=$code wall=${e}s $(echo "$out" | grep -E "thorough:" | cut -c1-220)"
  echo "$out" | grep -E "VIOLATION|MACHINERY|KNOWN" | cut -c1-300 | head -5
done
