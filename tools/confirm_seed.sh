#!/bin/bash
# usage: tools/confirm_seed.sh <PROP> <seed-id>  — confirms a sub-agent's seeded change in its scratch worktree /tmp/wt-<PROP>:
#   1. the whole existing suite passes with the change (demo moved aside)   2. the demo fails with it   3. the demo passes without it
# and stores patch + demo + meta.json under /verif/seeded/<seed-id>/. Removes nothing (the caller removes the worktree).
prop="$1"; id="$2"; wt="${3:-/tmp/wt-$prop}"
out=/verif/seeded/$id; mkdir -p "$out"
cd "$wt" || exit 2
export CARGO_TARGET_DIR=$wt/target CARGO_NET_OFFLINE=true
demo_cmd=$(grep -v "^ *#" .seed/DEMO_CMD.txt | grep -v "^ *$" | head -1)
# (an `export VAR=..` line goes together with the command behind it)
if [ "${demo_cmd#export}" != "$demo_cmd" ]; then
  second=$(grep -v "^ *#" .seed/DEMO_CMD.txt | grep -v "^ *$" | sed -n 2p)
  demo_cmd="$demo_cmd; $second"
fi
demos=$(git status --short | grep '^??' | awk '{print $2}' | grep -v '^.seed')
# state: change applied?
git diff --quiet && git apply .seed/patch.diff
mkdir -p /tmp/seed-aside-$id; for d in $demos; do mkdir -p /tmp/seed-aside-$id/$(dirname $d); mv $d /tmp/seed-aside-$id/$d; done
suite=$(cargo nextest run --workspace --no-fail-fast --test-threads 8 --offline 2>&1 | grep -E "Summary|FAIL " | head -5)
for d in $demos; do mv /tmp/seed-aside-$id/$d $d; done
with=$(bash -c "$demo_cmd" 2>&1 | grep -E "Summary|test result" | tail -2)
git apply -R .seed/patch.diff
without=$(bash -c "$demo_cmd" 2>&1 | grep -E "Summary|test result" | tail -2)
git apply .seed/patch.diff
cp .seed/patch.diff "$out/patch.diff"; for d in $demos; do if [ -d "$d" ]; then cp $d/*.rs "$out/"; else cp $d "$out/"; fi; done; cp .seed/DEMO_CMD.txt .seed/NOTES.md "$out/" 2>/dev/null
python3 - "$prop" "$id" "$suite" "$with" "$without" <<'PY'
import json,sys
prop,id,suite,w,wo=sys.argv[1:6]
json.dump({"property":prop,"id":id,"suite_with_change":suite,"demo_with_change":w,"demo_without_change":wo},open(f"/verif/seeded/{id}/confirm.json","w"),indent=1)
print(json.dumps({"suite":suite,"with":w,"without":wo},indent=1))
PY
