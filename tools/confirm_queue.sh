#!/bin/bash
# usage: tools/confirm_queue.sh "C10 id" "C11 id" ...   — runs the confirmations one after the other (one lock for all queues)
for x in "$@"; do
  set -- $x
  flock /tmp/confirm-seed.lock /verif/tools/confirm_seed.sh "$1" "$2" ${3:-} > "/tmp/confirm-$2.log" 2>&1
done
