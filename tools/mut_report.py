#!/usr/bin/env python3
import json,collections,sys
pat=sys.argv[1] if len(sys.argv)>1 else ''
rs=[json.loads(l) for l in open('/tmp/mut/results.jsonl')]
rs=[r for r in rs if pat in r['file']]
print(collections.Counter(r['result'] for r in rs))
for r in rs:
    if r['result'] in('survived','machinery'):
        print(r['result'],r['id'],'|',r['old'][:110],'=>',r['new'][:80],'|',r.get('suite','')[:40], r.get('sample','')[:100])
