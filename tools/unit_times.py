#!/usr/bin/env python3
"""usage: tools/unit_times.py <evidence.json>  — per-unit executions / wall time (summed over shards)"""
import json, sys
e = json.load(open(sys.argv[1]))
agg = {}
for x in e['coverage']['units']:
    a = agg.setdefault(x['unit'], [0, 0.0, 0.0, x.get('bound_completed'), x.get('exhaustive')])
    a[0] += x.get('executions', 0) or x.get('evaluations', 0) or 0
    a[1] += x.get('wall_s', 0)
    a[2] = max(a[2], x.get('wall_s', 0))
for n, v in sorted(agg.items(), key=lambda kv: -kv[1][1])[:int(sys.argv[2]) if len(sys.argv) > 2 else 15]:
    print(f"{v[1]:8.1f}s sum {v[2]:6.1f}s max  execs={v[0]:8d} bound={v[3]} exh={v[4]}  {n}")
