fn main() {
    // the getrandom shim must be visible to dlsym(RTLD_DEFAULT, "getrandom")
    println!("cargo:rustc-link-arg-bins=-Wl,--export-dynamic-symbol=getrandom");
}
