//! C17 — nothing from a peer takes effect before authentication.
use std::sync::Arc;

use ractor_cluster::verif::proto::auth as a;
use ractor_cluster::verif::{challenge_digest, ClientFsm, ServerFsm};
use serde_json::json;
use vsched::report::{EnumCtx, EnumResult, Plan, Unit};

const COOKIE: &str = "the-cookie";

#[derive(Clone, Copy, Debug, PartialEq, Eq)]
enum Sym {
    Name,
    ClientStatusTrue,
    ClientStatusFalse,
    ClientChallengeRight,
    ClientChallengeWrong,
    ClientChallengeEmpty,
    /// the right digest minus its last byte / plus one byte
    ClientChallengeTrunc,
    ClientChallengeLong,
    ServerStatusOk,
    ServerStatusAlive,
    ServerChallenge,
    ServerAckRight,
    ServerAckWrong,
    ServerAckEmpty,
    ServerAckTrunc,
    ServerAckLong,
    Empty,
    /// internal step of the accepting side (taken by the session after it answered Ok)
    StartChallenge,
}

const ALL: &[Sym] = &[
    Sym::Name,
    Sym::ClientStatusTrue,
    Sym::ClientStatusFalse,
    Sym::ClientChallengeRight,
    Sym::ClientChallengeWrong,
    Sym::ClientChallengeEmpty,
    Sym::ClientChallengeTrunc,
    Sym::ClientChallengeLong,
    Sym::ServerStatusOk,
    Sym::ServerStatusAlive,
    Sym::ServerChallenge,
    Sym::ServerAckRight,
    Sym::ServerAckWrong,
    Sym::ServerAckEmpty,
    Sym::ServerAckTrunc,
    Sym::ServerAckLong,
    Sym::Empty,
    Sym::StartChallenge,
];

fn msg(m: a::authentication_message::Msg) -> a::AuthenticationMessage {
    a::AuthenticationMessage { msg: Some(m) }
}

fn name() -> a::NameMessage {
    a::NameMessage { name: "peer@host".into(), flags: Some(a::NodeFlags { version: 1 }), connection_string: "host:1".into(), connection_id: 7 }
}

/// reference model of the accepting side: state names only
fn server_model(state: &'static str, s: Sym, peer_knows_cookie: bool) -> &'static str {
    match (state, s) {
        ("WaitingOnPeerName", Sym::Name) => "HavePeerName",
        ("HavePeerName", Sym::StartChallenge) | ("WaitingOnClientStatus", Sym::StartChallenge) => "WaitingOnClientChallengeReply",
        (_, Sym::StartChallenge) => "Close",
        ("WaitingOnClientStatus", Sym::ClientStatusTrue) => "WaitingOnClientChallengeReply",
        ("WaitingOnClientChallengeReply", Sym::ClientChallengeRight) if peer_knows_cookie => "Ok",
        _ => "Close",
    }
}

fn client_model(state: &'static str, s: Sym, peer_knows_cookie: bool) -> &'static str {
    match (state, s) {
        ("WaitingForServerStatus", Sym::ServerStatusOk) | ("WaitingForServerStatus", Sym::ServerStatusAlive) => "WaitingForServerChallenge",
        ("WaitingForServerChallenge", Sym::ServerChallenge) => "WaitingForServerChallengeAck",
        ("WaitingForServerChallengeAck", Sym::ServerAckRight) if peer_knows_cookie => "Ok",
        _ => "Close",
    }
}

fn server_sweep(ctx: &EnumCtx, depth: usize, peer_knows_cookie: bool, from_alive: bool, cookies: (&'static str, &'static str)) -> EnumResult {
    let (real, wrong) = cookies;
    let mut res = EnumResult::default();
    let peer_cookie = if peer_knows_cookie { real } else { wrong };
    let total = ALL.len().pow(depth as u32);
    let mut states = std::collections::BTreeSet::new();
    for code in 0..total {
        if code % ctx.shard.1 != ctx.shard.0 {
            continue;
        }
        let mut c = code;
        let seq: Vec<Sym> = (0..depth)
            .map(|_| {
                let s = ALL[c % ALL.len()];
                c /= ALL.len();
                s
            })
            .collect();
        let mut fsm = if from_alive { ServerFsm::waiting_on_client_status() } else { ServerFsm::init() };
        let mut model = if from_alive { "WaitingOnClientStatus" } else { "WaitingOnPeerName" };
        res.evaluations += 1;
        let mut was_closed = false;
        for (i, s) in seq.iter().enumerate() {
            let next = match s {
                Sym::StartChallenge => fsm.start_challenge(real),
                Sym::Name => fsm.next(msg(a::authentication_message::Msg::Name(name())), real),
                Sym::ClientStatusTrue => fsm.next(msg(a::authentication_message::Msg::ClientStatus(a::ClientStatus { status: true })), real),
                Sym::ClientStatusFalse => fsm.next(msg(a::authentication_message::Msg::ClientStatus(a::ClientStatus { status: false })), real),
                Sym::ClientChallengeRight | Sym::ClientChallengeWrong | Sym::ClientChallengeEmpty | Sym::ClientChallengeTrunc | Sym::ClientChallengeLong => {
                    let right = challenge_digest(peer_cookie, fsm.challenge().map(|c| c.0).unwrap_or(1));
                    let digest = match (s, fsm.challenge()) {
                        (Sym::ClientChallengeRight, _) => right,
                        (Sym::ClientChallengeWrong, Some((ch, _))) => challenge_digest(peer_cookie, ch.wrapping_add(1)),
                        (Sym::ClientChallengeWrong, None) => vec![1; 32],
                        (Sym::ClientChallengeTrunc, _) => right[..right.len() - 1].to_vec(),
                        (Sym::ClientChallengeLong, _) => right.iter().copied().chain([0u8]).collect(),
                        _ => vec![],
                    };
                    fsm.next(msg(a::authentication_message::Msg::ClientChallenge(a::ChallengeReply { challenge: 99, digest })), real)
                }
                Sym::ServerStatusOk => fsm.next(msg(a::authentication_message::Msg::ServerStatus(a::ServerStatus { status: 0 })), real),
                Sym::ServerStatusAlive => fsm.next(msg(a::authentication_message::Msg::ServerStatus(a::ServerStatus { status: 4 })), real),
                Sym::ServerChallenge => fsm.next(msg(a::authentication_message::Msg::ServerChallenge(a::Challenge { name: "x".into(), flags: None, challenge: 5, connection_string: "c".into() })), real),
                Sym::ServerAckRight | Sym::ServerAckWrong | Sym::ServerAckEmpty | Sym::ServerAckTrunc | Sym::ServerAckLong => {
                    let digest = match s {
                        Sym::ServerAckEmpty => vec![],
                        Sym::ServerAckTrunc => vec![2; 31],
                        Sym::ServerAckLong => vec![2; 33],
                        _ => vec![2; 32],
                    };
                    fsm.next(msg(a::authentication_message::Msg::ServerAck(a::ChallengeAck { digest })), real)
                }
                Sym::Empty => fsm.next(a::AuthenticationMessage { msg: None }, real),
            };
            model = server_model(model, *s, peer_knows_cookie);
            res.transitions += 1;
            states.insert((i, next.state_name()));
            if next.state_name() != model {
                if res.violations.len() < 5 {
                    res.violations.push((
                        format!("accepting side: after {:?} the state is {} but the protocol allows only {}", &seq[..=i], next.state_name(), model),
                        json!({"sequence": format!("{:?}", &seq[..=i]), "peer_knows_cookie": peer_knows_cookie}),
                    ));
                }
                break;
            }
            if was_closed && !next.is_close() {
                res.violations.push((format!("Close is not absorbing: {:?}", &seq[..=i]), json!({})));
            }
            if next.is_ok() {
                // the digest acknowledged to the client proves knowledge of the cookie for ITS challenge
                if next.ok_digest() != Some(challenge_digest(real, 99)) {
                    res.violations.push(("the acknowledgement digest is not the digest of the client's challenge".into(), json!({})));
                }
                if !peer_knows_cookie {
                    res.violations.push((format!("authenticated a peer that does not know the cookie: {:?}", &seq[..=i]), json!({})));
                }
            }
            was_closed = next.is_close();
            fsm = next;
        }
        *res.outcomes.entry(fsm.state_name().to_string()).or_insert(0) += 1;
        if !seq.iter().all(|s| *s == seq[0]) {
            res.distinct_nontrivial += 1;
        }
    }
    res.states = states.len() as u64;
    res.exhaustive = true;
    res.note = format!("accepting side, all {total} sequences of {depth} symbols over {} symbols, peer_knows_cookie={peer_knows_cookie}, start={}", ALL.len(), if from_alive { "WaitingOnClientStatus" } else { "init" });
    res.samples.push(json!({"sequence": "Name, StartChallenge, ClientChallengeRight", "ends_in": if peer_knows_cookie { "Ok" } else { "Close" }}));
    res
}

fn client_sweep(ctx: &EnumCtx, depth: usize, peer_knows_cookie: bool, cookies: (&'static str, &'static str)) -> EnumResult {
    let (real, wrong) = cookies;
    let mut res = EnumResult::default();
    let peer_cookie = if peer_knows_cookie { real } else { wrong };
    let total = ALL.len().pow(depth as u32);
    let mut states = std::collections::BTreeSet::new();
    for code in 0..total {
        if code % ctx.shard.1 != ctx.shard.0 {
            continue;
        }
        let mut c = code;
        let seq: Vec<Sym> = (0..depth)
            .map(|_| {
                let s = ALL[c % ALL.len()];
                c /= ALL.len();
                s
            })
            .collect();
        let mut fsm = ClientFsm::init();
        let mut model = "WaitingForServerStatus";
        res.evaluations += 1;
        let mut was_closed = false;
        for (i, s) in seq.iter().enumerate() {
            let next = match s {
                Sym::StartChallenge | Sym::Empty => fsm.next(a::AuthenticationMessage { msg: None }, real),
                Sym::Name => fsm.next(msg(a::authentication_message::Msg::Name(name())), real),
                Sym::ClientStatusTrue => fsm.next(msg(a::authentication_message::Msg::ClientStatus(a::ClientStatus { status: true })), real),
                Sym::ClientStatusFalse => fsm.next(msg(a::authentication_message::Msg::ClientStatus(a::ClientStatus { status: false })), real),
                Sym::ClientChallengeRight | Sym::ClientChallengeWrong | Sym::ClientChallengeEmpty | Sym::ClientChallengeTrunc | Sym::ClientChallengeLong => {
                    let digest = match s {
                        Sym::ClientChallengeEmpty => vec![],
                        Sym::ClientChallengeTrunc => vec![3; 31],
                        Sym::ClientChallengeLong => vec![3; 33],
                        _ => vec![3; 32],
                    };
                    fsm.next(msg(a::authentication_message::Msg::ClientChallenge(a::ChallengeReply { challenge: 1, digest })), real)
                }
                Sym::ServerStatusOk => fsm.next(msg(a::authentication_message::Msg::ServerStatus(a::ServerStatus { status: 0 })), real),
                Sym::ServerStatusAlive => fsm.next(msg(a::authentication_message::Msg::ServerStatus(a::ServerStatus { status: 4 })), real),
                Sym::ServerChallenge => fsm.next(msg(a::authentication_message::Msg::ServerChallenge(a::Challenge { name: "srv@host".into(), flags: None, challenge: 5, connection_string: "c".into() })), real),
                Sym::ServerAckRight | Sym::ServerAckWrong | Sym::ServerAckEmpty | Sym::ServerAckTrunc | Sym::ServerAckLong => {
                    let right = fsm.challenge().map(|(_, ours, _)| challenge_digest(peer_cookie, ours));
                    let digest = match (s, right) {
                        (Sym::ServerAckRight, Some(r)) => r,
                        (Sym::ServerAckWrong, Some(_)) => challenge_digest(peer_cookie, fsm.challenge().unwrap().1.wrapping_add(1)),
                        (Sym::ServerAckTrunc, Some(r)) => r[..r.len() - 1].to_vec(),
                        (Sym::ServerAckLong, Some(r)) => r.iter().copied().chain([0u8]).collect(),
                        (Sym::ServerAckEmpty, _) => vec![],
                        _ => vec![9; 32],
                    };
                    fsm.next(msg(a::authentication_message::Msg::ServerAck(a::ChallengeAck { digest })), real)
                }
            };
            let sym_for_model = if *s == Sym::StartChallenge { Sym::Empty } else { *s };
            model = client_model(model, sym_for_model, peer_knows_cookie);
            res.transitions += 1;
            states.insert((i, next.state_name()));
            if next.state_name() != model {
                if res.violations.len() < 5 {
                    res.violations.push((
                        format!("dialling side: after {:?} the state is {} but the protocol allows only {}", &seq[..=i], next.state_name(), model),
                        json!({"sequence": format!("{:?}", &seq[..=i]), "peer_knows_cookie": peer_knows_cookie}),
                    ));
                }
                break;
            }
            if was_closed && !next.is_close() {
                res.violations.push((format!("Close is not absorbing: {:?}", &seq[..=i]), json!({})));
            }
            if let Some((reply, _, _)) = next.challenge() {
                // the reply sent to the server is the digest of the server's challenge under our cookie
                if reply != challenge_digest(real, 5) {
                    res.violations.push(("the reply digest is not the digest of the server's challenge".into(), json!({})));
                }
            }
            if next.is_ok() && !peer_knows_cookie {
                res.violations.push((format!("accepted a server that does not know the cookie: {:?}", &seq[..=i]), json!({})));
            }
            was_closed = next.is_close();
            fsm = next;
        }
        *res.outcomes.entry(fsm.state_name().to_string()).or_insert(0) += 1;
        if !seq.iter().all(|s| *s == seq[0]) {
            res.distinct_nontrivial += 1;
        }
    }
    res.states = states.len() as u64;
    res.exhaustive = true;
    res.note = format!("dialling side, all {total} sequences of {depth} symbols, peer_knows_cookie={peer_knows_cookie}");
    res.samples.push(json!({"sequence": "ServerStatusOk, ServerChallenge, ServerAckRight", "ends_in": if peer_knows_cookie { "Ok" } else { "Close" }}));
    res
}

/// wrong cookies chosen from the ways a digest could fail to depend on the whole cookie: a long cookie whose
/// last byte / tail beyond 60 bytes differs or is missing, a cookie extended by a NUL, the empty cookie
const LONG: &str = "0123456789abcdef0123456789abcdef0123456789abcdef0123456789abcdef-tail";
const LONG_LAST: &str = "0123456789abcdef0123456789abcdef0123456789abcdef0123456789abcdef-taiL";
const LONG_TAIL: &str = "0123456789abcdef0123456789abcdef0123456789abcdef0123456789abXXXXXXXXX";
const LONG_CUT: &str = "0123456789abcdef0123456789abcdef0123456789abcdef0123456789ab";
const FAMILIES: &[(&str, &str, &str)] = &[
    ("long-last-byte", LONG, LONG_LAST),
    ("long-tail-after-60", LONG, LONG_TAIL),
    ("long-cut-at-60", LONG, LONG_CUT),
    ("short-vs-long", LONG_CUT, LONG),
    ("nul-extended", COOKIE, "the-cookie\0"),
    ("empty", COOKIE, ""),
];

/// the digest itself: over the cookie families above (and every pair of their members) x boundary challenges,
/// two different cookies never give the same digest, and the digest has the advertised length
fn digest_sweep(_ctx: &EnumCtx) -> EnumResult {
    let mut res = EnumResult::default();
    let mut all: Vec<&str> = vec![COOKIE, "another-cookie"];
    for (_, a, b) in FAMILIES {
        all.push(a);
        all.push(b);
    }
    all.sort();
    all.dedup();
    for ch in [0u32, 1, 5, 42, 99, 0x7fff_ffff, 0x8000_0000, u32::MAX] {
        for (i, a) in all.iter().enumerate() {
            res.evaluations += 1;
            if challenge_digest(a, ch).len() != 32 {
                res.violations.push((format!("challenge_digest({a:?}, {ch}) has {} bytes", challenge_digest(a, ch).len()), json!({})));
            }
            for b in &all[i + 1..] {
                res.evaluations += 1;
                if challenge_digest(a, ch) == challenge_digest(b, ch) {
                    res.violations.push((format!("cookies {a:?} and {b:?} give the same digest for challenge {ch}: a peer holding one authenticates against the other"), json!({})));
                }
            }
        }
    }
    res.exhaustive = true;
    res.note = format!("{} cookies (pairwise) x 8 challenges", all.len());
    res
}

/// A peer that does not know the cookie, but has watched the node's earlier handshakes: every handshake puts the
/// node's own challenge on the wire (the accepting side sends it first; the dialling side sends it next to its
/// answer). On a session the node dials, the peer issues as ITS challenge a value computed from what it has seen
/// (the last value, the last + 1, + 2, + 3, - 1, the linear continuation, 0, 1), receives the node's digest of
/// that value, and hands the very same digest back as its own proof. That only works if the node's fresh challenge
/// equals the guess, i.e. if challenges can be computed from earlier ones. Every history of one to three observed
/// handshakes (accepting / dialling side in every order) x every predictor; a success is re-tried once with a
/// fresh history before it is reported (two lucky 32-bit guesses in a row: 2^-64).
fn reflection_sweep(_ctx: &EnumCtx) -> EnumResult {
    let mut res = EnumResult::default();
    let real = COOKIE;
    // what a cookie-less peer sees of the node's challenge on an accepting-side handshake
    let observe_accepting = || -> Option<u32> {
        let f = ServerFsm::init().next(msg(a::authentication_message::Msg::Name(name())), real);
        let f = f.start_challenge(real);
        f.challenge().map(|c| c.0)
    };
    // ... and on a dialling-side handshake (the peer sends any challenge and reads the node's own from the reply)
    let observe_dialling = |x: u32| -> Option<(Vec<u8>, u32)> {
        let f = ClientFsm::init().next(msg(a::authentication_message::Msg::ServerStatus(a::ServerStatus { status: 0 })), real);
        let f = f.next(msg(a::authentication_message::Msg::ServerChallenge(a::Challenge { name: "srv@host".into(), flags: None, challenge: x, connection_string: "c".into() })), real);
        f.challenge().map(|(reply, ours, _)| (reply, ours))
    };
    let attack = |sides: &[bool], predictor: usize| -> Option<bool> {
        let mut seen: Vec<u32> = Vec::new();
        for accepting in sides {
            let c = if *accepting { observe_accepting()? } else { observe_dialling(7)?.1 };
            seen.push(c);
        }
        let last = *seen.last()?;
        let prev = if seen.len() >= 2 { seen[seen.len() - 2] } else { last };
        let guess = match predictor {
            0 => last,
            1 => last.wrapping_add(1),
            2 => last.wrapping_add(2),
            3 => last.wrapping_add(3),
            4 => last.wrapping_sub(1),
            5 => last.wrapping_add(last.wrapping_sub(prev)),
            6 => 0,
            _ => 1,
        };
        let f = ClientFsm::init().next(msg(a::authentication_message::Msg::ServerStatus(a::ServerStatus { status: 0 })), real);
        let f = f.next(msg(a::authentication_message::Msg::ServerChallenge(a::Challenge { name: "srv@host".into(), flags: None, challenge: guess, connection_string: "c".into() })), real);
        let (reply, _ours, _) = f.challenge()?;
        let f = f.next(msg(a::authentication_message::Msg::ServerAck(a::ChallengeAck { digest: reply })), real);
        Some(f.is_ok())
    };
    let mut histories: Vec<Vec<bool>> = Vec::new();
    for len in 1..=3usize {
        for code in 0..(1usize << len) {
            histories.push((0..len).map(|i| code >> i & 1 == 1).collect());
        }
    }
    for h in &histories {
        for predictor in 0..8usize {
            res.evaluations += 1;
            res.transitions += h.len() as u64 + 3;
            match attack(h, predictor) {
                None => res.violations.push((format!("the handshake did not reach the challenge exchange (history {h:?})"), json!({}))),
                Some(false) => *res.outcomes.entry("rejected".to_string()).or_insert(0) += 1,
                Some(true) => {
                    if attack(h, predictor) == Some(true) {
                        *res.outcomes.entry("authenticated".to_string()).or_insert(0) += 1;
                        if res.violations.len() < 5 {
                            res.violations.push((
                                format!(
                                    "a peer that does not know the cookie was authenticated on a session the node dialled: after watching {} earlier handshake(s) (accepting side: {h:?}) it predicted the node's next challenge (predictor {predictor}: {}) and handed the node's own digest back",
                                    h.len(),
                                    ["last", "last+1", "last+2", "last+3", "last-1", "linear continuation", "0", "1"][predictor]
                                ),
                                json!({"history_accepting_side": format!("{h:?}"), "predictor": predictor}),
                            ));
                        }
                    } else {
                        *res.outcomes.entry("rejected".to_string()).or_insert(0) += 1;
                    }
                }
            }
            res.distinct_nontrivial += 1;
        }
    }
    res.exhaustive = true;
    res.note = format!("{} observation histories (1-3 handshakes, accepting / dialling side) x 8 predictors", histories.len());
    res
}

pub fn fsm_units(thorough: bool) -> Vec<Unit> {
    let depth = if thorough { 6 } else { 5 };
    let mut v = Vec::new();
    let base = (COOKIE, "another-cookie");
    for knows in [true, false] {
        v.push(Unit::enumerate(format!("fsm/server/knows={knows}"), 8, Arc::new(move |c: &EnumCtx| server_sweep(c, depth, knows, false, base))));
        v.push(Unit::enumerate(format!("fsm/server-alive/knows={knows}"), 8, Arc::new(move |c: &EnumCtx| server_sweep(c, depth - 1, knows, true, base))));
        v.push(Unit::enumerate(format!("fsm/client/knows={knows}"), 8, Arc::new(move |c: &EnumCtx| client_sweep(c, depth, knows, base))));
    }
    v.push(Unit::enumerate("digest/cookie-families".to_string(), 1, Arc::new(digest_sweep)));
    v.push(Unit::enumerate("fsm/client/predicted-challenge-reflection".to_string(), 1, Arc::new(reflection_sweep)));
    for (name, real, wrong) in FAMILIES {
        let pair = (*real, *wrong);
        let d = depth - 1;
        v.push(Unit::enumerate(format!("fsm/server/wrong-cookie={name}"), 4, Arc::new(move |c: &EnumCtx| server_sweep(c, d, false, false, pair))));
        v.push(Unit::enumerate(format!("fsm/client/wrong-cookie={name}"), 4, Arc::new(move |c: &EnumCtx| client_sweep(c, d, false, pair))));
        // the honest peer of a node with such a cookie still gets through
        v.push(Unit::enumerate(format!("fsm/server/right-cookie={name}"), 4, Arc::new(move |c: &EnumCtx| server_sweep(c, d - 1, true, false, pair))));
    }
    v
}

pub fn plan(tier: &str) -> Plan {
    let thorough = tier == "thorough";
    let mut units = fsm_units(thorough);
    units.extend(crate::nodes::c17_units(thorough));
    Plan {
        property: "C17",
        units,
        rule: "explicit enumeration of every input sequence up to the stated depth over 18 symbols (every authentication message kind with right / wrong / empty / truncated / over-long digests, the empty message, the internal start-challenge step) through the real {Server,Client}AuthenticationProcess::next against a reference table of the handshake (Ok only along the honest path with the right cookie, Close absorbing, anything out of order closes), with a peer that knows the cookie and one that does not; plus real NodeServer sessions fed every frame sequence up to the stated length from a 14-symbol alphabet before / instead of the handshake, then the honest handshake followed by casts and calls to advertised and unadvertised pids; non-trivial = sequence with at least two different symbols".into(),
        assumptions: vec![
            "SHA-256 digests are not inverted: a peer without the cookie is modelled as computing digests with another cookie".into(),
            "session-level runs use the default schedule plus deviation bound 1 (the session's actors are driven to quiescence after every frame)".into(),
        ],
        engine: "explicit-state enumeration over the real authentication state machines + vsched runs of real NodeServer sessions over in-memory pipes",
    }
}
