//! C18 — duplicate connections converge on one and the same link.
use std::collections::BTreeSet;
use std::sync::Arc;

use ractor_cluster::verif::elect_sessions;
use serde_json::json;
use vsched::report::{EnumCtx, EnumResult, Plan, Unit};

/// a physical connection: who dialled, and the nonce it carries (0 = legacy / absent)
#[derive(Clone, Copy, Debug, PartialEq, Eq, PartialOrd, Ord)]
struct Conn {
    by_a: bool,
    nonce: u64,
}

fn perms(n: usize) -> Vec<Vec<usize>> {
    fn rec(cur: &mut Vec<usize>, used: &mut Vec<bool>, n: usize, out: &mut Vec<Vec<usize>>) {
        if cur.len() == n {
            out.push(cur.clone());
            return;
        }
        for i in 0..n {
            if !used[i] {
                used[i] = true;
                cur.push(i);
                rec(cur, used, n, out);
                cur.pop();
                used[i] = false;
            }
        }
    }
    let mut out = Vec::new();
    rec(&mut Vec::new(), &mut vec![false; n], n, &mut out);
    out
}

fn election_sweep(ctx: &EnumCtx, max_conns: usize) -> EnumResult {
    let mut res = EnumResult::default();
    let nonces = [0u64, 1, 2, 3];
    let mut all_conns: Vec<Conn> = Vec::new();
    for by_a in [true, false] {
        for nonce in nonces {
            all_conns.push(Conn { by_a, nonce });
        }
    }
    // multisets of connections of size 1..=max_conns
    let mut sets: Vec<Vec<Conn>> = Vec::new();
    fn rec(start: usize, all: &[Conn], cur: &mut Vec<Conn>, max: usize, out: &mut Vec<Vec<Conn>>) {
        if !cur.is_empty() {
            out.push(cur.clone());
        }
        if cur.len() == max {
            return;
        }
        for i in start..all.len() {
            cur.push(all[i]);
            rec(i, all, cur, max, out);
            cur.pop();
        }
    }
    rec(0, &all_conns, &mut Vec::new(), max_conns, &mut sets);
    let mut idx = 0usize;
    for (na, nb) in [("a@host", "b@host"), ("b@host", "a@host")] {
        for set in &sets {
            idx += 1;
            if idx % ctx.shard.1 != ctx.shard.0 {
                continue;
            }
            let n = set.len();
            let id_perms = perms(n);
            // the election at one node for one assignment of actor ids, in one examination order
            let run = |this: &str, peer: &str, this_is_a: bool, ids: &Vec<usize>, order: &Vec<usize>| -> BTreeSet<usize> {
                let cands: Vec<(u64, bool, u64)> = order
                    .iter()
                    .map(|i| {
                        let c = set[*i];
                        // a connection dialled by the peer is a server-side session here
                        let is_server = c.by_a != this_is_a;
                        (ids[*i] as u64 + 1, is_server, c.nonce)
                    })
                    .collect();
                let winners = elect_sessions(this, peer, &cands);
                winners.into_iter().map(|pid| ids.iter().position(|x| *x as u64 + 1 == pid).unwrap()).collect()
            };
            let distinct = {
                let mut s = set.clone();
                s.sort();
                s.dedup();
                s.len() == n && set.iter().all(|c| c.nonce != 0)
            };
            for ids_a in &id_perms {
                let base_a = run(na, nb, na == "a@host", ids_a, &(0..n).collect());
                res.evaluations += 1;
                res.states += 1;
                if n > 1 {
                    res.distinct_nontrivial += 1;
                }
                // independence of the examination order
                for order in &id_perms {
                    let w = run(na, nb, na == "a@host", ids_a, order);
                    res.transitions += 1;
                    if w != base_a {
                        if res.violations.len() < 5 {
                            res.violations.push((format!("the elected set depends on the order candidates are examined in: {base_a:?} vs {w:?}"), json!({"connections": format!("{set:?}"), "order": order})));
                        }
                    }
                }
                if base_a.is_empty() {
                    res.violations.push(("the election kept no connection at all".into(), json!({"connections": format!("{set:?}")})));
                }
                for ids_b in id_perms.iter().take(if n <= 3 { usize::MAX } else { 6 }) {
                    let base_b = run(nb, na, nb == "a@host", ids_b, &(0..n).collect());
                    res.transitions += 1;
                    *res.outcomes.entry(format!("{}|{}", base_a.len(), base_b.len())).or_insert(0) += 1;
                    if base_a.intersection(&base_b).next().is_none() {
                        if res.violations.len() < 5 {
                            res.violations.push((
                                format!("the two nodes keep different physical connections: {:?} vs {:?}", base_a, base_b),
                                json!({"connections": format!("{set:?}"), "names": [na, nb]}),
                            ));
                        }
                    }
                    if distinct && (base_a.len() != 1 || base_b.len() != 1 || base_a != base_b) {
                        if res.violations.len() < 5 {
                            res.violations.push((
                                format!("all connections are distinguishable but the nodes keep {:?} and {:?}", base_a, base_b),
                                json!({"connections": format!("{set:?}"), "names": [na, nb]}),
                            ));
                        }
                    }
                    // the accepting side of a tie decides for exactly one
                    for (w, this_is_a) in [(&base_a, na == "a@host"), (&base_b, nb == "a@host")] {
                        let all_accepting = w.iter().all(|i| set[*i].by_a != this_is_a);
                        if all_accepting && w.len() != 1 {
                            res.violations.push((format!("the accepting side kept {} connections", w.len()), json!({"connections": format!("{set:?}")})));
                        }
                    }
                }
            }
        }
    }
    res.exhaustive = true;
    res.note = format!("both name orders x every multiset of 1..={max_conns} connections (dialled by either node, nonce in {{0 (legacy),1,2,3}}) x every assignment of actor ids at both nodes x every examination order");
    res.samples.push(json!({"connections": "[A dials nonce 1, B dials nonce 2]", "expected": "both nodes keep the same single connection"}));
    res
}

pub fn plan(tier: &str) -> Plan {
    let thorough = tier == "thorough";
    let n = if thorough { 4 } else { 3 };
    let mut units = vec![Unit::enumerate("election/function", 16, Arc::new(move |c: &EnumCtx| election_sweep(c, n)))];
    units.extend(crate::nodes::c18_units(thorough));
    Plan {
        property: "C18",
        units,
        rule: "exhaustive enumeration through the real elect_sessions: both name orders x every multiset of up to 3 (quick) / 4 (thorough) connections (dialled by either side, nonce 0..3) x every actor-id assignment at both nodes x every examination order; oracle: order independence, a common surviving physical connection, exactly one and the same when connections are distinguishable, exactly one on the accepting side of a tie; plus two real NodeServers in one process joined by in-memory pipes with simultaneous / repeated / legacy dials and an unauthenticated connection claiming the peer's name, schedules explored within the deviation bound; non-trivial = more than one candidate".into(),
        assumptions: vec![
            "two-node runs restrict deviations to the session / transport tasks of the two NodeServers (listeners and ping loops keep their default)".into(),
        ],
        engine: "explicit enumeration over the real election function + vsched runs of two real NodeServers over in-memory pipes",
    }
}
