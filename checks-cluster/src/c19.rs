//! C19 — wire decoding is total, bounded and round-trips.
use std::pin::Pin;
use std::sync::{Arc, Mutex};
use std::task::{Context, Poll};

use prost::Message as _;
use ractor::message::SerializedMessage;
use ractor::thread_local::{ThreadLocalActor, ThreadLocalActorSpawner};
use ractor::{Actor, ActorProcessingErr, ActorRef, ActorStatus, BytesConvertable, Message, RpcReplyPort};
use ractor_cluster::verif::proto;
use ractor_cluster::verif::VerifFrameReader;
use ractor_cluster::RactorClusterMessage;
use serde_json::json;
use tokio::io::{AsyncRead, ReadBuf};
use vsched::explore::Job;
use vsched::report::{EnumCtx, EnumResult, Plan, Unit};
use vsched::{ExecCfg, Outcome};

// ------------------------------------------------------------------------------------------------
// frame reader
// ------------------------------------------------------------------------------------------------

/// Delivers `data` cut at the given offsets, returning Pending once before every read
struct Scripted {
    data: Vec<u8>,
    cuts: Vec<usize>,
    pos: usize,
    armed: bool,
    /// `buf.remaining()` of every poll that found data or EOF
    requested: Arc<Mutex<Vec<usize>>>,
    polls: usize,
}

impl AsyncRead for Scripted {
    fn poll_read(mut self: Pin<&mut Self>, cx: &mut Context<'_>, buf: &mut ReadBuf<'_>) -> Poll<std::io::Result<()>> {
        self.polls += 1;
        if !self.armed {
            self.armed = true;
            cx.waker().wake_by_ref();
            return Poll::Pending;
        }
        self.armed = false;
        self.requested.lock().unwrap().push(buf.remaining());
        let next_cut = self.cuts.iter().copied().find(|c| *c > self.pos).unwrap_or(self.data.len());
        let end = next_cut.min(self.data.len()).min(self.pos + buf.remaining());
        let (a, b) = (self.pos, end);
        buf.put_slice(&self.data[a..b]);
        self.pos = b;
        Poll::Ready(Ok(()))
    }
}

struct ReadAll {
    frames: Vec<Result<proto::NetworkMessage, String>>,
    requested: Vec<usize>,
    panicked: bool,
}

fn read_all(data: Vec<u8>, cuts: Vec<usize>, max: u64) -> ReadAll {
    read_all_on(data, cuts, max, false)
}

/// `tcp`: through the reader's plain-TCP arm (a stand-in read half with tokio's readiness semantics: `readable()`
/// may return although nothing can be read, the flag is only cleared by a read that finds the socket empty)
fn read_all_on(data: Vec<u8>, cuts: Vec<usize>, max: u64, tcp: bool) -> ReadAll {
    let requested = Arc::new(Mutex::new(Vec::new()));
    let r2 = requested.clone();
    let res = std::panic::catch_unwind(std::panic::AssertUnwindSafe(move || {
        futures::executor::block_on(async move {
            let scripted = Box::new(Scripted { data, cuts, pos: 0, armed: false, requested: r2, polls: 0 });
            let mut rd = if tcp { VerifFrameReader::new_tcp(scripted) } else { VerifFrameReader::new(scripted) };
            let mut frames = Vec::new();
            for _ in 0..64 {
                match rd.read(max).await {
                    Ok(m) => frames.push(Ok(m)),
                    Err(e) => {
                        frames.push(Err(format!("{:?}", e.kind())));
                        break;
                    }
                }
            }
            frames
        })
    }));
    let requested = requested.lock().unwrap().clone();
    match res {
        Ok(frames) => ReadAll { frames, requested, panicked: false },
        Err(_) => ReadAll { frames: vec![], requested, panicked: true },
    }
}

const MAX_FRAME: u64 = 16;

fn frames_byte_streams(ctx: &EnumCtx, len: usize) -> EnumResult {
    let alphabet = [0x00u8, 0x01, 0x08, 0x7f, 0x80, 0xff];
    let mut res = EnumResult::default();
    let total = (0..=len).map(|l| alphabet.len().pow(l as u32)).sum::<usize>();
    let mut idx = 0usize;
    for l in 0..=len {
        for code in 0..alphabet.len().pow(l as u32) {
            idx += 1;
            if idx % ctx.shard.1 != ctx.shard.0 {
                continue;
            }
            let mut c = code;
            let data: Vec<u8> = (0..l)
                .map(|_| {
                    let b = alphabet[c % alphabet.len()];
                    c /= alphabet.len();
                    b
                })
                .collect();
            let r = read_all(data.clone(), vec![], MAX_FRAME);
            res.evaluations += 1;
            res.states += 1;
            res.transitions += r.requested.len() as u64;
            if l >= 8 {
                res.distinct_nontrivial += 1;
            }
            let key = if r.panicked { "panic".to_string() } else { format!("{} frames, {:?}", r.frames.iter().filter(|f| f.is_ok()).count(), r.frames.last().map(|f| f.as_ref().err().cloned())) };
            *res.outcomes.entry(key).or_insert(0) += 1;
            let mut bad = |c: String| {
                if res.violations.len() < 5 {
                    res.violations.push((c, json!({"stream": data})));
                }
            };
            if r.panicked {
                bad("the frame reader panicked".into());
                continue;
            }
            if !matches!(r.frames.last(), Some(Err(_))) {
                bad("the frame reader neither failed nor reached the end of a finite stream".into());
            }
            // never asks for more than one chunk, never reads a payload beyond the limit
            if r.requested.iter().any(|n| *n > 8 * 1024) {
                bad(format!("a read of {} bytes was requested", r.requested.iter().max().unwrap()));
            }
            if l >= 8 {
                let declared = u64::from_be_bytes(data[..8].try_into().unwrap());
                if declared > MAX_FRAME {
                    // header: 8 bytes (possibly over several reads); nothing may be requested afterwards
                    let consumed: usize = 8;
                    let reads_after_header: Vec<&usize> = r.requested.iter().skip_while({
                        let mut got = 0usize;
                        move |n| {
                            let before = got;
                            got += (**n).min(consumed - before.min(consumed));
                            before < consumed
                        }
                    }).collect();
                    if !reads_after_header.is_empty() {
                        bad(format!("declared length {declared} exceeds the limit {MAX_FRAME} but the reader went on reading: {:?}", r.requested));
                    }
                    if r.frames.len() != 1 {
                        bad("an oversized frame did not end the stream".into());
                    }
                }
            }
        }
    }
    res.exhaustive = true;
    res.note = format!("all {total} byte streams of length <= {len} over {alphabet:02x?}, limit {MAX_FRAME}; shard {}/{}", ctx.shard.0, ctx.shard.1);
    if res.samples.is_empty() {
        res.samples.push(json!({"stream": [0, 0, 0, 0, 0, 0, 0, 1, 8], "meaning": "declared length 1, payload 0x08"}));
    }
    res
}

fn frames_boundary_headers(_ctx: &EnumCtx) -> EnumResult {
    let mut res = EnumResult::default();
    let max = MAX_FRAME;
    let headers: Vec<u64> = vec![0, 1, max - 1, max, max + 1, 1 << 31, 1 << 63, u64::MAX, isize::MAX as u64, isize::MAX as u64 + 1];
    for h in &headers {
        for extra in 0..=3usize {
            for fill in [0x00u8, 0x08, 0xff] {
                let mut data = h.to_be_bytes().to_vec();
                data.extend(std::iter::repeat_n(fill, extra));
                for cuts in [vec![], vec![1], vec![4, 8], vec![8]] {
                    let r = read_all(data.clone(), cuts.clone(), max);
                    res.evaluations += 1;
                    res.states += 1;
                    res.transitions += r.requested.len() as u64;
                    res.distinct_nontrivial += 1;
                    *res.outcomes.entry(format!("{:?}", r.frames.iter().map(|f| f.is_ok()).collect::<Vec<_>>())).or_insert(0) += 1;
                    if r.panicked {
                        res.violations.push(("the frame reader panicked".into(), json!({"header": h.to_string(), "extra": extra})));
                        continue;
                    }
                    if *h > max {
                        let total: usize = r.requested.iter().sum();
                        // at most the 8 header bytes (requested possibly in pieces) were asked for
                        let header_requests: usize = 8 + cuts.len() * 8;
                        if total > header_requests || r.frames.iter().any(|f| f.is_ok()) {
                            res.violations.push((
                                format!("header {h} exceeds the limit {max}: the reader requested {:?} and returned {} frames", r.requested, r.frames.len()),
                                json!({"header": h.to_string(), "extra": extra, "cuts": cuts}),
                            ));
                        }
                    }
                    if r.requested.iter().any(|n| *n > 8 * 1024) {
                        res.violations.push((format!("a read of {:?} bytes was requested", r.requested.iter().max()), json!({"header": h.to_string()})));
                    }
                }
            }
        }
    }
    res.exhaustive = true;
    res.note = format!("{} boundary headers x 0..3 payload bytes x 3 fill bytes x 4 fragmentations", headers.len());
    res.samples.push(json!({"header": (max + 1).to_string(), "extra_payload_bytes": 2}));
    res
}

fn sample_messages() -> Vec<proto::NetworkMessage> {
    use proto::auth as a;
    use proto::control as c;
    use proto::meta::network_message::Message as M;
    use proto::node as n;
    vec![
        proto::NetworkMessage { message: Some(M::Control(c::ControlMessage { msg: Some(c::control_message::Msg::Ready(c::Ready {})) })) },
        proto::NetworkMessage { message: Some(M::Auth(a::AuthenticationMessage { msg: Some(a::authentication_message::Msg::ClientStatus(a::ClientStatus { status: true })) })) },
        proto::NetworkMessage { message: Some(M::Node(n::NodeMessage { msg: Some(n::node_message::Msg::Cast(n::Cast { to: 1, what: vec![7], variant: "v".into(), metadata: None })) })) },
        proto::NetworkMessage { message: Some(M::Control(c::ControlMessage { msg: Some(c::control_message::Msg::Terminate(c::Terminate { ids: vec![3] })) })) },
        proto::NetworkMessage { message: None },
    ]
}

fn frames_all_splits(ctx: &EnumCtx, max_cuts_for_pairs: usize) -> EnumResult {
    frames_all_splits_on(ctx, max_cuts_for_pairs, false)
}

fn frames_all_splits_on(ctx: &EnumCtx, max_cuts_for_pairs: usize, tcp: bool) -> EnumResult {
    let mut res = EnumResult::default();
    let msgs = sample_messages();
    let enc = |m: &proto::NetworkMessage| {
        let mut b = Vec::new();
        VerifFrameReader::encode(m, &mut b);
        b
    };
    let mut streams: Vec<(Vec<u8>, Vec<proto::NetworkMessage>)> = Vec::new();
    for m in &msgs {
        streams.push((enc(m), vec![m.clone()]));
    }
    let mut pairs: Vec<(Vec<u8>, Vec<proto::NetworkMessage>)> = Vec::new();
    for a in &msgs {
        for b in &msgs {
            let mut s = enc(a);
            s.extend(enc(b));
            pairs.push((s, vec![a.clone(), b.clone()]));
        }
    }
    let mut check = |data: &Vec<u8>, want: &Vec<proto::NetworkMessage>, cuts: Vec<usize>, res: &mut EnumResult| {
        let r = read_all_on(data.clone(), cuts.clone(), 64, tcp);
        res.evaluations += 1;
        res.states += 1;
        res.transitions += r.requested.len() as u64;
        if !cuts.is_empty() {
            res.distinct_nontrivial += 1;
        }
        let got: Vec<proto::NetworkMessage> = r.frames.iter().filter_map(|f| f.as_ref().ok().cloned()).collect();
        *res.outcomes.entry(format!("{} frames", got.len())).or_insert(0) += 1;
        if r.panicked || got != *want || !matches!(r.frames.last(), Some(Err(e)) if e == "UnexpectedEof") {
            if res.violations.len() < 5 {
                res.violations.push((
                    format!("fragmentation {cuts:?} of a valid stream decoded {} frames (panicked={}), expected {}: {:?}", got.len(), r.panicked, want.len(), r.frames.iter().map(|f| f.as_ref().err()).collect::<Vec<_>>()),
                    json!({"stream": data, "cuts": cuts}),
                ));
            }
        }
    };
    // single frames: every one of the 2^(n-1) fragmentations
    for (i, (data, want)) in streams.iter().enumerate() {
        if i % ctx.shard.1 != ctx.shard.0 {
            continue;
        }
        let n = data.len();
        for mask in 0u64..(1u64 << (n - 1)) {
            let cuts: Vec<usize> = (1..n).filter(|p| mask & (1 << (p - 1)) != 0).collect();
            check(data, want, cuts, &mut res);
        }
        if res.samples.len() < 2 {
            res.samples.push(json!({"stream": data, "fragmentations": 1u64 << (n - 1)}));
        }
    }
    // two frames: every fragmentation with up to `max_cuts_for_pairs` cut points
    for (i, (data, want)) in pairs.iter().enumerate() {
        if i % ctx.shard.1 != ctx.shard.0 {
            continue;
        }
        let n = data.len();
        let mut cuts: Vec<usize> = Vec::new();
        fn rec(start: usize, n: usize, left: usize, cuts: &mut Vec<usize>, f: &mut dyn FnMut(&Vec<usize>)) {
            f(cuts);
            if left == 0 {
                return;
            }
            for p in start..n {
                cuts.push(p);
                rec(p + 1, n, left - 1, cuts, f);
                cuts.pop();
            }
        }
        let mut all: Vec<Vec<usize>> = Vec::new();
        rec(1, n, max_cuts_for_pairs, &mut cuts, &mut |c| all.push(c.clone()));
        for c in all {
            check(data, want, c, &mut res);
        }
    }
    res.exhaustive = true;
    res.note = format!("5 single frames under every fragmentation; 25 two-frame streams under every fragmentation with <= {max_cuts_for_pairs} cuts; a Pending before every read{}", if tcp { "; through the plain-TCP arm of the reader (stand-in read half, tokio readiness semantics)" } else { "" });
    res
}

// ------------------------------------------------------------------------------------------------
// generated decoders, BytesConvertable, job metadata
// ------------------------------------------------------------------------------------------------

#[derive(RactorClusterMessage, Debug)]
pub enum Wire {
    Unit,
    Tuple(u8, String),
    Named { a: u16, b: Vec<u8> },
    Wide(u64, i128, bool, char),
    #[rpc]
    Call0(RpcReplyPort<u8>),
    #[rpc]
    CallFirst(RpcReplyPort<String>, u32),
    #[rpc]
    CallMid(u8, RpcReplyPort<Vec<u8>>, i64),
    #[rpc]
    CallLast(String, RpcReplyPort<u16>),
    #[rpc]
    CallNamed0 { reply: RpcReplyPort<u8> },
    #[rpc]
    CallNamed { x: u8, reply: RpcReplyPort<u8> },
}

const TAGS: &[&str] = &["Unit", "Tuple", "Named", "Wide", "Call0", "CallFirst", "CallMid", "CallLast", "CallNamed0", "CallNamed", "Unknown", "", "unit"];
const VALID_TAGS: usize = 10;

fn decoders(ctx: &EnumCtx, len: usize) -> EnumResult {
    let mut res = EnumResult::default();
    let alphabet = [0x00u8, 0x01, 0x02, 0x08, 0xff];
    let mut inputs: Vec<Vec<u8>> = Vec::new();
    for l in 0..=len {
        for code in 0..alphabet.len().pow(l as u32) {
            let mut c = code;
            inputs.push(
                (0..l)
                    .map(|_| {
                        let b = alphabet[c % alphabet.len()];
                        c /= alphabet.len();
                        b
                    })
                    .collect(),
            );
        }
    }
    // structured: length prefixes that are 0, exact, short, long, and huge
    for plen in [0u64, 1, 2, 3, 8, 9, u64::MAX, 1 << 63, u32::MAX as u64] {
        for body in 0..=3usize {
            let mut v = plen.to_be_bytes().to_vec();
            v.extend(std::iter::repeat_n(0x41, body));
            inputs.push(v.clone());
            // followed by a second, well-formed argument
            v.extend(1u64.to_be_bytes());
            v.push(7);
            inputs.push(v);
        }
    }
    let mut idx = 0usize;
    for tag in TAGS {
        for call in [false, true] {
            for args in &inputs {
                idx += 1;
                if idx % ctx.shard.1 != ctx.shard.0 {
                    continue;
                }
                let sm = if call {
                    let (tx, _rx) = ractor::concurrency::oneshot::<Vec<u8>>();
                    SerializedMessage::Call { variant: tag.to_string(), args: args.clone(), reply: tx.into(), metadata: None }
                } else {
                    SerializedMessage::Cast { variant: tag.to_string(), args: args.clone(), metadata: None }
                };
                let r = std::panic::catch_unwind(std::panic::AssertUnwindSafe(|| <Wire as Message>::deserialize(sm)));
                res.evaluations += 1;
                res.states += 1;
                res.transitions += 1;
                if args.len() >= 8 {
                    res.distinct_nontrivial += 1;
                }
                match r {
                    Err(_) => {
                        if res.violations.len() < 5 {
                            res.violations.push(("a generated decoder panicked".into(), json!({"variant": tag, "call": call, "args": args})));
                        }
                    }
                    Ok(Ok(m)) => {
                        *res.outcomes.entry(format!("ok:{tag}")).or_insert(0) += 1;
                        let is_call_variant = tag.starts_with("Call");
                        if !TAGS[..VALID_TAGS].contains(tag) || is_call_variant != call {
                            res.violations.push((format!("decoded {m:?} from variant {tag:?} (call={call})"), json!({"args": args})));
                        }
                        // an accepted payload is framed exactly: as many [u64 length][bytes] fields as the variant
                        // has data arguments, and nothing after the last of them (what a fixed-size conversion does
                        // with a field that is longer than the type is its own, lenient, business)
                        let fields = match *tag {
                            "Unit" | "Call0" | "CallNamed0" => 0usize,
                            "CallFirst" | "CallLast" | "CallNamed" => 1,
                            "Tuple" | "Named" | "CallMid" => 2,
                            "Wide" => 4,
                            _ => usize::MAX,
                        };
                        if fields != usize::MAX {
                            let mut pos = 0usize;
                            let mut ok = true;
                            for _ in 0..fields {
                                if pos + 8 > args.len() {
                                    ok = false;
                                    break;
                                }
                                let l = u64::from_be_bytes(args[pos..pos + 8].try_into().unwrap());
                                pos += 8;
                                match usize::try_from(l).ok().and_then(|l| pos.checked_add(l)) {
                                    Some(e) if e <= args.len() => pos = e,
                                    _ => {
                                        ok = false;
                                        break;
                                    }
                                }
                            }
                            if (!ok || pos != args.len()) && res.violations.len() < 5 {
                                res.violations.push((
                                    format!("variant {tag:?} (call={call}, {fields} data argument(s)) accepted {} argument bytes as {m:?} although its framing ends at byte {pos}: short or trailing bytes were accepted", args.len()),
                                    json!({"args": args}),
                                ));
                            }
                        }
                    }
                    Ok(Err(_)) => {
                        *res.outcomes.entry("err".into()).or_insert(0) += 1;
                        if *tag == "Unit" && !call && args.is_empty() {
                            res.violations.push(("the unit variant with no arguments did not decode".into(), json!({})));
                        }
                    }
                }
            }
        }
    }
    res.exhaustive = true;
    res.note = format!("{} variant tags x cast/call x {} argument byte strings (all strings of length <= {len} over {alphabet:02x?} plus length-prefix boundary shapes)", TAGS.len(), inputs.len());
    res.samples.push(json!({"variant": "Tuple", "args": [0, 0, 0, 0, 0, 0, 0, 1, 7, 255, 255, 255, 255, 255, 255, 255, 255]}));
    res
}

fn round_trips(_ctx: &EnumCtx) -> EnumResult {
    let mut res = EnumResult::default();
    macro_rules! rt {
        ($ty:ty, $vals:expr) => {
            for v in $vals {
                let orig: $ty = v;
                let shown = format!("{:?}", orig);
                let r = std::panic::catch_unwind(std::panic::AssertUnwindSafe(|| <$ty as BytesConvertable>::from_bytes(<$ty as BytesConvertable>::into_bytes(orig.clone()))));
                res.evaluations += 1;
                res.states += 1;
                res.transitions += 1;
                res.distinct_nontrivial += 1;
                *res.outcomes.entry(stringify!($ty).to_string()).or_insert(0) += 1;
                match r {
                    Ok(back) => {
                        if format!("{:?}", back) != shown {
                            res.violations.push((format!("{} {} decodes as {:?}", stringify!($ty), shown, back), json!({})));
                        }
                    }
                    Err(_) => res.violations.push((format!("{} {} panics on round trip", stringify!($ty), shown), json!({}))),
                }
            }
        };
    }
    macro_rules! ints {
        ($($ty:ty),*) => { $( rt!($ty, [<$ty>::MIN, (0 as $ty).wrapping_sub(1), 0, 1, <$ty>::MAX, <$ty>::MAX / 3]); rt!(Vec<$ty>, [vec![], vec![<$ty>::MIN], vec![0, 1, <$ty>::MAX], vec![<$ty>::MAX; 3]]); )* };
    }
    ints!(i8, i16, i32, i64, i128, u8, u16, u32, u64, u128);
    rt!(f32, [0.0f32, -0.0, 1.5, f32::MIN, f32::MAX, f32::INFINITY, f32::EPSILON]);
    rt!(f64, [0.0f64, -0.0, 1.5, f64::MIN, f64::MAX, f64::NEG_INFINITY, f64::EPSILON]);
    rt!(Vec<f32>, [vec![], vec![1.0f32, -2.5], vec![f32::MAX; 2]]);
    rt!(Vec<f64>, [vec![], vec![1.0f64, -2.5], vec![f64::MIN; 2]]);
    rt!(bool, [true, false]);
    rt!(Vec<bool>, [vec![], vec![true], vec![false, true, true]]);
    rt!(char, ['\0', 'a', '\u{7f}', '\u{80}', '\u{d7ff}', '\u{e000}', '\u{10ffff}', 'é']);
    rt!(Vec<char>, [vec![], vec!['a', '\u{10ffff}'], vec!['\u{e000}'; 3]]);
    rt!(String, [String::new(), "a".to_string(), "héllo\u{10ffff}".to_string(), "\0\0".to_string()]);
    rt!((), [()]);
    // derived enums: values of every variant
    let vals: Vec<Wire> = vec![
        Wire::Unit,
        Wire::Tuple(0, String::new()),
        Wire::Tuple(255, "x\u{10ffff}".into()),
        Wire::Named { a: 0, b: vec![] },
        Wire::Named { a: u16::MAX, b: vec![0, 255, 8] },
        Wire::Wide(u64::MAX, i128::MIN, true, '\u{10ffff}'),
        Wire::Wide(0, -1, false, '\0'),
    ];
    for v in vals {
        let shown = format!("{v:?}");
        let r = std::panic::catch_unwind(std::panic::AssertUnwindSafe(|| v.serialize().and_then(<Wire as Message>::deserialize)));
        res.evaluations += 1;
        res.states += 1;
        res.transitions += 1;
        res.distinct_nontrivial += 1;
        match r {
            Ok(Ok(back)) if format!("{back:?}") == shown => {}
            other => res.violations.push((format!("derived enum value {shown} round-trips as {:?}", other.map(|r| r.map(|m| format!("{m:?}")).map_err(|_| "Err"))), json!({}))),
        }
    }
    // calls: the data fields survive, the port is re-created
    for (i, v) in [0u8, 1, 2].into_iter().enumerate() {
        let (tx, _rx) = ractor::concurrency::oneshot();
        let m = match i {
            0 => Wire::CallFirst(tx.into(), 77),
            1 => {
                let (t2, _r) = ractor::concurrency::oneshot();
                drop(tx);
                Wire::CallMid(v, t2.into(), -5)
            }
            _ => {
                let (t3, _r) = ractor::concurrency::oneshot();
                drop(tx);
                Wire::CallLast("z".into(), t3.into())
            }
        };
        // the generated port serializer spawns a forwarding task: not available outside an executor;
        // only the (already covered) decoder side is enumerated for calls
        drop(m);
    }
    res.exhaustive = true;
    res.note = "encode followed by decode for every supported type over boundary values".into();
    res.samples.push(json!({"type": "i128", "value": i128::MIN.to_string()}));
    res
}

fn job_metadata(_ctx: &EnumCtx) -> EnumResult {
    use ractor::factory::{Job, JobOptions};
    let mut res = EnumResult::default();
    let mut metas: Vec<Option<Vec<u8>>> = vec![None];
    for l in 0..=6usize {
        for code in 0..3usize.pow(l as u32) {
            let mut c = code;
            metas.push(Some(
                (0..l)
                    .map(|_| {
                        let b = [0x00u8, 0x01, 0xff][c % 3];
                        c /= 3;
                        b
                    })
                    .collect(),
            ));
        }
    }
    for l in [7usize, 8, 15, 16, 17, 18, 24] {
        for code in 0..3usize.pow(5) {
            let mut v = vec![0u8; l];
            let mut c = code;
            for p in [0usize, 7, 8, 15, 16] {
                if p < l {
                    v[p] = [0x00u8, 0x01, 0xff][c % 3];
                }
                c /= 3;
            }
            metas.push(Some(v));
        }
    }
    for m in &metas {
        for args in [vec![], vec![0u8; 8], vec![0, 0, 0, 0, 0, 0, 0, 42]] {
            let sm = SerializedMessage::Cast { variant: String::new(), args: args.clone(), metadata: m.clone() };
            let r = std::panic::catch_unwind(std::panic::AssertUnwindSafe(|| <Job<u64, u64> as Message>::deserialize(sm)));
            res.evaluations += 1;
            res.states += 1;
            res.transitions += 1;
            if m.as_ref().is_some_and(|m| m.len() >= 16) {
                res.distinct_nontrivial += 1;
            }
            let k = match &r {
                Err(_) => "decoder panicked (caught by the receiving actor)",
                Ok(Ok(_)) => "ok",
                Ok(Err(_)) => "err",
            };
            *res.outcomes.entry(k.to_string()).or_insert(0) += 1;
            if let Ok(Ok(j)) = &r {
                let ml = m.as_ref().map(|m| m.len()).unwrap_or(0);
                if ml < 16 + 8 || args.len() < 8 {
                    res.violations.push((format!("a job decoded from {ml} metadata bytes and {} argument bytes: {:?}", args.len(), j), json!({"metadata": m})));
                }
            }
        }
        if let Some(m) = m {
            // the options decoder alone never panics
            let r = std::panic::catch_unwind(|| JobOptions::from_bytes(m.clone()));
            res.evaluations += 1;
            if r.is_err() {
                res.violations.push(("JobOptions::from_bytes panicked".into(), json!({"bytes": m})));
            }
        }
    }
    res.exhaustive = true;
    res.note = format!("{} metadata strings (all of length <= 6 over 3 symbols, boundary lengths 7..24 with varied bytes at the field edges) x 3 argument strings", metas.len());
    res.samples.push(json!({"metadata_len": 17}));
    res
}

/// factory jobs round-trip: key (of every kind of encoding: empty, one byte, eight bytes, long), options (with
/// and without a TTL) and message come back as they went in, as a cast and as a call
fn job_round_trip(_ctx: &EnumCtx) -> EnumResult {
    use ractor::factory::{Job, JobKey, JobOptions};
    let mut res = EnumResult::default();
    fn one<K: JobKey + PartialEq + std::fmt::Debug>(key: K, ttl: Option<std::time::Duration>, msg: u64, res: &mut EnumResult) {
        let what = format!("Job {{ key: {key:?}, ttl: {ttl:?}, msg: {msg} }}");
        let job = Job::with_options(key.clone(), msg, JobOptions::new(ttl));
        res.evaluations += 1;
        res.states += 1;
        res.distinct_nontrivial += 1;
        let ser = std::panic::catch_unwind(std::panic::AssertUnwindSafe(|| <Job<K, u64> as Message>::serialize(job)));
        let Ok(Ok(sm)) = ser else {
            res.violations.push((format!("{what} does not serialize"), json!({})));
            return;
        };
        let back = std::panic::catch_unwind(std::panic::AssertUnwindSafe(|| <Job<K, u64> as Message>::deserialize(sm)));
        match back {
            Ok(Ok(j)) => {
                *res.outcomes.entry("round-trip".to_string()).or_insert(0) += 1;
                if j.key != key || j.msg != msg || j.options.ttl() != ttl {
                    res.violations.push((format!("{what} came back as key {:?}, ttl {:?}, msg {}", j.key, j.options.ttl(), j.msg), json!({})));
                }
            }
            Ok(Err(_)) => res.violations.push((format!("{what} serializes but its own encoding is rejected by the decoder"), json!({}))),
            Err(_) => res.violations.push((format!("{what} serializes but decoding its own encoding panics"), json!({}))),
        }
    }
    // (a TTL of exactly zero is not in the domain: the options' wire format reserves 0 for "no TTL", see DESIGN.md
    // 10.6)
    for ttl in [None, Some(std::time::Duration::from_nanos(1)), Some(std::time::Duration::from_millis(1500)), Some(std::time::Duration::from_secs(86_400))] {
        for msg in [0u64, 42, u64::MAX] {
            one((), ttl, msg, &mut res);
            one(String::new(), ttl, msg, &mut res);
            one("k".to_string(), ttl, msg, &mut res);
            one("a-much-longer-routing-key-0123456789".to_string(), ttl, msg, &mut res);
            one(Vec::<u8>::new(), ttl, msg, &mut res);
            one(vec![0u8], ttl, msg, &mut res);
            one(0u64, ttl, msg, &mut res);
            one(u64::MAX, ttl, msg, &mut res);
            one(7u8, ttl, msg, &mut res);
        }
    }
    res.exhaustive = true;
    res.note = "9 keys (empty, short, 8-byte and long encodings) x 4 TTLs x 3 messages".into();
    res
}

// ------------------------------------------------------------------------------------------------
// through a live actor: an undecodable payload is dropped, the actor keeps working
// ------------------------------------------------------------------------------------------------

#[derive(Default)]
struct Receiver;
type L = Arc<Mutex<Vec<String>>>;
impl Actor for Receiver {
    type Msg = Wire;
    type State = L;
    type Arguments = L;
    async fn pre_start(&self, _m: ActorRef<Wire>, l: L) -> Result<L, ActorProcessingErr> {
        Ok(l)
    }
    async fn handle(&self, _m: ActorRef<Wire>, m: Wire, l: &mut L) -> Result<(), ActorProcessingErr> {
        l.lock().unwrap().push(format!("{m:?}"));
        Ok(())
    }
}

/// a message type whose decoder panics outright
#[derive(Debug)]
struct Explosive(u8);
impl Message for Explosive {
    fn serializable() -> bool {
        true
    }
    fn serialize(self) -> Result<SerializedMessage, ractor::message::BoxedDowncastErr> {
        Ok(SerializedMessage::Cast { variant: "e".into(), args: vec![self.0], metadata: None })
    }
    fn deserialize(m: SerializedMessage) -> Result<Self, ractor::message::BoxedDowncastErr> {
        match m {
            SerializedMessage::Cast { args, .. } if args.len() == 1 => Ok(Explosive(args[0])),
            SerializedMessage::Cast { args, .. } if args.is_empty() => Err(ractor::message::BoxedDowncastErr),
            _ => panic!("decoder blew up"),
        }
    }
}
#[derive(Default)]
struct ExplosiveRx;
impl Actor for ExplosiveRx {
    type Msg = Explosive;
    type State = L;
    type Arguments = L;
    async fn pre_start(&self, _m: ActorRef<Explosive>, l: L) -> Result<L, ActorProcessingErr> {
        Ok(l)
    }
    async fn handle(&self, _m: ActorRef<Explosive>, m: Explosive, l: &mut L) -> Result<(), ActorProcessingErr> {
        l.lock().unwrap().push(format!("{m:?}"));
        Ok(())
    }
}

/// rpc variants in shapes the first enum does not have: the reply port in front of, or in between, SEVERAL data
/// fields of the same type (so that a decoder which exchanges two of them still type-checks: with mixed types such
/// a decoder would not compile, which is a build failure of the harness, not a verdict)
#[derive(RactorClusterMessage, Debug)]
pub enum Wire2 {
    #[rpc]
    PortFirst2(RpcReplyPort<u8>, u16, u16),
    #[rpc]
    PortSecond3(u8, RpcReplyPort<u8>, u32, u32, u32),
    #[rpc]
    PortFirstMixed(RpcReplyPort<u8>, String, String, String),
    #[rpc]
    PortMiddle(u16, u16, RpcReplyPort<u8>, u16, u16),
    #[rpc]
    PortLast(u64, u64, RpcReplyPort<u8>),
    #[rpc]
    Named3 { a: u8, reply: RpcReplyPort<u8>, b: u8, c: u8 },
}

/// encode followed by decode of call variants (the encoder of a call spawns the task that forwards the reply, so
/// this runs inside the scheduler): every data field comes back in its own position
fn call_round_trip_body() -> vsched::Body {
    Arc::new(move || {
        Box::pin(async move {
            let mut bad = Vec::new();
            fn show(m: &Wire2) -> String {
                match m {
                    Wire2::PortFirst2(_, a, b) => format!("PortFirst2(port, {a}, {b})"),
                    Wire2::PortSecond3(a, _, b, c, d) => format!("PortSecond3({a}, port, {b}, {c}, {d})"),
                    Wire2::PortFirstMixed(_, a, b, c) => format!("PortFirstMixed(port, {a:?}, {b:?}, {c:?})"),
                    Wire2::PortMiddle(a, b, _, c, d) => format!("PortMiddle({a}, {b}, port, {c}, {d})"),
                    Wire2::PortLast(a, b, _) => format!("PortLast({a}, {b}, port)"),
                    Wire2::Named3 { a, b, c, .. } => format!("Named3 {{ a: {a}, port, b: {b}, c: {c} }}"),
                }
            }
            let mut keep = Vec::new();
            let mut port = || {
                let (tx, rx) = ractor::concurrency::oneshot();
                keep.push(rx);
                tx
            };
            let vals = vec![
                Wire2::PortFirst2(port().into(), 1, 2),
                Wire2::PortFirst2(port().into(), u16::MAX, 0),
                Wire2::PortSecond3(9, port().into(), 1, 2, 3),
                Wire2::PortFirstMixed(port().into(), "first".into(), String::new(), "last".into()),
                Wire2::PortMiddle(1, 2, port().into(), 3, 4),
                Wire2::PortLast(1, 2, port().into()),
                Wire2::Named3 { a: 1, reply: port().into(), b: 2, c: 3 },
            ];
            let mut keys = Vec::new();
            for v in vals {
                let shown = show(&v);
                match v.serialize().and_then(<Wire2 as Message>::deserialize) {
                    Ok(back) => {
                        let got = show(&back);
                        if got != shown {
                            bad.push(format!("derived call variant {shown} decodes as {got}"));
                        }
                        keys.push(got);
                    }
                    Err(_) => bad.push(format!("derived call variant {shown} does not round-trip")),
                }
            }
            vsched::quiesce();
            drop(keep);
            vsched::quiesce();
            Outcome { key: format!("{keys:?}"), violations: bad }
        })
    })
}

fn live_body(local: bool, explosive: bool, bad: usize) -> vsched::Body {
    Arc::new(move || {
        Box::pin(async move {
            let log: L = Arc::new(Mutex::new(vec![]));
            let spawner = ThreadLocalActorSpawner::verif_new_local();
            let bads: Vec<SerializedMessage> = vec![
                SerializedMessage::Cast { variant: "Unknown".into(), args: vec![], metadata: None },
                SerializedMessage::Cast { variant: "Tuple".into(), args: vec![0, 0, 0, 0, 0, 0, 0, 9, 1], metadata: None },
                SerializedMessage::Cast { variant: "Unit".into(), args: vec![1], metadata: None },
                SerializedMessage::CallReply(7, vec![1, 2, 3]),
                SerializedMessage::Cast { variant: "Wide".into(), args: vec![0, 0, 0, 0, 0, 0, 0, 1, 5], metadata: None },
            ];
            let (cell, handle) = if explosive {
                let (a, h) = if local {
                    <ExplosiveRx as ThreadLocalActor>::spawn(None, log.clone(), spawner).await.expect("spawn")
                } else {
                    Actor::spawn(None, ExplosiveRx, log.clone()).await.expect("spawn")
                };
                (a.get_cell(), h)
            } else {
                let (a, h) = if local {
                    <Receiver as ThreadLocalActor>::spawn(None, log.clone(), spawner).await.expect("spawn")
                } else {
                    Actor::spawn(None, Receiver, log.clone()).await.expect("spawn")
                };
                (a.get_cell(), h)
            };
            let mut violations = Vec::new();
            let first_good = if explosive {
                SerializedMessage::Cast { variant: "e".into(), args: vec![1], metadata: None }
            } else {
                SerializedMessage::Cast { variant: "Unit".into(), args: vec![], metadata: None }
            };
            let bad_msg = if explosive {
                if bad % 2 == 0 {
                    SerializedMessage::Cast { variant: "e".into(), args: vec![1, 2], metadata: None } // panics in the decoder
                } else {
                    SerializedMessage::Cast { variant: "e".into(), args: vec![], metadata: None } // decoder returns Err
                }
            } else {
                bads.into_iter().nth(bad % 5).unwrap()
            };
            let _ = cell.send_serialized(first_good);
            let _ = cell.send_serialized(bad_msg);
            let second_good = if explosive {
                SerializedMessage::Cast { variant: "e".into(), args: vec![2], metadata: None }
            } else {
                SerializedMessage::Cast { variant: "Named".into(), args: { let mut v = 2u64.to_be_bytes().to_vec(); v.extend([0, 5]); v.extend(0u64.to_be_bytes()); v }, metadata: None }
            };
            let sent = cell.send_serialized(second_good).is_ok();
            vsched::quiesce();
            let l = log.lock().unwrap().clone();
            if cell.get_status() != ActorStatus::Running {
                violations.push(format!("an undecodable payload left the {} actor {:?}; handled so far {l:?}", if local { "thread-local" } else { "Send" }, cell.get_status()));
            }
            if !sent || l.len() != 2 {
                violations.push(format!("the well-formed message after the undecodable one was not handled (accepted={sent}); handled {l:?}"));
            }
            cell.stop(None);
            let _ = handle.await;
            Outcome { key: format!("{l:?}"), violations }
        })
    })
}

pub fn plan(tier: &str) -> Plan {
    let thorough = tier == "thorough";
    let mut units: Vec<Unit> = Vec::new();
    let stream_len = if thorough { 9 } else { 7 };
    units.push(Unit::enumerate("frames/byte-streams", 16, Arc::new(move |c: &EnumCtx| frames_byte_streams(c, stream_len))));
    units.push(Unit::enumerate("frames/boundary-headers", 1, Arc::new(frames_boundary_headers)));
    let pair_cuts = if thorough { 4 } else { 3 };
    units.push(Unit::enumerate("frames/all-fragmentations", 10, Arc::new(move |c: &EnumCtx| frames_all_splits(c, pair_cuts))));
    units.push(Unit::enumerate("frames/all-fragmentations/plain-tcp-arm", 10, Arc::new(move |c: &EnumCtx| frames_all_splits_on(c, pair_cuts, true))));
    let dec_len = if thorough { 8 } else { 6 };
    units.push(Unit::enumerate("decoders/derived-enum", 16, Arc::new(move |c: &EnumCtx| decoders(c, dec_len))));
    units.push(Unit::enumerate("roundtrip/bytes-convertable", 1, Arc::new(round_trips)));
    units.push(Unit::enumerate("decoders/job-metadata", 1, Arc::new(job_metadata)));
    units.push(Unit::enumerate("decoders/job-round-trip", 1, Arc::new(job_round_trip)));
    let cfg = ExecCfg::default();
    for local in [false, true] {
        for explosive in [false, true] {
            for bad in 0..(if explosive { 2 } else { 5 }) {
                units.push(Unit::explore(Job::new(
                    format!("live/{}/{}/bad{bad}", if local { "thread-local" } else { "send" }, if explosive { "panicking-decoder" } else { "derived-enum" }),
                    cfg.clone(),
                    Some(if thorough { 2 } else { 1 }),
                    live_body(local, explosive, bad),
                )));
            }
        }
    }
    units.push(Unit::explore(Job::new("roundtrip/derived-call-variants".to_string(), cfg.clone(), Some(1), call_round_trip_body())));
    units.extend(crate::nodes::c19_limit_units(thorough));
    Plan {
        property: "C19",
        units,
        rule: "exhaustive enumeration over real decoding code: every byte stream up to the stated length over a boundary alphabet through the real frame reader (declared lengths at and around the limit, reads counted), every fragmentation of valid streams with a Pending before each read, every argument byte string up to the stated length (plus length-prefix boundary shapes) through the decoders generated by #[derive(RactorClusterMessage)], encode/decode round trips of every BytesConvertable type over boundary values, job metadata strings; plus schedule-explored runs of real Send and thread-local actors receiving undecodable payloads, and of real NodeServer sessions (configured with a 64-byte inbound limit, both connection directions, before and inside the handshake) that are sent only a frame header declaring a length at, just above and far above the limit. A case is non-trivial when it gets past the trivial prefix (>= 8 header/argument bytes, or a fragmented stream)".into(),
        assumptions: vec![
            "byte strings are bounded in length and drawn from alphabets chosen from the branch conditions of the decoders (0, 1, field-size, 0x7f/0x80, 0xff)".into(),
            "prost's protobuf decoder is trusted beyond totality on these inputs".into(),
        ],
        engine: "exhaustive bounded enumeration over the real frame reader / decoders (futures executor, scripted AsyncRead) + vsched for the live-actor runs",
    }
}
