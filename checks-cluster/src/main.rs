//! Checks for the cluster properties C17-C20 (and the cluster-build parts of C10 / C19).
//! Usage: checks-cluster <PROPERTY> <quick|thorough|replay FILE>
vsched::getrandom_shim!();

mod c17;
mod c18;
mod c19;
mod c20;
mod nodes;

fn main() {
    let args: Vec<String> = std::env::args().skip(1).collect();
    let Some(prop) = args.first().cloned() else {
        eprintln!("usage: checks-cluster <PROPERTY> <quick|thorough|replay FILE>");
        std::process::exit(2);
    };
    let rest = &args[1..];
    let code = match prop.as_str() {
        "C17" => vsched::report::run_property(rest, &c17::plan),
        "C18" => vsched::report::run_property(rest, &c18::plan),
        "C20" => vsched::report::run_property(rest, &c20::plan),
        "C19" => vsched::report::run_property(rest, &c19::plan),
        _ => {
            eprintln!("unknown property {prop}");
            2
        }
    };
    std::process::exit(code);
}
