//! C20 — remote actors behave like the actors they stand for.
use vsched::report::Plan;

pub fn plan(tier: &str) -> Plan {
    let thorough = tier == "thorough";
    Plan {
        property: "C20",
        units: crate::nodes::c20_units(thorough),
        rule: "two real NodeServers in one process joined by an in-memory pipe through the public external-stream API, session ready; 2 senders x 2 casts and 3 concurrent calls (one abandoned after its first poll) through the remote reference of an actor living on the other node, group leave / re-join of the original, then the original stops or the link is closed; transport read size in {everything, 1 byte, 7 bytes}; schedules explored within the deviation bound from the first remote send on; oracle: same variants and arguments in per-sender order at the real actor, every reply at its own caller, the abandoned call disturbs nobody, group membership of the reference mirrors the original, after the end the reference is stopped, in no group, and refuses sends; non-trivial = execution with >= 1 branching decision".into(),
        assumptions: vec![
            "both nodes share one process-wide registry and pg (as in the repository's own in-process tests)".into(),
            "no real TCP/TLS; delay = any schedule".into(),
        ],
        engine: "vsched (shuttle coroutines + deviation-bounded DFS + virtual clock) on the real ractor / ractor_cluster code",
    }
}
