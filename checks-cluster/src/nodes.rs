//! Real `NodeServer`s in one process, joined by in-memory pipes through the public external-stream
//! API; a scripted peer (harness task speaking the wire protocol) for the single-node scenarios.
use std::pin::Pin;
use std::sync::{Arc, Mutex};
use std::task::{Context, Poll};
use std::time::Duration;

use ractor::message::SerializedMessage;
use ractor::{Actor, ActorCell, ActorId, ActorProcessingErr, ActorRef, ActorStatus, Message, RpcReplyPort};
use ractor_cluster::node::{NodeConnectionMode, NodeServerSessionInformation};
use ractor_cluster::verif::proto::{self, auth as pa, control as pc, node as pn};
use ractor_cluster::verif::{challenge_digest, VerifFrameReader};
use ractor_cluster::{BoxRead, BoxWrite, ClusterBidiStream, NodeEventSubscription, NodeServer, NodeServerMessage, NodeSessionMessage, RactorClusterMessage};
use tokio::io::{AsyncRead, AsyncWrite, AsyncWriteExt, DuplexStream, ReadBuf};
use vsched::explore::Job;
use vsched::report::Unit;
use vsched::{ExecCfg, Outcome};

pub const COOKIE: &str = "the-cookie";

// ------------------------------------------------------------------------------------------------
// transport
// ------------------------------------------------------------------------------------------------

/// One end of an in-memory pipe handed to a NodeServer
pub struct PipeEnd {
    stream: DuplexStream,
    label: String,
    /// explored transport behaviour: deliver at most this many bytes per read (0 = as much as fits)
    read_limit: usize,
    /// transit time on the virtual clock: bytes that arrive while the reader waits are handed over this
    /// much later (bytes already waiting when the reader comes back are handed over at once)
    latency_ms: u64,
    /// every chunk (not only the first after a pause) takes the transit time: a frame larger than the read limit
    /// arrives in pieces with a stall in the middle
    trickle: bool,
    /// when set (and raised), every write on this end fails with BrokenPipe: the send direction of a transport
    /// whose two directions fail independently is lost while the receive direction stays open
    cut_writes: Option<Arc<std::sync::atomic::AtomicBool>>,
}

struct CuttableWrite<W> {
    inner: W,
    cut: Option<Arc<std::sync::atomic::AtomicBool>>,
}
impl<W> CuttableWrite<W> {
    fn is_cut(&self) -> bool {
        self.cut.as_ref().is_some_and(|c| c.load(std::sync::atomic::Ordering::SeqCst))
    }
}
impl<W: AsyncWrite + Unpin> AsyncWrite for CuttableWrite<W> {
    fn poll_write(mut self: Pin<&mut Self>, cx: &mut Context<'_>, buf: &[u8]) -> Poll<std::io::Result<usize>> {
        if self.is_cut() {
            return Poll::Ready(Err(std::io::ErrorKind::BrokenPipe.into()));
        }
        Pin::new(&mut self.inner).poll_write(cx, buf)
    }
    fn poll_flush(mut self: Pin<&mut Self>, cx: &mut Context<'_>) -> Poll<std::io::Result<()>> {
        if self.is_cut() {
            return Poll::Ready(Err(std::io::ErrorKind::BrokenPipe.into()));
        }
        Pin::new(&mut self.inner).poll_flush(cx)
    }
    fn poll_shutdown(mut self: Pin<&mut Self>, cx: &mut Context<'_>) -> Poll<std::io::Result<()>> {
        Pin::new(&mut self.inner).poll_shutdown(cx)
    }
}

struct LimitedRead<R> {
    inner: R,
    limit: usize,
    latency_ms: u64,
    trickle: bool,
    /// the reader was waiting for data (so what comes next is fresh off the wire)
    idle: bool,
    in_transit: Option<(Vec<u8>, Pin<Box<dyn std::future::Future<Output = ()> + Send>>)>,
}
impl<R: AsyncRead + Unpin> AsyncRead for LimitedRead<R> {
    fn poll_read(mut self: Pin<&mut Self>, cx: &mut Context<'_>, buf: &mut ReadBuf<'_>) -> Poll<std::io::Result<()>> {
        if self.latency_ms > 0 {
            let this = &mut *self;
            if let Some((bytes, timer)) = this.in_transit.as_mut() {
                if timer.as_mut().poll(cx).is_pending() {
                    return Poll::Pending;
                }
                let n = bytes.len().min(buf.remaining());
                buf.put_slice(&bytes[..n]);
                bytes.drain(..n);
                if bytes.is_empty() {
                    this.in_transit = None;
                } else {
                    // the rest is there already
                    let rest = std::mem::take(bytes);
                    this.in_transit = Some((rest, Box::pin(async {})));
                }
                this.idle = this.trickle;
                return Poll::Ready(Ok(()));
            }
            if this.idle {
                let want = if this.limit == 0 { buf.remaining() } else { buf.remaining().min(this.limit) };
                let mut tmp = vec![0u8; want];
                let mut rb = ReadBuf::new(&mut tmp);
                return match Pin::new(&mut this.inner).poll_read(cx, &mut rb) {
                    Poll::Pending => Poll::Pending,
                    Poll::Ready(Err(e)) => Poll::Ready(Err(e)),
                    Poll::Ready(Ok(())) => {
                        let got = rb.filled().to_vec();
                        if got.is_empty() {
                            return Poll::Ready(Ok(())); // end of stream
                        }
                        let mut timer: Pin<Box<dyn std::future::Future<Output = ()> + Send>> = Box::pin(vsched::sleep(Duration::from_millis(this.latency_ms)));
                        let _ = timer.as_mut().poll(cx);
                        this.in_transit = Some((got, timer));
                        Poll::Pending
                    }
                };
            }
        }
        let r = self.as_mut().poll_read_now(cx, buf);
        // nothing buffered any more: whatever arrives next is fresh off the wire
        self.idle = r.is_pending() || self.trickle;
        r
    }
}
impl<R: AsyncRead + Unpin> LimitedRead<R> {
    fn poll_read_now(mut self: Pin<&mut Self>, cx: &mut Context<'_>, buf: &mut ReadBuf<'_>) -> Poll<std::io::Result<()>> {
        if self.limit == 0 || buf.remaining() <= self.limit {
            return Pin::new(&mut self.inner).poll_read(cx, buf);
        }
        let limit = self.limit;
        let mut small = buf.take(limit);
        let r = Pin::new(&mut self.inner).poll_read(cx, &mut small);
        let n = small.filled().len();
        // SAFETY-free way: copy through a temporary
        let tmp = small.filled().to_vec();
        drop(small);
        if let Poll::Ready(Ok(())) = r {
            buf.put_slice(&tmp[..n]);
        }
        r
    }
}

impl ClusterBidiStream for PipeEnd {
    fn split(self: Box<Self>) -> (BoxRead, BoxWrite) {
        let limit = self.read_limit;
        let latency_ms = self.latency_ms;
        let trickle = self.trickle;
        let cut = self.cut_writes.clone();
        let (r, w) = tokio::io::split(self.stream);
        (Box::new(LimitedRead { inner: r, limit, latency_ms, trickle, idle: true, in_transit: None }), Box::new(CuttableWrite { inner: w, cut }))
    }
    fn peer_label(&self) -> Option<String> {
        Some(self.label.clone())
    }
    fn local_label(&self) -> Option<String> {
        Some(self.label.clone())
    }
}

pub fn pipe(label: &str, read_limit: usize) -> (PipeEnd, PipeEnd) {
    slow_pipe(label, read_limit, 0)
}

pub fn slow_pipe(label: &str, read_limit: usize, latency_ms: u64) -> (PipeEnd, PipeEnd) {
    let (a, b) = tokio::io::duplex(1 << 16);
    (
        PipeEnd { stream: a, label: label.to_string(), read_limit, latency_ms, trickle: false, cut_writes: None },
        PipeEnd { stream: b, label: label.to_string(), read_limit, latency_ms, trickle: false, cut_writes: None },
    )
}

/// every chunk of at most `read_limit` bytes takes `latency_ms` to arrive
pub fn trickle_pipe(label: &str, read_limit: usize, latency_ms: u64) -> (PipeEnd, PipeEnd) {
    let (mut a, mut b) = slow_pipe(label, read_limit, latency_ms);
    a.trickle = true;
    b.trickle = true;
    (a, b)
}

/// the harness side of a pipe: frames in, frames out
pub struct ScriptedPeer {
    reader: VerifFrameReader,
    writer: tokio::io::WriteHalf<DuplexStream>,
}

impl ScriptedPeer {
    pub fn new(stream: DuplexStream) -> Self {
        let (r, w) = tokio::io::split(stream);
        Self { reader: VerifFrameReader::new(Box::new(r)), writer: w }
    }
    pub async fn send(&mut self, m: &proto::NetworkMessage) -> bool {
        let mut buf = Vec::new();
        VerifFrameReader::encode(m, &mut buf);
        self.writer.write_all(&buf).await.is_ok()
    }
    pub async fn send_raw(&mut self, bytes: &[u8]) -> bool {
        self.writer.write_all(bytes).await.is_ok()
    }
    /// next frame from the node, or None if the node closed / nothing arrives (bounded by virtual time)
    pub async fn recv(&mut self) -> Option<proto::NetworkMessage> {
        match ractor::concurrency::timeout(Duration::from_millis(50), self.reader.read(1 << 20)).await {
            Ok(Ok(m)) => Some(m),
            _ => None,
        }
    }
    pub async fn close(mut self) {
        let _ = self.writer.shutdown().await;
    }
}

pub fn auth_msg(m: pa::authentication_message::Msg) -> proto::NetworkMessage {
    proto::NetworkMessage { message: Some(proto::meta::network_message::Message::Auth(pa::AuthenticationMessage { msg: Some(m) })) }
}
pub fn control_msg(m: pc::control_message::Msg) -> proto::NetworkMessage {
    proto::NetworkMessage { message: Some(proto::meta::network_message::Message::Control(pc::ControlMessage { msg: Some(m) })) }
}
pub fn node_msg(m: pn::node_message::Msg) -> proto::NetworkMessage {
    proto::NetworkMessage { message: Some(proto::meta::network_message::Message::Node(pn::NodeMessage { msg: Some(m) })) }
}

// ------------------------------------------------------------------------------------------------
// probes and node events
// ------------------------------------------------------------------------------------------------

#[derive(RactorClusterMessage, Debug)]
pub enum Wire {
    Note(u32, String),
    #[rpc]
    Ask(u32, RpcReplyPort<u32>),
}

pub type L = Arc<Mutex<Vec<String>>>;

pub struct Probe {
    pub log: L,
    pub tag: &'static str,
    pub reply_delay_ms: u64,
}
impl Actor for Probe {
    type Msg = Wire;
    type State = ();
    type Arguments = ();
    async fn pre_start(&self, _m: ActorRef<Wire>, _: ()) -> Result<(), ActorProcessingErr> {
        Ok(())
    }
    async fn handle(&self, _m: ActorRef<Wire>, m: Wire, _: &mut ()) -> Result<(), ActorProcessingErr> {
        match m {
            Wire::Note(n, s) => {
                self.log.lock().unwrap().push(format!("{}:note {n} {s}", self.tag));
                if n == 666 {
                    // the actor ends itself on this note
                    _m.stop(None);
                }
            }
            Wire::Ask(n, reply) => {
                self.log.lock().unwrap().push(format!("{}:ask {n}", self.tag));
                if self.reply_delay_ms > 0 && n % 2 == 0 {
                    // even requests are answered later, from a task: replies leave out of request order
                    // (the delay grows with the last digit: 0 -> d, 2 -> 2d, 4 -> 3d, ...)
                    let d = self.reply_delay_ms * (1 + (n as u64 % 10) / 2);
                    ractor::concurrency::spawn(async move {
                        ractor::concurrency::sleep(Duration::from_millis(d)).await;
                        let _ = reply.send(n + 1000);
                    });
                } else {
                    let _ = reply.send(n + 1000);
                }
            }
        }
        Ok(())
    }
}

/// a local actor whose messages cannot travel
pub struct LocalOnly {
    pub log: L,
}
pub struct NotSerializable(pub u32);
/// It declares itself not serializable (so its actor does not support remote messaging and is never
/// advertised), but it would decode whatever reached it: what keeps a peer's frames away from its actor is the
/// session's gate, not a failing decoder.
impl Message for NotSerializable {
    fn serializable() -> bool {
        false
    }
    fn deserialize(bytes: SerializedMessage) -> Result<Self, ractor::message::BoxedDowncastErr> {
        match bytes {
            SerializedMessage::Cast { .. } => Ok(NotSerializable(1)),
            SerializedMessage::Call { .. } => Ok(NotSerializable(2)),
            _ => Err(ractor::message::BoxedDowncastErr),
        }
    }
}
impl Actor for LocalOnly {
    type Msg = NotSerializable;
    type State = ();
    type Arguments = ();
    async fn pre_start(&self, _m: ActorRef<NotSerializable>, _: ()) -> Result<(), ActorProcessingErr> {
        Ok(())
    }
    async fn handle(&self, _m: ActorRef<NotSerializable>, m: NotSerializable, _: &mut ()) -> Result<(), ActorProcessingErr> {
        self.log.lock().unwrap().push(format!("local-only handled {}", m.0));
        Ok(())
    }
}

pub struct Events {
    pub node: &'static str,
    pub log: L,
}
impl NodeEventSubscription for Events {
    fn node_session_opened(&self, s: NodeServerSessionInformation) {
        self.log.lock().unwrap().push(format!("{}:opened {}", self.node, s.peer_addr));
    }
    fn node_session_disconnected(&self, s: NodeServerSessionInformation) {
        self.log.lock().unwrap().push(format!("{}:disconnected {}", self.node, s.peer_addr));
    }
    fn node_session_authenticated(&self, s: NodeServerSessionInformation) {
        vsched::log(format!("EVENT {}:authenticated {}", self.node, s.peer_addr));
        self.log.lock().unwrap().push(format!("{}:authenticated {}", self.node, s.peer_addr));
    }
    fn node_session_ready(&self, s: NodeServerSessionInformation) {
        self.log.lock().unwrap().push(format!("{}:ready {} peer={:?}", self.node, s.peer_addr, s.peer_name.map(|n| n.name)));
    }
}

pub struct Node {
    pub server: ActorRef<NodeServerMessage>,
    pub handle: ractor::concurrency::JoinHandle<()>,
    pub name: &'static str,
}

pub async fn start_node(name: &'static str, cookie: &str, events: &L) -> Node {
    start_node_limited(name, cookie, events, None).await
}

pub async fn start_node_limited(name: &'static str, cookie: &str, events: &L, frame_limit: Option<u64>) -> Node {
    let mut ns = NodeServer::new(0, cookie.to_string(), name.to_string(), "host".to_string(), None, Some(NodeConnectionMode::Isolated));
    if let Some(l) = frame_limit {
        ns = ns.with_max_inbound_frame_size(l);
    }
    let (server, handle) = Actor::spawn(None, ns, ()).await.expect("node server");
    let _ = server.cast(NodeServerMessage::SubscribeToEvents { id: "harness".into(), subscription: Box::new(Events { node: name, log: events.clone() }) });
    Node { server, handle, name }
}

pub async fn sessions(n: &Node) -> Vec<(String, Option<String>, ActorRef<NodeSessionMessage>)> {
    match n.server.call(NodeServerMessage::GetSessions, Some(Duration::from_millis(20))).await {
        Ok(ractor::rpc::CallResult::Success(m)) => {
            let mut v: Vec<_> = m.into_values().map(|s| (s.peer_addr, s.peer_name.map(|p| p.name), s.actor)).collect();
            v.sort_by(|a, b| a.0.cmp(&b.0));
            v
        }
        _ => vec![],
    }
}

/// every execution needs an (entered, never driven) tokio runtime: the NodeServer's listener binds a socket
pub fn with_rt<F: std::future::Future<Output = Outcome> + 'static>(f: impl Fn() -> F + Send + Sync + 'static) -> vsched::Body {
    Arc::new(move || {
        let fut = f();
        Box::pin(async move {
            let rt = tokio::runtime::Builder::new_current_thread().enable_io().build().expect("tokio runtime");
            let guard = rt.enter();
            let o = fut.await;
            drop(guard);
            drop(rt);
            o
        })
    })
}

pub fn cluster_cfg() -> ExecCfg {
    ExecCfg {
        stack: 1 << 20,
        max_steps: 100_000,
        // ping loops (1-5 s) and the like never fire inside a run
        max_virtual_ns: 900_000_000,
        ..Default::default()
    }
}

// ------------------------------------------------------------------------------------------------
// C17: one real node, a scripted peer
// ------------------------------------------------------------------------------------------------

#[derive(Clone, Copy, Debug, PartialEq, Eq)]
pub enum Sym {
    Name,
    ServerStatusOk,
    ServerChallenge,
    ClientChallengeBad,
    ServerAckBad,
    ClientStatus,
    Ready,
    Spawn,
    PgJoin,
    Terminate,
    Cast,
    Call,
    Reply,
    Garbage,
    /// an authentication message whose oneof is unset (payload 0A 00)
    EmptyAuth,
}
pub const SYMS: &[Sym] = &[
    Sym::Name,
    Sym::ServerStatusOk,
    Sym::ServerChallenge,
    Sym::ClientChallengeBad,
    Sym::ServerAckBad,
    Sym::ClientStatus,
    Sym::Ready,
    Sym::Spawn,
    Sym::PgJoin,
    Sym::Terminate,
    Sym::Cast,
    Sym::Call,
    Sym::Reply,
    Sym::Garbage,
    Sym::EmptyAuth,
];

fn frame_for(s: Sym, target_pid: u64) -> Option<proto::NetworkMessage> {
    let cast_args = {
        let mut v = 4u64.to_be_bytes().to_vec();
        v.extend(7u32.to_be_bytes());
        v.extend(1u64.to_be_bytes());
        v.push(b'x');
        v
    };
    Some(match s {
        Sym::Name => auth_msg(pa::authentication_message::Msg::Name(pa::NameMessage { name: "peer@host".into(), flags: Some(pa::NodeFlags { version: 1 }), connection_string: "peer:1".into(), connection_id: 5 })),
        Sym::ServerStatusOk => auth_msg(pa::authentication_message::Msg::ServerStatus(pa::ServerStatus { status: 0 })),
        Sym::ServerChallenge => auth_msg(pa::authentication_message::Msg::ServerChallenge(pa::Challenge { name: "peer@host".into(), flags: None, challenge: 11, connection_string: "peer:1".into() })),
        Sym::ClientChallengeBad => auth_msg(pa::authentication_message::Msg::ClientChallenge(pa::ChallengeReply { challenge: 3, digest: vec![1; 32] })),
        Sym::ServerAckBad => auth_msg(pa::authentication_message::Msg::ServerAck(pa::ChallengeAck { digest: vec![2; 32] })),
        Sym::ClientStatus => auth_msg(pa::authentication_message::Msg::ClientStatus(pa::ClientStatus { status: true })),
        Sym::Ready => control_msg(pc::control_message::Msg::Ready(pc::Ready {})),
        Sym::Spawn => control_msg(pc::control_message::Msg::Spawn(pc::Spawn { actors: vec![pc::Actor { pid: 77, name: Some("ghost".into()) }] })),
        Sym::PgJoin => control_msg(pc::control_message::Msg::PgJoin(pc::PgJoin { group: "pub".into(), scope: ractor::pg::DEFAULT_SCOPE.into(), actors: vec![pc::Actor { pid: 78, name: None }] })),
        Sym::Terminate => control_msg(pc::control_message::Msg::Terminate(pc::Terminate { ids: vec![target_pid] })),
        Sym::Cast => node_msg(pn::node_message::Msg::Cast(pn::Cast { to: target_pid, what: cast_args, variant: "Note".into(), metadata: None })),
        Sym::Call => node_msg(pn::node_message::Msg::Call(pn::Call { to: target_pid, what: { let mut v = 4u64.to_be_bytes().to_vec(); v.extend(9u32.to_be_bytes()); v }, tag: 1, timeout_ms: None, variant: "Ask".into(), metadata: None })),
        Sym::Reply => node_msg(pn::node_message::Msg::Reply(pn::CallReply { to: target_pid, tag: 1, what: vec![0, 0, 0, 1] })),
        Sym::Garbage => return None,
        Sym::EmptyAuth => proto::NetworkMessage { message: Some(proto::meta::network_message::Message::Auth(pa::AuthenticationMessage { msg: None })) },
    })
}

/// what the accepting / dialling state machine does with an *authentication* symbol (see c17.rs)
fn closes(is_server: bool, state: &mut &'static str, s: Sym) -> bool {
    let auth = matches!(s, Sym::Name | Sym::ServerStatusOk | Sym::ServerChallenge | Sym::ClientChallengeBad | Sym::ServerAckBad | Sym::ClientStatus | Sym::EmptyAuth);
    if !auth {
        return s == Sym::Garbage; // an undecodable frame closes the transport
    }
    let next: &'static str = if is_server {
        match (*state, s) {
            // the node answers Name with status Ok + challenge and then waits for the reply
            ("init", Sym::Name) => "challenged",
            _ => "close",
        }
    } else {
        match (*state, s) {
            ("init", Sym::ServerStatusOk) => "status",
            ("status", Sym::ServerChallenge) => "challenged",
            _ => "close",
        }
    };
    *state = next;
    next == "close"
}

struct World {
    node: Node,
    events: L,
    plog: L,
    p: ActorRef<Wire>,
    ph: ractor::concurrency::JoinHandle<()>,
    lo: ActorRef<NotSerializable>,
    loh: ractor::concurrency::JoinHandle<()>,
}

async fn world() -> World {
    let events: L = Arc::new(Mutex::new(vec![]));
    let plog: L = Arc::new(Mutex::new(vec![]));
    let node = start_node("a", COOKIE, &events).await;
    let (p, ph) = Actor::spawn(Some("P".into()), Probe { log: plog.clone(), tag: "P", reply_delay_ms: 0 }, ()).await.expect("P");
    ractor::pg::join("pub".into(), vec![p.get_cell()]);
    let (lo, loh) = Actor::spawn(None, LocalOnly { log: plog.clone() }, ()).await.expect("local only");
    vsched::quiesce();
    World { node, events, plog, p, ph, lo, loh }
}

fn remote_members() -> usize {
    let s = ractor::pg::verif_snapshot();
    s.groups.iter().map(|g| g.2.iter().filter(|id| !id.is_local()).count()).sum()
}

async fn no_effect_yet(w: &World, session: &Option<ActorCell>, bad: &mut Vec<String>, when: &str) {
    if !w.plog.lock().unwrap().is_empty() {
        bad.push(format!("{when}: a local actor handled {:?} before the connection authenticated", w.plog.lock().unwrap()));
    }
    if remote_members() != 0 {
        bad.push(format!("{when}: process groups gained remote members before authentication: {:?}", ractor::pg::verif_snapshot().groups));
    }
    if let Some(s) = session {
        let kids = s.get_children().len();
        if kids > 1 {
            bad.push(format!("{when}: the unauthenticated session has {kids} children (remote-actor proxies were created)"));
        }
    }
    if !sessions(&w.node).await.is_empty() {
        bad.push(format!("{when}: an unauthenticated session is listed by GetSessions"));
    }
    let ev = w.events.lock().unwrap().clone();
    if ev.iter().any(|e| e.contains("authenticated") || e.contains("ready")) {
        bad.push(format!("{when}: node events report an authenticated / ready session: {ev:?}"));
    }
}

fn the_session(w: &World) -> Option<ActorCell> {
    // children of the node server: the listener and the sessions; the session is the newest child
    let mut c = w.node.server.get_children();
    c.sort_by_key(|c| c.get_id());
    if c.len() >= 2 {
        c.last().cloned()
    } else {
        None
    }
}

async fn teardown(w: World) {
    w.node.server.stop(None);
    let _ = w.node.handle.await;
    w.p.stop(None);
    let _ = w.ph.await;
    w.lo.stop(None);
    let _ = w.loh.await;
}

fn pre_auth_body(is_server: bool, len: usize) -> vsched::Body {
    with_rt(move || async move {
        let w = world().await;
        let (node_end, mine) = pipe("pipe-0", 0);
        let _ = w.node.server.cast(NodeServerMessage::ConnectionOpenedExternal { stream: Box::new(node_end), is_server });
        let mut peer = ScriptedPeer::new(mine.stream);
        vsched::quiesce();
        let session = the_session(&w);
        let mut bad = Vec::new();
        if session.is_none() {
            bad.push("no session actor was created for the connection".to_string());
        }
        let mut state: &'static str = "init";
        let mut seq = Vec::new();
        let mut must_be_closed = false;
        let target = w.p.get_id().pid();
        for step in 0..len {
            let s = SYMS[vsched::choose_free("symbol", SYMS.len())];
            seq.push(s);
            match frame_for(s, target) {
                Some(f) => {
                    let _ = peer.send(&f).await;
                }
                None => {
                    // a frame with a valid length whose payload is not a NetworkMessage
                    let mut raw = 3u64.to_be_bytes().to_vec();
                    raw.extend([0xff, 0xff, 0xff]);
                    let _ = peer.send_raw(&raw).await;
                }
            }
            vsched::quiesce();
            // drain whatever the node answered (it must not block on us)
            while peer.recv().await.is_some() {}
            vsched::quiesce();
            if closes(is_server, &mut state, s) {
                must_be_closed = true;
            }
            no_effect_yet(&w, &session, &mut bad, &format!("after {seq:?}")).await;
            if let Some(sc) = &session {
                if must_be_closed && sc.get_status() != ActorStatus::Stopped {
                    bad.push(format!("after {seq:?} (step {step}) the session is {:?}: a malformed / out-of-order authentication message must close it", sc.get_status()));
                }
                if sc.get_status() == ActorStatus::Running {
                    let r: ActorRef<NodeSessionMessage> = sc.clone().into();
                    if let Ok(ractor::rpc::CallResult::Success(true)) = r.call(NodeSessionMessage::GetAuthenticationState, Some(Duration::from_millis(20))).await {
                        bad.push(format!("after {seq:?} the session claims to be authenticated"));
                    }
                }
            }
        }
        let closed = session.as_ref().map(|s| s.get_status() == ActorStatus::Stopped).unwrap_or(true);
        peer.close().await;
        vsched::quiesce();
        let key = format!("{seq:?} closed={closed}");
        teardown(w).await;
        Outcome { key, violations: bad }
    })
}

/// the honest handshake performed by the harness, then traffic to advertised and unadvertised pids
fn post_auth_body(is_server: bool, wrong_cookie: bool) -> vsched::Body {
    with_rt(move || async move {
        let w = world().await;
        let (node_end, mine) = pipe("pipe-0", 0);
        let _ = w.node.server.cast(NodeServerMessage::ConnectionOpenedExternal { stream: Box::new(node_end), is_server });
        let mut peer = ScriptedPeer::new(mine.stream);
        vsched::quiesce();
        let session = the_session(&w);
        let mut bad = Vec::new();
        let my_cookie = if wrong_cookie { "not-the-cookie" } else { COOKIE };
        let mut authed = false;
        if is_server {
            // the node accepts: we dial
            let _ = peer.send(&frame_for(Sym::Name, 0).unwrap()).await;
            let mut challenge = None;
            for _ in 0..4 {
                match peer.recv().await {
                    Some(m) => {
                        if let Some(proto::meta::network_message::Message::Auth(a)) = m.message {
                            if let Some(pa::authentication_message::Msg::ServerChallenge(c)) = a.msg {
                                challenge = Some(c.challenge);
                                break;
                            }
                        }
                    }
                    None => break,
                }
            }
            if let Some(c) = challenge {
                no_effect_yet(&w, &session, &mut bad, "after the server challenge").await;
                let _ = peer.send(&auth_msg(pa::authentication_message::Msg::ClientChallenge(pa::ChallengeReply { challenge: 42, digest: challenge_digest(my_cookie, c) }))).await;
                if let Some(m) = peer.recv().await {
                    if let Some(proto::meta::network_message::Message::Auth(a)) = m.message {
                        if let Some(pa::authentication_message::Msg::ServerAck(ack)) = a.msg {
                            authed = true;
                            if ack.digest != challenge_digest(COOKIE, 42) {
                                bad.push("the server's acknowledgement is not the digest of our challenge".into());
                            }
                        }
                    }
                }
            } else {
                bad.push("the accepting node never sent a challenge".into());
            }
        } else {
            // the node dials: we accept. It sends its name first.
            let first = peer.recv().await;
            if !matches!(first.and_then(|m| m.message), Some(proto::meta::network_message::Message::Auth(_))) {
                bad.push("the dialling node did not start with its name".into());
            }
            let _ = peer.send(&frame_for(Sym::ServerStatusOk, 0).unwrap()).await;
            let _ = peer.send(&frame_for(Sym::ServerChallenge, 0).unwrap()).await;
            if let Some(m) = peer.recv().await {
                if let Some(proto::meta::network_message::Message::Auth(a)) = m.message {
                    if let Some(pa::authentication_message::Msg::ClientChallenge(r)) = a.msg {
                        if r.digest != challenge_digest(COOKIE, 11) {
                            bad.push("the node's reply is not the digest of our challenge".into());
                        }
                        no_effect_yet(&w, &session, &mut bad, "before the server ack").await;
                        let _ = peer.send(&auth_msg(pa::authentication_message::Msg::ServerAck(pa::ChallengeAck { digest: challenge_digest(my_cookie, r.challenge) }))).await;
                        authed = true;
                    }
                }
            }
        }
        vsched::quiesce();
        let mut seen: Vec<String> = Vec::new();
        while let Some(m) = peer.recv().await {
            seen.push(match m.message {
                Some(proto::meta::network_message::Message::Control(c)) => match c.msg {
                    Some(pc::control_message::Msg::Spawn(s)) => format!("spawn{:?}", s.actors.iter().map(|a| a.pid).collect::<Vec<_>>()),
                    Some(pc::control_message::Msg::PgJoin(j)) => format!("pgjoin {}", j.group),
                    Some(pc::control_message::Msg::Ready(_)) => "ready".into(),
                    _ => "control".into(),
                },
                Some(_) => "other".into(),
                None => "empty".into(),
            });
        }
        let listed = sessions(&w.node).await;
        if wrong_cookie {
            if !listed.is_empty() || w.events.lock().unwrap().iter().any(|e| e.contains("authenticated")) {
                bad.push("a peer that does not know the cookie got an authenticated session".into());
            }
            if let Some(s) = &session {
                if s.get_status() != ActorStatus::Stopped {
                    bad.push(format!("a wrong digest left the session {:?}", s.get_status()));
                }
            }
            no_effect_yet(&w, &session, &mut bad, "after the failed handshake").await;
        } else {
            if !authed || listed.len() != 1 {
                bad.push(format!("the honest handshake did not produce a listed session (authed={authed}, listed={}, node sent {seen:?})", listed.len()));
            }
            // our side of the sync, then traffic
            let _ = peer.send(&frame_for(Sym::Ready, 0).unwrap()).await;
            let pid_p = w.p.get_id().pid();
            let pid_lo = w.lo.get_id().pid();
            let pid_node = w.node.server.get_id().pid();
            for (i, to) in [pid_p, pid_lo, pid_node, 999_999].into_iter().enumerate() {
                let _ = peer.send(&frame_for(Sym::Cast, to).unwrap()).await;
                let mut call = frame_for(Sym::Call, to).unwrap();
                if let Some(proto::meta::network_message::Message::Node(n)) = &mut call.message {
                    if let Some(pn::node_message::Msg::Call(c)) = &mut n.msg {
                        c.tag = 100 + i as u64;
                    }
                }
                let _ = peer.send(&call).await;
            }
            vsched::quiesce();
            let mut replies = Vec::new();
            while let Some(m) = peer.recv().await {
                if let Some(proto::meta::network_message::Message::Node(n)) = m.message {
                    if let Some(pn::node_message::Msg::Reply(r)) = n.msg {
                        replies.push((r.tag, r.to));
                    }
                }
            }
            let pl = w.plog.lock().unwrap().clone();
            if pl != vec!["P:note 7 x".to_string(), "P:ask 9".to_string()] {
                bad.push(format!("after authentication only the advertised, remotable actor may receive the peer's messages, once each; handled {pl:?}"));
            }
            if replies != vec![(100, pid_p)] {
                bad.push(format!("expected exactly the reply to the call addressed to the advertised actor, got {replies:?}"));
            }
            if !seen.iter().any(|s| s.starts_with("spawn") && s.contains(&pid_p.to_string())) {
                bad.push(format!("the remotable actor was not advertised after authentication: {seen:?}"));
            }
            if seen.iter().any(|s| s.starts_with("spawn") && s.contains(&format!("{pid_lo}"))) && pid_lo != pid_p {
                let adv: Vec<&String> = seen.iter().filter(|s| s.starts_with("spawn")).collect();
                if adv.iter().any(|s| s.trim_start_matches("spawn").trim_matches(['[', ']']).split(", ").any(|x| x == pid_lo.to_string())) {
                    bad.push("a non-remotable local actor was advertised".into());
                }
            }
            // actors that appear AFTER the session is ready: the peer guesses their pids (pids are sequential); only
            // the remotable one is reachable
            let late_log: L = Arc::new(Mutex::new(vec![]));
            let (lo2, lo2h) = Actor::spawn(None, LocalOnly { log: late_log.clone() }, ()).await.expect("late local-only actor");
            let (p2, p2h) = Actor::spawn(None, Probe { log: late_log.clone(), tag: "P2", reply_delay_ms: 0 }, ()).await.expect("late remotable actor");
            vsched::quiesce();
            while peer.recv().await.is_some() {}
            for (i, to) in [lo2.get_id().pid(), p2.get_id().pid()].into_iter().enumerate() {
                let _ = peer.send(&frame_for(Sym::Cast, to).unwrap()).await;
                let mut call = frame_for(Sym::Call, to).unwrap();
                if let Some(proto::meta::network_message::Message::Node(n)) = &mut call.message {
                    if let Some(pn::node_message::Msg::Call(c)) = &mut n.msg {
                        c.tag = 200 + i as u64;
                    }
                }
                let _ = peer.send(&call).await;
            }
            vsched::quiesce();
            let ll = late_log.lock().unwrap().clone();
            if ll.iter().any(|e| e.starts_with("local-only")) {
                bad.push(format!("a local actor that does not support remote messaging, spawned after the session was ready, handled a peer's message: {ll:?}"));
            }
            if ll.iter().filter(|e| e.starts_with("P2:")).count() != 2 {
                bad.push(format!("the remotable actor spawned after the session was ready must receive the peer's cast and call: {ll:?}"));
            }
            lo2.stop(None);
            p2.stop(None);
            let _ = lo2h.await;
            let _ = p2h.await;
        }
        peer.close().await;
        vsched::quiesce();
        let key = format!("authed={authed} listed={} plog={:?}", listed.len(), w.plog.lock().unwrap());
        teardown(w).await;
        Outcome { key, violations: bad }
    })
}

pub fn c17_units(thorough: bool) -> Vec<Unit> {
    let mut v = Vec::new();
    let cfg = cluster_cfg();
    let len = if thorough { 4 } else { 3 };
    for is_server in [true, false] {
        v.push(Unit::explore_split(
            Job::new(format!("session/pre-auth/{}", if is_server { "accepting" } else { "dialling" }), cfg.clone(), Some(0), pre_auth_body(is_server, len)),
            16,
        ));
        for wrong in [false, true] {
            v.push(Unit::explore_split(
                Job::new(format!("session/handshake/{}/{}", if is_server { "accepting" } else { "dialling" }, if wrong { "wrong-cookie" } else { "honest" }), cfg.clone(), Some(if thorough { 2 } else { 1 }), post_auth_body(is_server, wrong)),
                4,
            ));
        }
    }
    v
}

// ------------------------------------------------------------------------------------------------
// C18 / C20: two real nodes
// ------------------------------------------------------------------------------------------------

pub struct Two {
    pub a: Node,
    pub b: Node,
    pub events: L,
}

pub async fn two_nodes() -> Two {
    two_nodes_named("a", "b").await
}
pub async fn two_nodes_named(na: &'static str, nb: &'static str) -> Two {
    let events: L = Arc::new(Mutex::new(vec![]));
    let a = start_node(na, COOKIE, &events).await;
    let b = start_node(nb, COOKIE, &events).await;
    vsched::quiesce();
    Two { a, b, events }
}

/// `from` dials `to` over a fresh pipe
pub fn dial(from: &Node, to: &Node, label: &str, read_limit: usize) {
    let (x, y) = pipe(label, read_limit);
    let _ = from.server.cast(NodeServerMessage::ConnectionOpenedExternal { stream: Box::new(x), is_server: false });
    let _ = to.server.cast(NodeServerMessage::ConnectionOpenedExternal { stream: Box::new(y), is_server: true });
}

#[derive(Clone, Copy, Debug, PartialEq, Eq)]
pub enum Dials {
    Simultaneous,
    TwiceSameDirection,
    ThreeMixed,
    SingleThenSpoof,
    SimultaneousThenSpoof,
    /// a connection that only claims the peer's name (and never answers the challenge) is already there
    /// when the honest link is dialled: outgoing / incoming honest link, small / legacy (0) connection id
    SquatterDialOut,
    SquatterDialIn,
    SquatterLegacyDialOut,
    SquatterLegacyDialIn,
}

fn c18_body(d: Dials) -> vsched::Body {
    c18_body_named(d, "a", "b")
}

/// the same with chosen node names (the election compares names: upper / lower case, prefixes, ...)
/// Three nodes. `a` and `b` converge on one link; then a third node `c` (a DIFFERENT peer, which happens to
/// advertise the same `host:port` string — every node of this harness does, as nodes behind one NAT address or
/// legacy name-only peers do) connects to `a`, to `b`, or to both: the link between a and b is none of its
/// business, every pair of nodes ends with exactly one ready session per peer.
fn c18_three_nodes_body(c_dials: &'static [(usize, usize)], simultaneous_ab: bool) -> vsched::Body {
    with_rt(move || async move {
        let events: L = Arc::new(Mutex::new(vec![]));
        let nodes = [start_node("a", COOKIE, &events).await, start_node("b", COOKIE, &events).await, start_node("c", COOKIE, &events).await];
        vsched::quiesce();
        let mut bad = Vec::new();
        dial(&nodes[0], &nodes[1], "pipe-ab", 0);
        if simultaneous_ab {
            dial(&nodes[1], &nodes[0], "pipe-ba", 0);
        }
        vsched::quiesce_time();
        let describe = |s: &Vec<(String, Option<String>, ActorRef<NodeSessionMessage>)>| s.iter().map(|x| format!("{}->{:?}", x.0, x.1)).collect::<Vec<_>>();
        let before = [sessions(&nodes[0]).await, sessions(&nodes[1]).await];
        if before[0].len() != 1 || before[1].len() != 1 {
            bad.push(format!("before the third node appears: a lists {:?}, b lists {:?}", describe(&before[0]), describe(&before[1])));
        }
        vsched::explore_schedules(true);
        for (i, (from, to)) in c_dials.iter().enumerate() {
            dial(&nodes[*from], &nodes[*to], ["pipe-x0", "pipe-x1", "pipe-x2"][i], 0);
        }
        vsched::quiesce_time();
        vsched::explore_schedules(false);
        // who should be connected to whom
        let mut linked = vec![(0usize, 1usize)];
        for (from, to) in c_dials {
            let pair = (*from.min(to), *from.max(to));
            if !linked.contains(&pair) {
                linked.push(pair);
            }
        }
        let mut key = Vec::new();
        for (i, n) in nodes.iter().enumerate() {
            let s = sessions(n).await;
            let mut want: Vec<String> = linked.iter().filter(|(x, y)| *x == i || *y == i).map(|(x, y)| format!("{}@host", nodes[if *x == i { *y } else { *x }].name)).collect();
            want.sort();
            let mut have: Vec<String> = s.iter().filter(|x| x.2.get_status() == ActorStatus::Running).filter_map(|x| x.1.clone()).collect();
            have.sort();
            if have != want {
                bad.push(format!("node {} should have exactly one running session for each of {want:?}; it lists {:?}", n.name, describe(&s)));
            }
            key.push(format!("{}:{:?}", n.name, have));
        }
        // the a-b link that was ready before is the same connection afterwards
        let after = [sessions(&nodes[0]).await, sessions(&nodes[1]).await];
        for i in 0..2 {
            if let Some(b0) = before[i].first() {
                if !after[i].iter().any(|x| x.0 == b0.0 && x.2.get_status() == ActorStatus::Running) {
                    bad.push(format!("node {} closed the connection {} that a and b had agreed on, after a different node connected: it lists {:?}", nodes[i].name, b0.0, describe(&after[i])));
                }
            }
        }
        let ev = events.lock().unwrap().clone();
        for n in nodes {
            n.server.stop(None);
            let _ = n.handle.await;
        }
        let _ = ev;
        Outcome { key: format!("{key:?}"), violations: bad }
    })
}

/// The third node is played by the harness (it knows the cookie and finishes an honest handshake with `a`), so it
/// can advertise exactly the `host:port` string node `b` advertises (two machines behind one address, or the
/// empty string of legacy name-only peers): it is a different peer, and `a`'s ready link with `b` stays.
fn c18_same_address_third_body(simultaneous_ab: bool, empty_string: bool) -> vsched::Body {
    with_rt(move || async move {
        let t = two_nodes().await;
        let mut bad = Vec::new();
        dial(&t.a, &t.b, "pipe-ab", 0);
        if simultaneous_ab {
            dial(&t.b, &t.a, "pipe-ba", 0);
        }
        vsched::quiesce_time();
        let describe = |s: &Vec<(String, Option<String>, ActorRef<NodeSessionMessage>)>| s.iter().map(|x| format!("{}->{:?}", x.0, x.1)).collect::<Vec<_>>();
        let before = [sessions(&t.a).await, sessions(&t.b).await];
        if before[0].len() != 1 || before[1].len() != 1 {
            bad.push(format!("before the third node appears: a lists {:?}, b lists {:?}", describe(&before[0]), describe(&before[1])));
        }
        // what b advertises, as a sees it
        let b_string = match t.a.server.call(NodeServerMessage::GetSessions, Some(Duration::from_millis(20))).await {
            Ok(ractor::rpc::CallResult::Success(m)) => m.into_values().filter_map(|s| s.peer_name.map(|p| p.connection_string)).next().unwrap_or_default(),
            _ => String::new(),
        };
        let (node_end, mine) = pipe("pipe-c", 0);
        let _ = t.a.server.cast(NodeServerMessage::ConnectionOpenedExternal { stream: Box::new(node_end), is_server: true });
        let mut peer = ScriptedPeer::new(mine.stream);
        vsched::explore_schedules(true);
        let how = honest_dial_cs(&mut peer, "c@host", 77, COOKIE, if empty_string { "" } else { &b_string }).await;
        vsched::quiesce_time();
        vsched::explore_schedules(false);
        if how != "acknowledged" {
            bad.push(format!("the third node's honest handshake with a ended as {how}"));
        }
        let after = [sessions(&t.a).await, sessions(&t.b).await];
        let mut have: Vec<String> = after[0].iter().filter(|x| x.2.get_status() == ActorStatus::Running).filter_map(|x| x.1.clone()).collect();
        have.sort();
        if have != vec!["b@host".to_string(), "c@host".to_string()] {
            bad.push(format!("a should have one running session for b@host and one for c@host (c advertises {}); it lists {:?}", if empty_string { "an empty address" } else { "the address b advertises" }, describe(&after[0])));
        }
        for i in 0..2 {
            if let Some(b0) = before[i].first() {
                if !after[i].iter().any(|x| x.0 == b0.0 && x.2.get_status() == ActorStatus::Running) {
                    bad.push(format!("node {} closed the connection {} that a and b had agreed on, after a different node connected: it lists {:?}", if i == 0 { "a" } else { "b" }, b0.0, describe(&after[i])));
                }
            }
        }
        peer.close().await;
        vsched::quiesce();
        for n in [t.a, t.b] {
            n.server.stop(None);
            let _ = n.handle.await;
        }
        Outcome { key: format!("{have:?} {how}"), violations: bad }
    })
}

fn c18_body_named(d: Dials, na: &'static str, nb: &'static str) -> vsched::Body {
    with_rt(move || async move {
        let t = two_nodes_named(na, nb).await;
        let mut bad = Vec::new();
        let mut squatter = None;
        if matches!(d, Dials::SquatterDialOut | Dials::SquatterDialIn | Dials::SquatterLegacyDialOut | Dials::SquatterLegacyDialIn) {
            let (node_end, mine) = pipe("pipe-spoof", 0);
            let _ = t.a.server.cast(NodeServerMessage::ConnectionOpenedExternal { stream: Box::new(node_end), is_server: true });
            let mut peer = ScriptedPeer::new(mine.stream);
            let connection_id = if matches!(d, Dials::SquatterLegacyDialOut | Dials::SquatterLegacyDialIn) { 0 } else { 1 };
            let _ = peer
                .send(&auth_msg(pa::authentication_message::Msg::Name(pa::NameMessage { name: format!("{nb}@host"), flags: Some(pa::NodeFlags { version: 1 }), connection_string: "elsewhere:9".into(), connection_id })))
                .await;
            vsched::quiesce_time();
            squatter = Some(peer);
        }
        vsched::explore_schedules(true);
        match d {
            Dials::SquatterDialOut | Dials::SquatterLegacyDialOut => dial(&t.a, &t.b, "pipe-ab", 0),
            Dials::SquatterDialIn | Dials::SquatterLegacyDialIn => dial(&t.b, &t.a, "pipe-ba", 0),
            Dials::Simultaneous | Dials::SimultaneousThenSpoof => {
                dial(&t.a, &t.b, "pipe-ab", 0);
                dial(&t.b, &t.a, "pipe-ba", 0);
            }
            Dials::TwiceSameDirection => {
                dial(&t.a, &t.b, "pipe-ab1", 0);
                dial(&t.a, &t.b, "pipe-ab2", 0);
            }
            Dials::ThreeMixed => {
                dial(&t.a, &t.b, "pipe-ab1", 0);
                dial(&t.b, &t.a, "pipe-ba", 0);
                dial(&t.a, &t.b, "pipe-ab2", 0);
            }
            Dials::SingleThenSpoof => dial(&t.a, &t.b, "pipe-ab", 0),
        }
        vsched::quiesce_time();
        vsched::explore_schedules(false);
        let mut sa = sessions(&t.a).await;
        let sb = sessions(&t.b).await;
        if squatter.is_some() {
            // the stalled connection itself may stay listed; it must never count as the peer's session
            if sa.iter().any(|s| s.0 == "pipe-spoof" && s.2.get_status() == ActorStatus::Running) {
                sa.retain(|s| s.0 != "pipe-spoof");
            }
        }
        let describe = |s: &Vec<(String, Option<String>, ActorRef<NodeSessionMessage>)>| s.iter().map(|x| format!("{}->{:?}", x.0, x.1)).collect::<Vec<_>>();
        if sa.len() != 1 || sb.len() != 1 {
            bad.push(format!("each node must keep exactly one session for its peer: a lists {:?}, b lists {:?}", describe(&sa), describe(&sb)));
        } else if sa[0].0 != sb[0].0 {
            bad.push(format!("the nodes kept different physical connections: a keeps {}, b keeps {}", sa[0].0, sb[0].0));
        }
        // the same among ALL session actors of each node, listed or not
        for n in [&t.a, &t.b] {
            let mut alive = 0usize;
            for k in n.server.get_children() {
                if k.get_status() == ActorStatus::Running {
                    let r: ActorRef<NodeSessionMessage> = k.clone().into();
                    if let Ok(ractor::rpc::CallResult::Success(true)) = r.call(NodeSessionMessage::GetAuthenticationState, Some(Duration::from_millis(20))).await {
                        alive += 1;
                    }
                }
            }
            if alive != 1 {
                bad.push(format!("node {} has {alive} running session actors that consider themselves authenticated, expected exactly one", n.name));
            }
        }
        let ev = t.events.lock().unwrap().clone();
        // exactly one ready session per peer is left standing (a link that became ready and was then
        // superseded by the election must have been reported as disconnected)
        let live_ready = |n: &str| -> Vec<String> {
            let mut live: Vec<String> = Vec::new();
            for e in &ev {
                if let Some(rest) = e.strip_prefix(&format!("{n}:ready ")) {
                    live.push(rest.split(' ').next().unwrap_or("").to_string());
                }
                if let Some(rest) = e.strip_prefix(&format!("{n}:disconnected ")) {
                    live.retain(|p| p != rest);
                }
            }
            live
        };
        for n in [na, nb] {
            let live = live_ready(n);
            if live.len() != 1 {
                bad.push(format!("node {n} is left with {} ready sessions for its peer ({live:?}): {ev:?}", live.len()));
            } else if let Some(s) = (if n == na { &sa } else { &sb }).first() {
                if s.0 != live[0] {
                    bad.push(format!("node {n} lists the session over {} but reported {} as the ready one", s.0, live[0]));
                }
            }
            // a link is reported ready only while it is the elected one: the node reports a link authenticated
            // exactly when it wins the election (the links it beat are closed at that moment), so the latest
            // "authenticated" before any "ready" names the same link
            let mut last_auth: Option<String> = None;
            for e in &ev {
                if let Some(rest) = e.strip_prefix(&format!("{n}:authenticated ")) {
                    last_auth = Some(rest.to_string());
                }
                if let Some(rest) = e.strip_prefix(&format!("{n}:ready ")) {
                    let link = rest.split(' ').next().unwrap_or("").to_string();
                    if last_auth.as_deref() != Some(link.as_str()) {
                        bad.push(format!("node {n} reported {link} ready after the election had already been decided for {last_auth:?}: {ev:?}"));
                    }
                }
            }
            // the same link is never reported ready twice
            let mut seen = std::collections::BTreeSet::new();
            for e in ev.iter().filter(|e| e.starts_with(&format!("{n}:ready "))) {
                if !seen.insert(e.clone()) {
                    bad.push(format!("node {n} reported the same session ready twice: {ev:?}"));
                }
            }
        }
        if let Some(mut peer) = squatter {
            if ev.iter().any(|e| e.contains("authenticated pipe-spoof") || e.contains("ready pipe-spoof")) {
                bad.push(format!("a connection that never answered the challenge was reported authenticated: {ev:?}"));
            }
            peer.close().await;
            vsched::quiesce();
        }
        let mut spoof_note = String::new();
        if matches!(d, Dials::SingleThenSpoof | Dials::SimultaneousThenSpoof) && bad.is_empty() {
            // an unauthenticated connection that only claims to be b
            let before = sessions(&t.a).await;
            let (node_end, mine) = pipe("pipe-spoof", 0);
            let _ = t.a.server.cast(NodeServerMessage::ConnectionOpenedExternal { stream: Box::new(node_end), is_server: true });
            let mut peer = ScriptedPeer::new(mine.stream);
            vsched::explore_schedules(true);
            let _ = peer
                .send(&auth_msg(pa::authentication_message::Msg::Name(pa::NameMessage { name: format!("{nb}@host"), flags: Some(pa::NodeFlags { version: 1 }), connection_string: "elsewhere:9".into(), connection_id: 1 })))
                .await;
            vsched::quiesce_time();
            vsched::explore_schedules(false);
            let after = sessions(&t.a).await;
            if describe(&after) != describe(&before) {
                bad.push(format!("an unauthenticated connection claiming the peer's name changed the session list: {:?} -> {:?}", describe(&before), describe(&after)));
            }
            if before[0].2.get_status() != ActorStatus::Running {
                bad.push("the ready session was stopped by an unauthenticated connection claiming its name".into());
            }
            let ev2 = t.events.lock().unwrap().clone();
            if ev2.iter().filter(|e| e.starts_with(&format!("{na}:ready"))).count() != ev.iter().filter(|e| e.starts_with(&format!("{na}:ready"))).count() || ev2.iter().any(|e| e.contains("authenticated pipe-spoof")) {
                bad.push(format!("node events after the spoof attempt: {ev2:?}"));
            }
            spoof_note = format!(" spoof-listed={}", after.len());
            peer.close().await;
            vsched::quiesce();
        }
        let key = format!("a={:?} b={:?}{spoof_note}", describe(&sa), describe(&sb));
        for n in [t.a, t.b] {
            n.server.stop(None);
            let _ = n.handle.await;
        }
        Outcome { key, violations: bad }
    })
}

/// the dialling half of the handshake played by the harness against an accepting node: Name(name, id), then
/// the challenge is answered with `cookie`. Returns whether the node acknowledged.
async fn scripted_name(peer: &mut ScriptedPeer, name: &str, connection_id: u64) {
    scripted_name_cs(peer, name, connection_id, "peer:1").await
}
async fn scripted_name_cs(peer: &mut ScriptedPeer, name: &str, connection_id: u64, connection_string: &str) {
    let _ = peer
        .send(&auth_msg(pa::authentication_message::Msg::Name(pa::NameMessage { name: name.into(), flags: Some(pa::NodeFlags { version: 1 }), connection_string: connection_string.into(), connection_id })))
        .await;
}
async fn scripted_finish(peer: &mut ScriptedPeer, cookie: &str) -> bool {
    let mut challenge = None;
    for _ in 0..4 {
        match peer.recv().await {
            Some(m) => {
                if let Some(proto::meta::network_message::Message::Auth(a)) = m.message {
                    if let Some(pa::authentication_message::Msg::ServerChallenge(c)) = a.msg {
                        challenge = Some(c.challenge);
                        break;
                    }
                }
            }
            None => return false,
        }
    }
    let Some(c) = challenge else { return false };
    let _ = peer.send(&auth_msg(pa::authentication_message::Msg::ClientChallenge(pa::ChallengeReply { challenge: 42, digest: challenge_digest(cookie, c) }))).await;
    for _ in 0..4 {
        match peer.recv().await {
            Some(m) => {
                if let Some(proto::meta::network_message::Message::Auth(a)) = m.message {
                    if matches!(a.msg, Some(pa::authentication_message::Msg::ServerAck(_))) {
                        return true;
                    }
                }
            }
            None => return false,
        }
    }
    false
}

/// what an honest dialling peer does: name, then follow the server's status (continue / answer an `alive`
/// with "yes, go on" / give up and let the caller close), then the challenge exchange
async fn honest_dial(peer: &mut ScriptedPeer, name: &str, id: u64, cookie: &str) -> &'static str {
    honest_dial_cs(peer, name, id, cookie, "peer:1").await
}
async fn honest_dial_cs(peer: &mut ScriptedPeer, name: &str, id: u64, cookie: &str, connection_string: &str) -> &'static str {
    scripted_name_cs(peer, name, id, connection_string).await;
    let Some(m) = peer.recv().await else { return "closed-by-node" };
    let status = match m.message {
        Some(proto::meta::network_message::Message::Auth(a)) => match a.msg {
            Some(pa::authentication_message::Msg::ServerStatus(s)) => s.status,
            _ => -1,
        },
        _ => -1,
    };
    match status {
        0 | 1 => {
            if scripted_finish(peer, cookie).await {
                "acknowledged"
            } else {
                "no-ack"
            }
        }
        4 => {
            let _ = peer.send(&auth_msg(pa::authentication_message::Msg::ClientStatus(pa::ClientStatus { status: true }))).await;
            if scripted_finish(peer, cookie).await {
                "acknowledged"
            } else {
                "no-ack-after-alive"
            }
        }
        _ => "refused",
    }
}

#[derive(Clone, Copy, Debug, PartialEq, Eq)]
pub enum Scripted {
    /// the honest peer dials, the link becomes ready, and it dials again with another connection id (lower or
    /// higher than the first); whoever loses, the losing connection must end up closed
    RedialAfterReady(u64, u64),
    /// two dials of the honest peer with the given connection ids, both named before either finishes; the second
    /// finishes first. The rule says which one stands: the lower non-zero id; a legacy id (0) loses to any other
    TwoIds(u64, u64),
    /// `n` stalled connections claim the honest peer's name AND connection id; then the honest peer dials
    SameNonceSquatters(usize),
    /// an honest legacy peer (connection id 0) dials twice; the first dial finishes its handshake last
    LegacyTwoDials,
    /// the same with a repeated non-zero id
    RepeatedIdTwoDials,
    /// two dials with the same id that finish their handshakes in the order they were opened
    LegacyTwoDialsInOrder,
    RepeatedIdTwoDialsInOrder,
    /// three dials with the same id, finishing in the order 2, 1, 3
    LegacyThreeDials,
}

/// one real node, the peer played by the harness (it knows the cookie and controls the connection ids)
fn c18_scripted_body(kind: Scripted) -> vsched::Body {
    with_rt(move || async move {
        let events: L = Arc::new(Mutex::new(vec![]));
        let node = start_node("a", COOKIE, &events).await;
        vsched::quiesce();
        let mut bad = Vec::new();
        let open = |label: &str| {
            let (node_end, mine) = pipe(label, 0);
            let _ = node.server.cast(NodeServerMessage::ConnectionOpenedExternal { stream: Box::new(node_end), is_server: true });
            ScriptedPeer::new(mine.stream)
        };
        vsched::explore_schedules(true);
        let mut stalled = Vec::new();
        let honest_pipes: Vec<&str>;
        let mut expected_winner: Option<&str> = None;
        match kind {
            Scripted::SameNonceSquatters(n) => {
                for i in 0..n {
                    let mut p = open(&format!("pipe-stall{i}"));
                    scripted_name(&mut p, "b@host", 7).await;
                    stalled.push(p);
                }
                vsched::quiesce();
                let mut h = open("pipe-honest");
                scripted_name(&mut h, "b@host", 7).await;
                if !scripted_finish(&mut h, COOKIE).await {
                    bad.push("the honest peer's handshake was not acknowledged".to_string());
                }
                stalled.push(h);
                honest_pipes = vec!["pipe-honest"];
            }
            Scripted::RedialAfterReady(id1, id2) => {
                // (the node's listener is a child of the node server as well)
                let fixtures: Vec<ractor::ActorId> = node.server.get_children().iter().map(|k| k.get_id()).collect();
                let mut first = open("pipe-first");
                let r1 = honest_dial(&mut first, "b@host", id1, COOKIE).await;
                if r1 != "acknowledged" {
                    bad.push(format!("the first dial ended as {r1}"));
                }
                let _ = first.send(&frame_for(Sym::Ready, 0).unwrap()).await;
                vsched::quiesce_time();
                let mut second = open("pipe-second");
                let r2 = honest_dial(&mut second, "b@host", id2, COOKIE).await;
                if r2 == "acknowledged" {
                    let _ = second.send(&frame_for(Sym::Ready, 0).unwrap()).await;
                    stalled.push(second);
                } else {
                    // refused (or left without an answer): an honest peer hangs up
                    second.close().await;
                }
                vsched::quiesce_time();
                // every connection but one is closed by now: exactly one session actor is still running
                let running: Vec<String> = node.server.get_children().iter().filter(|k| !fixtures.contains(&k.get_id()) && k.get_status() == ActorStatus::Running).map(|k| k.get_id().to_string()).collect();
                if running.len() != 1 {
                    bad.push(format!("after a redial (first id {id1}, second id {id2}, second dial {r2}) {} session actors are still running ({running:?}), expected exactly one: the losing connection must be closed", running.len()));
                }
                if r2 == "no-ack-after-alive" || r2 == "no-ack" {
                    bad.push(format!("the second dial was told to go on but never received a challenge / acknowledgement ({r2})"));
                }
                stalled.push(first);
                honest_pipes = vec!["pipe-first", "pipe-second"];
            }
            Scripted::LegacyTwoDialsInOrder | Scripted::RepeatedIdTwoDialsInOrder => {
                let id = if kind == Scripted::LegacyTwoDialsInOrder { 0 } else { 9 };
                let mut first = open("pipe-first");
                scripted_name(&mut first, "b@host", id).await;
                let ok1 = scripted_finish(&mut first, COOKIE).await;
                vsched::quiesce();
                let mut second = open("pipe-second");
                scripted_name(&mut second, "b@host", id).await;
                let ok2 = scripted_finish(&mut second, COOKIE).await;
                if !ok1 && !ok2 {
                    bad.push("neither of the honest peer's two dials was acknowledged".to_string());
                }
                stalled.push(first);
                stalled.push(second);
                honest_pipes = vec!["pipe-first", "pipe-second"];
            }
            Scripted::LegacyThreeDials => {
                let mut ps = Vec::new();
                for l in ["pipe-first", "pipe-second", "pipe-third"] {
                    let mut p = open(l);
                    scripted_name(&mut p, "b@host", 0).await;
                    vsched::quiesce();
                    ps.push(p);
                }
                let mut any = false;
                for i in [1usize, 0, 2] {
                    any |= scripted_finish(&mut ps[i], COOKIE).await;
                    vsched::quiesce();
                }
                if !any {
                    bad.push("none of the honest peer's three dials was acknowledged".to_string());
                }
                stalled.extend(ps);
                honest_pipes = vec!["pipe-first", "pipe-second", "pipe-third"];
            }
            Scripted::TwoIds(id1, id2) => {
                let mut first = open("pipe-first");
                scripted_name(&mut first, "b@host", id1).await;
                vsched::quiesce();
                let mut second = open("pipe-second");
                scripted_name(&mut second, "b@host", id2).await;
                let ok2 = scripted_finish(&mut second, COOKIE).await;
                vsched::quiesce();
                let ok1 = scripted_finish(&mut first, COOKIE).await;
                if !ok1 && !ok2 {
                    bad.push("neither of the honest peer's two dials was acknowledged".to_string());
                }
                stalled.push(first);
                stalled.push(second);
                honest_pipes = vec!["pipe-first", "pipe-second"];
                expected_winner = Some(if id1 == 0 || (id2 != 0 && id2 < id1) { "pipe-second" } else { "pipe-first" });
            }
            Scripted::LegacyTwoDials | Scripted::RepeatedIdTwoDials => {
                let id = if kind == Scripted::LegacyTwoDials { 0 } else { 9 };
                let mut first = open("pipe-first");
                scripted_name(&mut first, "b@host", id).await;
                vsched::quiesce();
                let mut second = open("pipe-second");
                scripted_name(&mut second, "b@host", id).await;
                let ok2 = scripted_finish(&mut second, COOKIE).await;
                vsched::quiesce();
                let ok1 = scripted_finish(&mut first, COOKIE).await;
                if !ok1 && !ok2 {
                    bad.push("neither of the honest peer's two dials was acknowledged".to_string());
                }
                stalled.push(first);
                stalled.push(second);
                honest_pipes = vec!["pipe-first", "pipe-second"];
            }
        }
        vsched::quiesce_time();
        vsched::explore_schedules(false);
        // what is left standing: authenticated, running sessions of the peer
        let mut kids = node.server.get_children();
        kids.sort_by_key(|c| c.get_id());
        let listed = sessions(&node).await;
        let mut standing = Vec::new();
        for (pipe_label, name, actor) in &listed {
            if actor.get_status() == ActorStatus::Running {
                if let Ok(ractor::rpc::CallResult::Success(true)) = actor.call(NodeSessionMessage::GetAuthenticationState, Some(Duration::from_millis(20))).await {
                    standing.push((pipe_label.clone(), name.clone()));
                }
            }
        }
        // ... and among ALL session actors of the node, listed or not
        let mut alive_authenticated = 0usize;
        for k in &kids {
            if k.get_status() == ActorStatus::Running {
                let r: ActorRef<NodeSessionMessage> = k.clone().into();
                if let Ok(ractor::rpc::CallResult::Success(true)) = r.call(NodeSessionMessage::GetAuthenticationState, Some(Duration::from_millis(20))).await {
                    alive_authenticated += 1;
                }
            }
        }
        let ev = events.lock().unwrap().clone();
        if alive_authenticated != 1 {
            bad.push(format!("{alive_authenticated} running session actors consider themselves authenticated for the peer (listed: {standing:?}), expected exactly one: the others must have been closed; events {ev:?}"));
        }
        if standing.len() != 1 {
            bad.push(format!("{} authenticated sessions for the peer are left standing ({standing:?}), expected exactly one; events {ev:?}", standing.len()));
        } else if !honest_pipes.contains(&standing[0].0.as_str()) {
            bad.push(format!("the session left standing is {:?}, which never proved the cookie", standing[0]));
        }
        if let (Some(w), 1) = (expected_winner, standing.len()) {
            if standing[0].0 != w {
                bad.push(format!("the connection left standing is {} but the election rule (lowest connection id, a legacy id loses to any other) picks {w} for {kind:?}, whatever the order in which the candidates are examined", standing[0].0));
            }
        }
        for e in &ev {
            if e.contains("authenticated pipe-stall") || e.contains("ready pipe-stall") {
                bad.push(format!("a connection that never answered the challenge was reported authenticated: {e}"));
            }
        }
        let key = format!("{standing:?}");
        for p in stalled {
            p.close().await;
        }
        vsched::quiesce();
        node.server.stop(None);
        let _ = node.handle.await;
        Outcome { key, violations: bad }
    })
}

pub fn c18_units(thorough: bool) -> Vec<Unit> {
    let cfg = cluster_cfg();
    let mut v = Vec::new();
    for d in [
        Dials::Simultaneous,
        Dials::TwiceSameDirection,
        Dials::ThreeMixed,
        Dials::SingleThenSpoof,
        Dials::SimultaneousThenSpoof,
        Dials::SquatterDialOut,
        Dials::SquatterDialIn,
        Dials::SquatterLegacyDialOut,
        Dials::SquatterLegacyDialIn,
    ] {
        for seed in if thorough { vec![1u64, 2, 3] } else { vec![1u64] } {
            let mut c = cfg.clone();
            c.hash_seed = seed;
            v.push(Unit::explore_split(Job::new(format!("two-nodes/{d:?}/seed{seed}"), c, Some(if thorough { 2 } else { 1 }), c18_body(d)), 16));
        }
    }
    // other pairs of names: the election orders the two names, so pairs whose order depends on how names are
    // compared (upper vs lower case, one a prefix of the other, digits) get the simultaneous and mixed dials too
    for (na, nb) in [("B", "a"), ("a", "B"), ("node", "node2"), ("Z9", "z10")] {
        for d in [Dials::Simultaneous, Dials::ThreeMixed, Dials::TwiceSameDirection] {
            if !thorough && d == Dials::TwiceSameDirection {
                continue;
            }
            v.push(Unit::explore_split(Job::new(format!("two-nodes-named/{na}+{nb}/{d:?}"), cfg.clone(), Some(if thorough { 2 } else { 1 }), c18_body_named(d, na, nb)), 8));
        }
    }
    // a third node (same advertised address, different name) connects while / after a and b have their link
    // (three real nodes are expensive: one deviation in both tiers, the thorough tier adds the dial patterns)
    for (label, dials) in [("c-dials-a", &[(2usize, 0usize)][..]), ("a-dials-c", &[(0, 2)][..]), ("c-dials-a-and-b", &[(2, 0), (2, 1)][..]), ("c-and-a-dial-each-other", &[(2, 0), (0, 2)][..]), ("c-dials-b+b-dials-c+c-dials-a", &[(2, 1), (1, 2), (2, 0)][..])] {
        for simultaneous in [true, false] {
            if !thorough && !simultaneous && label != "c-dials-a" {
                continue;
            }
            v.push(Unit::explore_split(Job::new(format!("three-nodes/{label}/{}", if simultaneous { "ab-dialled-each-other" } else { "a-dialled-b" }), cfg.clone(), Some(1), c18_three_nodes_body(dials, simultaneous)), 8));
        }
    }
    for simultaneous in [true, false] {
        for empty in [false, true] {
            v.push(Unit::explore_split(Job::new(format!("three-nodes/third-advertises-{}/{}", if empty { "an-empty-address" } else { "the-address-of-b" }, if simultaneous { "ab-dialled-each-other" } else { "a-dialled-b" }), cfg.clone(), Some(if thorough { 2 } else { 1 }), c18_same_address_third_body(simultaneous, empty)), 4));
        }
    }
    // the peer played by the harness: repeated / legacy connection ids; the tables are hash maps, so several
    // hash seeds are run
    for kind in [
        Scripted::SameNonceSquatters(1),
        Scripted::SameNonceSquatters(3),
        Scripted::LegacyTwoDials,
        Scripted::RepeatedIdTwoDials,
        Scripted::LegacyTwoDialsInOrder,
        Scripted::RepeatedIdTwoDialsInOrder,
        Scripted::LegacyThreeDials,
        Scripted::RedialAfterReady(5, 9),
        Scripted::RedialAfterReady(9, 5),
        Scripted::RedialAfterReady(0, 5),
        Scripted::RedialAfterReady(5, 0),
        Scripted::TwoIds(0, u64::MAX),
        Scripted::TwoIds(u64::MAX, 0),
        Scripted::TwoIds(0, 1),
        Scripted::TwoIds(1, u64::MAX),
        Scripted::TwoIds(u64::MAX, u64::MAX - 1),
        Scripted::TwoIds(7, 3),
    ] {
        for seed in if thorough { (1u64..=8).collect::<Vec<_>>() } else { vec![1u64, 2, 3, 4] } {
            let mut c = cfg.clone();
            c.hash_seed = seed;
            v.push(Unit::explore_split(Job::new(format!("scripted-peer/{kind:?}/seed{seed}").replace(['(', ')'], ""), c, Some(if thorough { 2 } else { 1 }), c18_scripted_body(kind)), 4));
        }
    }
    v
}

// ------------------------------------------------------------------------------------------------
// C20: remote actors behave like the actors they stand for
// ------------------------------------------------------------------------------------------------

#[derive(Clone, Copy, Debug, PartialEq, Eq)]
pub enum Ending {
    None,
    OriginalStops,
    PipeCloses,
}

fn remote_ref_of(original: ActorId, group: &str) -> Option<ActorCell> {
    ractor::pg::get_members(&group.to_string()).into_iter().find(|c| !c.get_id().is_local() && c.get_id().pid() == original.pid())
}

fn c20_body(read_limit: usize, ending: Ending, abandon: bool) -> vsched::Body {
    with_rt(move || async move {
        let t = two_nodes().await;
        let plog: L = Arc::new(Mutex::new(vec![]));
        let (p, ph) = Actor::spawn(Some("P".into()), Probe { log: plog.clone(), tag: "P", reply_delay_ms: 2 }, ()).await.expect("P");
        ractor::pg::join("pub".into(), vec![p.get_cell()]);
        // (a group that exists when the session starts, with a member that cannot be reached remotely)
        let (lo0, lo0h) = Actor::spawn(None, LocalOnly { log: plog.clone() }, ()).await.expect("local only");
        ractor::pg::join("pre-mixed".into(), vec![lo0.get_cell(), p.get_cell()]);
        dial(&t.a, &t.b, "pipe-ab", read_limit);
        vsched::quiesce_time();
        let mut bad = Vec::new();
        let ev = t.events.lock().unwrap().clone();
        if ev.iter().filter(|e| e.contains(":ready")).count() != 2 {
            bad.push(format!("the two nodes did not both reach ready: {ev:?}"));
        }
        let Some(proxy) = remote_ref_of(p.get_id(), "pub") else {
            bad.push(format!("no remote reference for the advertised actor joined the group: {:?}", ractor::pg::verif_snapshot().groups));
            for n in [t.a, t.b] {
                n.server.stop(None);
                let _ = n.handle.await;
            }
            p.stop(None);
            let _ = ph.await;
            return Outcome { key: "no-proxy".into(), violations: bad };
        };
        let proxy_ref: ActorRef<Wire> = proxy.clone().into();
        vsched::explore_schedules(true);
        // two senders, two casts each; three concurrent calls, one of them abandoned
        let mut tasks = Vec::new();
        for s in 0..2u32 {
            let r = proxy_ref.clone();
            tasks.push(vsched::spawn("sender", async move {
                let a = r.cast(Wire::Note(s * 10 + 1, format!("s{s}"))).is_ok();
                let b = r.cast(Wire::Note(s * 10 + 2, format!("s{s}"))).is_ok();
                (a, b)
            }));
        }
        let mut calls = Vec::new();
        for c in 0..3u32 {
            let r = proxy_ref.clone();
            calls.push(vsched::spawn("caller", async move {
                let fut = r.call(|reply| Wire::Ask(100 + c, reply), Some(Duration::from_millis(200)));
                if abandon && c == 1 {
                    // the caller gives up after the first poll
                    let _ = vsched::cut(fut, 2).await;
                    None
                } else {
                    Some(fut.await)
                }
            }));
        }
        let mut sent = Vec::new();
        for tk in tasks {
            sent.push(tk.await.unwrap_or((false, false)));
        }
        let mut results = Vec::new();
        for (i, c) in calls.into_iter().enumerate() {
            results.push((i as u32, c.await.flatten()));
        }
        vsched::quiesce_time();
        vsched::explore_schedules(false);
        let l = plog.lock().unwrap().clone();
        // delivery: same variants and arguments, per-sender order
        for s in 0..2u32 {
            let got: Vec<&String> = l.iter().filter(|e| e.starts_with("P:note") && e.ends_with(&format!("s{s}"))).collect();
            let want = vec![format!("P:note {} s{s}", s * 10 + 1), format!("P:note {} s{s}", s * 10 + 2)];
            if got.iter().map(|x| x.to_string()).collect::<Vec<_>>() != want {
                bad.push(format!("sender {s}: the real actor handled {got:?}, expected {want:?} (casts accepted: {:?})", sent[s as usize]));
            }
        }
        for (i, r) in &results {
            match r {
                Some(Ok(ractor::rpc::CallResult::Success(v))) => {
                    if *v != 1100 + i {
                        bad.push(format!("call {i} received the reply {v}, which belongs to another call"));
                    }
                }
                Some(other) => bad.push(format!("call {i} ended as {:?}", other.as_ref().map(|c| format!("{c:?}")).map_err(|_| "send error"))),
                None => {
                    if !(abandon && *i == 1) {
                        bad.push(format!("call {i} was cut although it was not the abandoned one"));
                    }
                }
            }
        }
        let asks = l.iter().filter(|e| e.starts_with("P:ask")).count();
        if asks != 3 {
            bad.push(format!("the real actor handled {asks} of 3 calls: {l:?}"));
        }
        if abandon {
            // a call is abandoned while nothing else is outstanding on this reference and the real actor
            // has not answered it yet; the next caller must get its own answer, not the abandoned one's
            vsched::explore_schedules(true);
            let gone = proxy_ref.call(|reply| Wire::Ask(202, reply), Some(Duration::from_millis(200)));
            let _ = vsched::poll_then_drop(gone, 1).await;
            let mine = proxy_ref.call(|reply| Wire::Ask(206, reply), Some(Duration::from_millis(200))).await;
            match mine {
                Ok(ractor::rpc::CallResult::Success(1206)) => {}
                Ok(ractor::rpc::CallResult::Success(v)) => bad.push(format!("a call made after another caller abandoned its call received the reply {v}, which belongs to the abandoned call (expected 1206)")),
                other => bad.push(format!("a call made after another caller abandoned its call ended as {:?}", other.as_ref().map(|c| format!("{c:?}")).map_err(|_| "send error"))),
            }
            vsched::quiesce_time();
            vsched::explore_schedules(false);
            let l = plog.lock().unwrap().clone();
            if l.iter().filter(|e| e.starts_with("P:ask 20")).count() != 2 {
                bad.push(format!("the real actor did not handle the abandoned and the following call: {l:?}"));
            }
        }
        // one sender pipelines on the same reference: a request whose answer it does not wait for, then two
        // casts, then another request; the real actor must handle the four in that order
        {
            vsched::explore_schedules(true);
            let before = plog.lock().unwrap().len();
            let (tx1, rx1) = ractor::concurrency::oneshot();
            let (tx2, rx2) = ractor::concurrency::oneshot();
            let ok = [
                proxy_ref.cast(Wire::Ask(150, tx1.into())).is_ok(),
                proxy_ref.cast(Wire::Note(31, "pipe".into())).is_ok(),
                proxy_ref.cast(Wire::Note(32, "pipe".into())).is_ok(),
                proxy_ref.cast(Wire::Ask(151, tx2.into())).is_ok(),
            ];
            let a1 = rx1.await.ok();
            let a2 = rx2.await.ok();
            vsched::quiesce_time();
            vsched::explore_schedules(false);
            let l: Vec<String> = plog.lock().unwrap()[before..].to_vec();
            let want = vec!["P:ask 150".to_string(), "P:note 31 pipe".into(), "P:note 32 pipe".into(), "P:ask 151".into()];
            if l != want {
                bad.push(format!("one sender pipelined request, cast, cast, request on one remote reference (accepted: {ok:?}); the real actor handled {l:?}, expected {want:?}"));
            }
            if a1 != Some(1150) || a2 != Some(1151) {
                bad.push(format!("the pipelined requests were answered {a1:?} and {a2:?}, expected 1150 and 1151"));
            }
        }
        // a large message followed at once by small ones from the same sender (the link's writer batches what is
        // queued): all arrive, in order, whole
        {
            vsched::explore_schedules(true);
            let before = plog.lock().unwrap().len();
            let big = "x".repeat(80 * 1024);
            let ok = [
                proxy_ref.cast(Wire::Note(60, "small".into())).is_ok(),
                proxy_ref.cast(Wire::Note(61, big.clone())).is_ok(),
                proxy_ref.cast(Wire::Note(62, "small".into())).is_ok(),
                proxy_ref.cast(Wire::Note(63, "small".into())).is_ok(),
            ];
            vsched::quiesce_time();
            vsched::explore_schedules(false);
            let l: Vec<String> = plog.lock().unwrap()[before..].iter().map(|e| if e.len() > 60 { format!("{}..({} bytes)", &e[..12], e.len()) } else { e.clone() }).collect();
            let want = vec!["P:note 60 small".to_string(), format!("P:note 61 xx..({} bytes)", "P:note 61 ".len() + big.len()), "P:note 62 small".into(), "P:note 63 small".into()];
            if l != want {
                bad.push(format!("one sender cast small, 80 KiB, small, small on one remote reference (accepted: {ok:?}); the real actor handled {l:?}, expected {want:?}"));
            }
        }
        // every remote reference of P answers (both nodes live in this process, each session owns one; pg
        // only keeps one of the two because their remote ids coincide)
        for n in [&t.a, &t.b] {
            for (_, _, sess) in sessions(n).await {
                for px in sess.get_children().into_iter().filter(|c| !c.get_id().is_local() && c.get_id().pid() == p.get_id().pid()) {
                    let r: ActorRef<Wire> = px.clone().into();
                    let ans = r.call(|reply| Wire::Ask(401, reply), Some(Duration::from_millis(100))).await;
                    if !matches!(ans, Ok(ractor::rpc::CallResult::Success(1401))) {
                        bad.push(format!("remote reference {} of the advertised actor (node {}) does not reach it: {:?}", px.get_id(), n.name, ans.as_ref().map(|c| format!("{c:?}")).map_err(|_| "send error")));
                    }
                }
            }
        }
        // group membership mirrors the original
        ractor::pg::leave("pub".into(), vec![p.get_cell()]);
        vsched::quiesce_time();
        if remote_ref_of(p.get_id(), "pub").is_some() {
            bad.push("the original left the group but its remote reference is still a member".into());
        }
        ractor::pg::join("pub".into(), vec![p.get_cell()]);
        vsched::quiesce_time();
        if remote_ref_of(p.get_id(), "pub").is_none() {
            bad.push("the original re-joined the group but its remote reference did not".into());
        }
        // one join / leave call whose list mixes actors that cannot be reached remotely with actors that can: the
        // former are skipped, the latter mirrored, wherever they stand in the list
        {
            let mlog: L = Arc::new(Mutex::new(vec![]));
            let (lo1, lo1h) = Actor::spawn(None, LocalOnly { log: mlog.clone() }, ()).await.expect("local only");
            let (lo2, lo2h) = Actor::spawn(None, LocalOnly { log: mlog.clone() }, ()).await.expect("local only");
            let (r1, r1h) = Actor::spawn(None, Probe { log: mlog.clone(), tag: "R1", reply_delay_ms: 0 }, ()).await.expect("R1");
            let (r2, r2h) = Actor::spawn(None, Probe { log: mlog.clone(), tag: "R2", reply_delay_ms: 0 }, ()).await.expect("R2");
            for (g, list) in [
                ("mixed-local-first", vec![lo1.get_cell(), r1.get_cell(), r2.get_cell()]),
                ("mixed-local-middle", vec![r1.get_cell(), lo1.get_cell(), r2.get_cell(), lo2.get_cell()]),
                ("mixed-local-last", vec![r1.get_cell(), r2.get_cell(), lo2.get_cell()]),
            ] {
                ractor::pg::join(g.into(), list.clone());
                vsched::quiesce_time();
                for (n, r) in [("R1", &r1), ("R2", &r2)] {
                    if remote_ref_of(r.get_id(), g).is_none() {
                        bad.push(format!("{n} joined group {g} (in one call with actors that cannot be reached remotely) but no remote reference of it is a member on the peer"));
                    }
                }
                ractor::pg::leave(g.into(), list);
                vsched::quiesce_time();
                for (n, r) in [("R1", &r1), ("R2", &r2)] {
                    if remote_ref_of(r.get_id(), g).is_some() {
                        bad.push(format!("{n} left group {g} (in one call with actors that cannot be reached remotely) but its remote reference is still a member"));
                    }
                }
            }
            if remote_ref_of(p.get_id(), "pre-mixed").is_none() {
                bad.push("a group that existed before the session (members: P and an actor that cannot be reached remotely) was announced without P".into());
            }
            for (r, h) in [(r1, r1h), (r2, r2h)] {
                r.stop(None);
                let _ = h.await;
            }
            for (r, h) in [(lo1, lo1h), (lo2, lo2h)] {
                r.stop(None);
                let _ = h.await;
            }
            vsched::quiesce_time();
        }
        // an actor that appears after the session became ready: advertised when it joins a group, reachable
        // through its remote reference, gone from the group when it stops
        vsched::explore_schedules(true);
        let qlog: L = Arc::new(Mutex::new(vec![]));
        let (q, qh) = Actor::spawn(Some("Q".into()), Probe { log: qlog.clone(), tag: "Q", reply_delay_ms: 0 }, ()).await.expect("Q");
        ractor::pg::join("late".into(), vec![q.get_cell()]);
        vsched::quiesce_time();
        match remote_ref_of(q.get_id(), "late") {
            None => bad.push(format!("an actor spawned after the session was ready joined a group but no remote reference followed: {:?}", ractor::pg::verif_snapshot().groups)),
            Some(qproxy) => {
                let qr: ActorRef<Wire> = qproxy.clone().into();
                let _ = qr.cast(Wire::Note(7, "late".into()));
                let ans = qr.call(|reply| Wire::Ask(301, reply), Some(Duration::from_millis(100))).await;
                vsched::quiesce_time();
                if !matches!(ans, Ok(ractor::rpc::CallResult::Success(1301))) {
                    bad.push(format!("a call through the late actor's remote reference ended as {:?}", ans.as_ref().map(|c| format!("{c:?}")).map_err(|_| "send error")));
                }
                if qlog.lock().unwrap().clone() != vec!["Q:note 7 late".to_string(), "Q:ask 301".to_string()] {
                    bad.push(format!("the late actor handled {:?}", qlog.lock().unwrap()));
                }
                q.stop(None);
                vsched::quiesce_time();
                if qproxy.get_status() != ActorStatus::Stopped {
                    bad.push(format!("the late actor stopped but its remote reference is {:?}", qproxy.get_status()));
                }
                if ractor::pg::get_members(&"late".to_string()).iter().any(|c| c.get_id() == qproxy.get_id()) {
                    bad.push("the late actor stopped but its remote reference is still a group member".into());
                }
            }
        }
        q.stop(None);
        let _ = qh.await;
        vsched::explore_schedules(false);
        match ending {
            Ending::None => {}
            Ending::OriginalStops => {
                p.stop(None);
                vsched::quiesce_time();
            }
            Ending::PipeCloses => {
                // closing the link: stop one of the two sessions' transports by stopping the session at a
                for (_, _, s) in sessions(&t.a).await {
                    s.stop(Some("link down".into()));
                }
                vsched::quiesce_time();
            }
        }
        if ending != Ending::None {
            if proxy.get_status() != ActorStatus::Stopped {
                bad.push(format!("after {ending:?} the remote reference is {:?}", proxy.get_status()));
            }
            if ractor::pg::get_members(&"pub".to_string()).iter().any(|c| c.get_id() == proxy.get_id()) {
                bad.push(format!("after {ending:?} the remote reference is still a group member"));
            }
            if proxy_ref.cast(Wire::Note(99, "late".into())).is_ok() {
                bad.push(format!("after {ending:?} a send to the remote reference was accepted"));
            }
        }
        let key = format!("{l:?} results={:?}", results.iter().map(|r| r.1.as_ref().map(|x| format!("{x:?}"))).collect::<Vec<_>>());
        for n in [t.a, t.b] {
            n.server.stop(None);
            let _ = n.handle.await;
        }
        lo0.stop(None);
        let _ = lo0h.await;
        p.stop(None);
        let _ = ph.await;
        Outcome { key, violations: bad }
    })
}

/// C19: a node configured with a small inbound frame limit receives, at every stage of a session, a frame
/// header declaring more than the limit (and nothing else). The session must close without waiting for a
/// payload; a header within the limit keeps it waiting for the payload.
fn c19_limit_body(is_server: bool, stage: usize, declared: u64, limit: u64) -> vsched::Body {
    with_rt(move || async move {
        let events: L = Arc::new(Mutex::new(vec![]));
        let node = start_node_limited("a", COOKIE, &events, Some(limit)).await;
        vsched::quiesce();
        let (node_end, mine) = pipe("pipe-0", 0);
        let _ = node.server.cast(NodeServerMessage::ConnectionOpenedExternal { stream: Box::new(node_end), is_server });
        let mut peer = ScriptedPeer::new(mine.stream);
        vsched::quiesce();
        let mut kids = node.server.get_children();
        kids.sort_by_key(|c| c.get_id());
        let session = kids.last().cloned();
        let mut bad = Vec::new();
        vsched::explore_schedules(true);
        // stage 0: first thing on the wire; stage 1: after the first honest handshake frame
        if stage >= 1 {
            if is_server {
                let _ = peer.send(&auth_msg(pa::authentication_message::Msg::Name(pa::NameMessage { name: "peer@host".into(), flags: Some(pa::NodeFlags { version: 1 }), connection_string: "peer:1".into(), connection_id: 5 }))).await;
            } else {
                let _ = peer.send(&auth_msg(pa::authentication_message::Msg::ServerStatus(pa::ServerStatus { status: 0 }))).await;
            }
            vsched::quiesce();
            while peer.recv().await.is_some() {}
            vsched::quiesce();
        }
        let alive_before = session.as_ref().map(|s| s.get_status() == ActorStatus::Running).unwrap_or(false);
        let _ = peer.send_raw(&declared.to_be_bytes()).await;
        vsched::quiesce_time();
        let status = session.as_ref().map(|s| s.get_status());
        if !alive_before {
            bad.push("the session was not running before the oversized header was sent".to_string());
        } else if declared > limit {
            if status != Some(ActorStatus::Stopped) {
                bad.push(format!("a frame header declaring {declared} bytes (limit {limit}) left the session {status:?}: it must be rejected before any payload is read"));
            }
        } else if status != Some(ActorStatus::Running) {
            bad.push(format!("a frame header declaring {declared} bytes (limit {limit}, so legal) left the session {status:?} although no payload byte was sent yet"));
        }
        if node.server.get_status() != ActorStatus::Running {
            bad.push("the node server itself went down".into());
        }
        let key = format!("{status:?}");
        peer.close().await;
        vsched::quiesce();
        node.server.stop(None);
        let _ = node.handle.await;
        Outcome { key, violations: bad }
    })
}

/// C19 / C20: the connection is lost in the middle of a frame, at every byte offset of a valid cast frame that
/// follows an honest handshake. That session closes, nothing of the half frame takes effect, the node and its
/// other sessions live on (a second honest peer still gets through and its cast is delivered).
fn c19_truncation_body() -> vsched::Body {
    with_rt(move || async move {
        let w = world().await;
        let mut bad = Vec::new();
        let open = |label: &str| {
            let (node_end, mine) = pipe(label, 0);
            let _ = w.node.server.cast(NodeServerMessage::ConnectionOpenedExternal { stream: Box::new(node_end), is_server: true });
            ScriptedPeer::new(mine.stream)
        };
        let target = w.p.get_id().pid();
        let mut frame = Vec::new();
        VerifFrameReader::encode(&frame_for(Sym::Cast, target).unwrap(), &mut frame);
        let cut = vsched::choose_free("cut-at", frame.len());
        vsched::explore_schedules(true);
        let mut first = open("pipe-first");
        scripted_name(&mut first, "b@host", 3).await;
        if !scripted_finish(&mut first, COOKIE).await {
            bad.push("the honest handshake was not acknowledged".to_string());
        }
        let _ = first.send(&frame_for(Sym::Ready, 0).unwrap()).await;
        vsched::quiesce();
        while first.recv().await.is_some() {}
        let mut kids = w.node.server.get_children();
        kids.sort_by_key(|c| c.get_id());
        let session = kids.last().cloned();
        // the frame, cut
        let _ = first.send_raw(&frame[..cut]).await;
        first.close().await;
        vsched::quiesce_time();
        let handled = w.plog.lock().unwrap().clone();
        if !handled.is_empty() {
            bad.push(format!("a cast frame cut after {cut} of {} bytes was delivered: {handled:?}", frame.len()));
        }
        if session.as_ref().map(|s| s.get_status()) != Some(ActorStatus::Stopped) {
            bad.push(format!("the session whose connection was lost mid-frame (after {cut} bytes) is {:?}", session.as_ref().map(|s| s.get_status())));
        }
        if w.node.server.get_status() != ActorStatus::Running {
            bad.push("the node server went down".into());
        }
        // the node is not wedged: another honest peer authenticates and its whole frame is delivered
        let mut second = open("pipe-second");
        scripted_name(&mut second, "c@host", 4).await;
        if !scripted_finish(&mut second, COOKIE).await {
            bad.push(format!("after a connection was lost mid-frame (at byte {cut}) the next honest handshake was not acknowledged"));
        }
        let _ = second.send(&frame_for(Sym::Ready, 0).unwrap()).await;
        vsched::quiesce();
        while second.recv().await.is_some() {}
        let _ = second.send_raw(&frame).await;
        vsched::quiesce_time();
        let handled = w.plog.lock().unwrap().clone();
        if handled.len() != 1 {
            bad.push(format!("the complete cast frame of the next peer was handled {} times: {handled:?}", handled.len()));
        }
        vsched::explore_schedules(false);
        second.close().await;
        vsched::quiesce();
        let key = format!("cut={cut}");
        teardown(w).await;
        Outcome { key, violations: bad }
    })
}

/// C19 / C20: messages that carry metadata next to their arguments (a factory Job: key and options travel as
/// metadata) cross a real link as casts and as calls, with and without a reply timeout, and arrive with the
/// same key, variant and arguments
struct JobResponder {
    log: L,
}
type JMsg = ractor::factory::Job<u64, Wire>;
impl Actor for JobResponder {
    type Msg = JMsg;
    type State = ();
    type Arguments = ();
    async fn pre_start(&self, _m: ActorRef<JMsg>, _: ()) -> Result<(), ActorProcessingErr> {
        Ok(())
    }
    async fn handle(&self, _m: ActorRef<JMsg>, j: JMsg, _: &mut ()) -> Result<(), ActorProcessingErr> {
        match j.msg {
            Wire::Note(n, s) => self.log.lock().unwrap().push(format!("J:note key={} {n} {s}", j.key)),
            Wire::Ask(n, reply) => {
                self.log.lock().unwrap().push(format!("J:ask key={} {n}", j.key));
                let _ = reply.send(j.key as u32 * 1000 + n);
            }
        }
        Ok(())
    }
}

fn c19_metadata_body(read_limit: usize) -> vsched::Body {
    with_rt(move || async move {
        let t = two_nodes().await;
        let jlog: L = Arc::new(Mutex::new(vec![]));
        let (j, jh) = Actor::spawn(None, JobResponder { log: jlog.clone() }, ()).await.expect("J");
        ractor::pg::join("jobs".into(), vec![j.get_cell()]);
        dial(&t.a, &t.b, "pipe-ab", read_limit);
        vsched::quiesce_time();
        let mut bad = Vec::new();
        let Some(proxy) = remote_ref_of(j.get_id(), "jobs") else {
            bad.push("no remote reference for the job responder".to_string());
            for n in [t.a, t.b] {
                n.server.stop(None);
                let _ = n.handle.await;
            }
            j.stop(None);
            let _ = jh.await;
            return Outcome { key: "no-proxy".into(), violations: bad };
        };
        let r: ActorRef<JMsg> = proxy.into();
        vsched::explore_schedules(true);
        let c1 = r.cast(ractor::factory::Job::new(7, Wire::Note(5, "m".into()))).is_ok();
        let a1 = r.call(|reply| ractor::factory::Job::new(41, Wire::Ask(1, reply)), None).await;
        let a2 = r.call(|reply| ractor::factory::Job::new(42, Wire::Ask(2, reply)), Some(Duration::from_millis(200))).await;
        vsched::quiesce_time();
        vsched::explore_schedules(false);
        let show = |x: &Result<ractor::rpc::CallResult<u32>, ractor::MessagingErr<JMsg>>| match x {
            Ok(c) => format!("{c:?}"),
            Err(_) => "send error".to_string(),
        };
        if !c1 {
            bad.push("the cast of a job through the remote reference was refused".to_string());
        }
        if !matches!(a1, Ok(ractor::rpc::CallResult::Success(41001))) {
            bad.push(format!("a call carrying metadata (job key 41), no timeout, ended as {}, expected Success(41001)", show(&a1)));
        }
        if !matches!(a2, Ok(ractor::rpc::CallResult::Success(42002))) {
            bad.push(format!("a call carrying metadata (job key 42) with a reply timeout ended as {}, expected Success(42002)", show(&a2)));
        }
        let l = jlog.lock().unwrap().clone();
        let want = vec!["J:note key=7 5 m".to_string(), "J:ask key=41 1".into(), "J:ask key=42 2".into()];
        if l != want {
            bad.push(format!("the real actor handled {l:?}, expected {want:?}"));
        }
        let key = format!("{l:?}");
        for n in [t.a, t.b] {
            n.server.stop(None);
            let _ = n.handle.await;
        }
        j.stop(None);
        let _ = jh.await;
        Outcome { key, violations: bad }
    })
}

pub fn c19_limit_units(thorough: bool) -> Vec<Unit> {
    let cfg = cluster_cfg();
    let mut v = Vec::new();
    let limit = 64u64;
    let mut sizes = vec![limit, limit + 1, 1 << 20, 16 * 1024 * 1024, 16 * 1024 * 1024 + 1];
    if thorough {
        sizes.extend([1, limit - 1, 2 * limit, 65_536, u32::MAX as u64, u64::MAX]);
    }
    for is_server in [true, false] {
        for stage in [0usize, 1] {
            for d in &sizes {
                v.push(Unit::explore(Job::new(format!("node-limit/{}/stage{stage}/declared{d}", if is_server { "accepting" } else { "dialling" }), cfg.clone(), Some(if thorough { 2 } else { 1 }), c19_limit_body(is_server, stage, *d, limit))));
            }
        }
    }
    for rl in [0usize, 7] {
        v.push(Unit::explore(Job::new(format!("node-metadata/job-cast-and-calls/read{rl}"), cfg.clone(), Some(if thorough { 1 } else { 0 }), c19_metadata_body(rl))));
    }
    // connection lost at every byte offset of a frame (free choice), after an honest handshake
    v.push(Unit::explore_split(Job::new("node-truncation/cast-frame-cut-at-every-offset", cfg.clone(), Some(if thorough { 1 } else { 0 }), c19_truncation_body()), 8));
    v
}

/// An actor whose pre_start joins a group and then takes a while: the peer learns of it (and of its group) while
/// it is still Starting, and what the peer sends through the stand-in in that window waits in the original's
/// mailbox and is handled once it runs; the stand-in keeps working afterwards.
struct SlowStarter {
    log: L,
    start_ms: u64,
}
impl Actor for SlowStarter {
    type Msg = Wire;
    type State = ();
    type Arguments = ();
    async fn pre_start(&self, me: ActorRef<Wire>, _: ()) -> Result<(), ActorProcessingErr> {
        ractor::pg::join("slow".into(), vec![me.get_cell()]);
        ractor::concurrency::sleep(Duration::from_millis(self.start_ms)).await;
        self.log.lock().unwrap().push("Q:started".into());
        Ok(())
    }
    async fn handle(&self, _m: ActorRef<Wire>, m: Wire, _: &mut ()) -> Result<(), ActorProcessingErr> {
        match m {
            Wire::Note(n, s) => self.log.lock().unwrap().push(format!("Q:note {n} {s}")),
            Wire::Ask(n, reply) => {
                self.log.lock().unwrap().push(format!("Q:ask {n}"));
                let _ = reply.send(1000 + n);
            }
        }
        Ok(())
    }
}

fn c20_slow_start_body(instant: bool) -> vsched::Body {
    with_rt(move || async move {
        let t = two_nodes().await;
        dial(&t.a, &t.b, "pipe-ab", 0);
        vsched::quiesce_time();
        let mut bad = Vec::new();
        let qlog: L = Arc::new(Mutex::new(vec![]));
        vsched::explore_schedules(true);
        let starter = SlowStarter { log: qlog.clone(), start_ms: 20 };
        let q = if instant {
            let (q, _outer) = ractor::ActorRuntime::<SlowStarter>::spawn_instant(None, starter, ()).expect("instant Q");
            q
        } else {
            // an awaited spawn run by a task of its own; the reference is fished out of the group
            let _h = vsched::spawn("spawner", async move { Actor::spawn(None, starter, ()).await.map(|(_, h)| h) });
            vsched::quiesce();
            let Some(cell) = ractor::pg::get_local_members(&"slow".to_string()).into_iter().next() else {
                return Outcome { key: "no-q".into(), violations: vec!["(harness) the slow starter did not join its group".into()] };
            };
            let q: ActorRef<Wire> = cell.into();
            q
        };
        // no time passes: Q is still inside pre_start (or has not begun), the peer already knows it
        vsched::quiesce();
        let status_then = q.get_status();
        let proxy = remote_ref_of(q.get_id(), "slow");
        match &proxy {
            None => bad.push(format!("the actor joined a group in pre_start ({status_then:?}) but no remote reference appeared in that group: {:?}", ractor::pg::verif_snapshot().groups)),
            Some(px) => {
                let r: ActorRef<Wire> = px.clone().into();
                let c1 = r.cast(Wire::Note(1, "early".into())).is_ok();
                let early = r.call(|reply| Wire::Ask(2, reply), Some(Duration::from_millis(200))).await;
                vsched::quiesce_time();
                let c2 = r.cast(Wire::Note(5, "late".into())).is_ok();
                let late = r.call(|reply| Wire::Ask(6, reply), Some(Duration::from_millis(200))).await;
                vsched::quiesce_time();
                let l = qlog.lock().unwrap().clone();
                let want = vec!["Q:started".to_string(), "Q:note 1 early".into(), "Q:ask 2".into(), "Q:note 5 late".into(), "Q:ask 6".into()];
                if l != want {
                    bad.push(format!("the original was {status_then:?} when the peer first used its remote reference (casts accepted: {c1}, {c2}); it handled {l:?}, expected {want:?}"));
                }
                for (name, a, v) in [("during start-up", &early, 1002u32), ("after start-up", &late, 1006)] {
                    if !matches!(a, Ok(ractor::rpc::CallResult::Success(x)) if *x == v) {
                        bad.push(format!("the call made {name} ended as {:?}, expected Success({v})", a.as_ref().map(|c| format!("{c:?}")).map_err(|_| "send error")));
                    }
                }
            }
        }
        vsched::explore_schedules(false);
        let key = format!("{status_then:?} {:?}", qlog.lock().unwrap().len());
        q.stop(None);
        let _ = q.wait(None).await;
        vsched::quiesce_time();
        for n in [t.a, t.b] {
            n.server.stop(None);
            let _ = n.handle.await;
        }
        Outcome { key, violations: bad }
    })
}

/// A link on which every few bytes take more than a second: the handshake frames arrive in pieces with stalls in
/// the middle that outlast any timer inside a session. The handshake still completes, on both sides, and nobody
/// hangs up. (The run ends right after both sides are ready: from then on the sessions' ping loops, whose period
/// is drawn from `rand`, would make the run depend on something the scheduler does not own.)
fn c20_trickle_body(read_limit: usize, latency_ms: u64) -> vsched::Body {
    with_rt(move || async move {
        let t = two_nodes().await;
        let (x, y) = trickle_pipe("pipe-ab", read_limit, latency_ms);
        let _ = t.a.server.cast(NodeServerMessage::ConnectionOpenedExternal { stream: Box::new(x), is_server: false });
        let _ = t.b.server.cast(NodeServerMessage::ConnectionOpenedExternal { stream: Box::new(y), is_server: true });
        let mut ready = 0usize;
        let mut waited = 0u64;
        for _ in 0..400 {
            vsched::sleep(Duration::from_millis(300)).await;
            waited += 300;
            let ev = t.events.lock().unwrap().clone();
            ready = ev.iter().filter(|e| e.contains(":ready")).count();
            if ready == 2 || ev.iter().any(|e| e.contains(":disconnected")) {
                break;
            }
        }
        let ev = t.events.lock().unwrap().clone();
        let mut bad = Vec::new();
        if ready != 2 {
            bad.push(format!("over a link that delivers {read_limit} bytes every {latency_ms} ms the two nodes did not both become ready within {waited} ms: {ev:?}"));
        }
        if ev.iter().any(|e| e.contains(":disconnected")) {
            bad.push(format!("a session was closed although the connection was never lost: {ev:?}"));
        }
        let key = format!("ready={ready}");
        for n in [t.a, t.b] {
            n.server.stop(None);
            let _ = n.handle.await;
        }
        Outcome { key, violations: bad }
    })
}

/// A call times out at the caller while the request is still under way / the real actor still thinks
/// (transit takes time, so the peer's deadline ends later than the caller's); the next caller on the same
/// remote reference must get its own answer, not the late answer to the abandoned call.
fn c20_late_body(latency_ms: u64, think_ms: u64, pause_ms: u64) -> vsched::Body {
    with_rt(move || async move {
        let t = two_nodes().await;
        let plog: L = Arc::new(Mutex::new(vec![]));
        // even requests ending in 6 are answered after 4 x reply_delay_ms
        let (p, ph) = Actor::spawn(Some("P".into()), Probe { log: plog.clone(), tag: "P", reply_delay_ms: think_ms / 4 }, ()).await.expect("P");
        ractor::pg::join("pub".into(), vec![p.get_cell()]);
        let (x, y) = slow_pipe("pipe-ab", 0, latency_ms);
        let _ = t.a.server.cast(NodeServerMessage::ConnectionOpenedExternal { stream: Box::new(x), is_server: false });
        let _ = t.b.server.cast(NodeServerMessage::ConnectionOpenedExternal { stream: Box::new(y), is_server: true });
        vsched::quiesce_time();
        let mut bad = Vec::new();
        let Some(proxy) = remote_ref_of(p.get_id(), "pub") else {
            bad.push(format!("no remote reference for the advertised actor over the slow link: {:?}", t.events.lock().unwrap()));
            for n in [t.a, t.b] {
                n.server.stop(None);
                let _ = n.handle.await;
            }
            p.stop(None);
            let _ = ph.await;
            return Outcome { key: "no-proxy".into(), violations: bad };
        };
        let proxy_ref: ActorRef<Wire> = proxy.clone().into();
        vsched::explore_schedules(true);
        let first = proxy_ref.call(|reply| Wire::Ask(206, reply), Some(Duration::from_millis(100))).await;
        match &first {
            // (the reply converter's own timer may fire first: the caller then sees its port dropped)
            Ok(ractor::rpc::CallResult::Timeout) | Ok(ractor::rpc::CallResult::SenderError) => {}
            Ok(ractor::rpc::CallResult::Success(1206)) => {}
            other => bad.push(format!("the slow call ended as {:?}", other.as_ref().map(|c| format!("{c:?}")).map_err(|_| "send error"))),
        }
        vsched::sleep(Duration::from_millis(pause_ms)).await;
        let second = proxy_ref.call(|reply| Wire::Ask(301, reply), Some(Duration::from_millis(150))).await;
        match &second {
            Ok(ractor::rpc::CallResult::Success(1301)) => {}
            Ok(ractor::rpc::CallResult::Success(v)) => bad.push(format!("the second caller received {v}: the late answer to the first, timed-out call (expected 1301)")),
            other => bad.push(format!("the second call ended as {:?} (expected its own answer 1301)", other.as_ref().map(|c| format!("{c:?}")).map_err(|_| "send error"))),
        }
        vsched::quiesce_time();
        vsched::explore_schedules(false);
        let l = plog.lock().unwrap().clone();
        if l != vec!["P:ask 206".to_string(), "P:ask 301".to_string()] {
            bad.push(format!("the real actor handled {l:?}"));
        }
        let key = format!("first={:?} second={:?}", first.as_ref().map(|c| format!("{c:?}")).map_err(|_| ()), second.as_ref().map(|c| format!("{c:?}")).map_err(|_| ()));
        for n in [t.a, t.b] {
            n.server.stop(None);
            let _ = n.handle.await;
        }
        p.stop(None);
        let _ = ph.await;
        Outcome { key, violations: bad }
    })
}

/// An actor is spawned (and joins a group) at a schedule-chosen moment while the two nodes connect and
/// authenticate; decision points before the map operations of the pid registry make the moments between a
/// session's scan of the local actors and its subscription to later spawns reachable. Afterwards the actor
/// must be reachable through every remote reference that joined the group for it.
fn c20_spawn_race_body(max_delay: usize) -> vsched::Body {
    with_rt(move || async move {
        let t = two_nodes().await;
        let plog: L = Arc::new(Mutex::new(vec![]));
        let (p, ph) = Actor::spawn(Some("P".into()), Probe { log: plog.clone(), tag: "P", reply_delay_ms: 0 }, ()).await.expect("P");
        ractor::pg::join("pub".into(), vec![p.get_cell()]);
        vsched::explore_schedules(true);
        let qlog: L = Arc::new(Mutex::new(vec![]));
        let ql = qlog.clone();
        let racer = vsched::spawn("racer", async move {
            let delay = match std::env::var("SPAWN_DELAY").ok().and_then(|d| d.parse().ok()) {
                Some(d) => d,
                None => vsched::choose_free("spawn-after-rounds", max_delay),
            };
            for i in 0..delay {
                vsched::log(format!("racer turn {i}"));
                vsched::yield_now().await;
            }
            vsched::log("racer spawns".to_string());
            let (q, qh) = Actor::spawn(Some("Q".into()), Probe { log: ql, tag: "Q", reply_delay_ms: 0 }, ()).await.expect("Q");
            ractor::pg::join("late".into(), vec![q.get_cell()]);
            (q, qh)
        });
        dial(&t.a, &t.b, "pipe-ab", 0);
        let (q, qh) = racer.await.expect("racer");
        vsched::quiesce_time();
        vsched::explore_schedules(false);
        let mut bad = Vec::new();
        let ev = t.events.lock().unwrap().clone();
        if ev.iter().filter(|e| e.contains(":ready")).count() != 2 {
            bad.push(format!("the two nodes did not both reach ready: {ev:?}"));
        }
        // (both nodes live in this process and number their sessions alike, so the two remote references of
        // one actor carry the same remote id and pg keeps only one of them: take them from the sessions)
        let mut proxies: Vec<ActorCell> = Vec::new();
        for n in [&t.a, &t.b] {
            for (_, _, sess) in sessions(n).await {
                proxies.extend(sess.get_children().into_iter().filter(|c| !c.get_id().is_local() && c.get_id().pid() == q.get_id().pid()));
            }
        }
        if !ractor::pg::get_members(&"late".to_string()).iter().any(|c| !c.get_id().is_local() && c.get_id().pid() == q.get_id().pid()) && bad.is_empty() {
            bad.push(format!("the actor joined a group but no remote reference followed it there: {:?}", ractor::pg::verif_snapshot().groups));
        }
        if proxies.is_empty() && bad.is_empty() {
            bad.push(format!("the actor joined a group but no remote reference followed: {:?}", ractor::pg::verif_snapshot().groups));
        }
        for (i, px) in proxies.iter().enumerate() {
            let r: ActorRef<Wire> = px.clone().into();
            let ans = r.call(|reply| Wire::Ask(301 + 2 * i as u32, reply), Some(Duration::from_millis(100))).await;
            if !matches!(ans, Ok(ractor::rpc::CallResult::Success(v)) if v == 1301 + 2 * i as u32) {
                bad.push(format!(
                    "remote reference {} of an actor spawned while the session was being set up does not reach it: the call ended as {:?}",
                    px.get_id(),
                    ans.as_ref().map(|c| format!("{c:?}")).map_err(|_| "send error")
                ));
            }
        }
        let key = format!("proxies={} asks={}", proxies.len(), qlog.lock().unwrap().len());
        for n in [t.a, t.b] {
            n.server.stop(None);
            let _ = n.handle.await;
        }
        for (r, h) in [(p, ph), (q, qh)] {
            r.stop(None);
            let _ = h.await;
        }
        Outcome { key, violations: bad }
    })
}

/// The real actor stops itself on the first of several casts that are under way to it through its remote
/// reference; decision points before the registries' map operations let its exit land while the session is in
/// the middle of routing the next cast. Afterwards the remote reference must be gone and refuse sends.
fn c20_stop_race_body(casts: u32) -> vsched::Body {
    with_rt(move || async move {
        let t = two_nodes().await;
        let plog: L = Arc::new(Mutex::new(vec![]));
        let (p, ph) = Actor::spawn(Some("P".into()), Probe { log: plog.clone(), tag: "P", reply_delay_ms: 0 }, ()).await.expect("P");
        ractor::pg::join("pub".into(), vec![p.get_cell()]);
        dial(&t.a, &t.b, "pipe-ab", 0);
        vsched::quiesce_time();
        let mut bad = Vec::new();
        let mut proxies: Vec<ActorCell> = Vec::new();
        for n in [&t.a, &t.b] {
            for (_, _, sess) in sessions(n).await {
                proxies.extend(sess.get_children().into_iter().filter(|c| !c.get_id().is_local() && c.get_id().pid() == p.get_id().pid()));
            }
        }
        if proxies.is_empty() {
            bad.push(format!("no remote reference for the advertised actor: {:?}", t.events.lock().unwrap()));
        }
        vsched::explore_schedules(true);
        for px in &proxies {
            let r: ActorRef<Wire> = px.clone().into();
            let _ = r.cast(Wire::Note(666, "die".into()));
            for i in 0..casts {
                let _ = r.cast(Wire::Note(i, "after".into()));
            }
        }
        vsched::quiesce_time();
        vsched::explore_schedules(false);
        let _ = ph.await;
        vsched::quiesce_time();
        for px in &proxies {
            if px.get_status() != ActorStatus::Stopped {
                bad.push(format!("the original actor stopped itself but its remote reference {} is {:?}", px.get_id(), px.get_status()));
            }
            let r: ActorRef<Wire> = px.clone().into();
            if r.cast(Wire::Note(99, "late".into())).is_ok() {
                bad.push(format!("a send to the remote reference {} of a stopped actor was accepted", px.get_id()));
            }
        }
        if ractor::pg::get_members(&"pub".to_string()).iter().any(|c| c.get_id().pid() == p.get_id().pid()) {
            bad.push("a remote reference of the stopped actor is still a group member".into());
        }
        let key = format!("proxies={} handled={}", proxies.len(), plog.lock().unwrap().len());
        for n in [t.a, t.b] {
            n.server.stop(None);
            let _ = n.handle.await;
        }
        Outcome { key, violations: bad }
    })
}

/// An actor that appeared after the sessions were ready is joined to a group by one task while it stops: the
/// joiner is preemptible before each of its map / lock / channel steps, so the stop may run to completion inside
/// the join call — in particular between the insertion of the member and the sending of the Join notification.
/// Whatever the order in which the session hears of it, in the end no remote reference of the stopped actor is
/// running or a member of the group on the peer.
fn c20_join_vs_exit_body(kill: bool) -> vsched::Body {
    with_rt(move || async move {
        let t = two_nodes().await;
        dial(&t.a, &t.b, "pipe-ab", 0);
        vsched::quiesce_time();
        let mut bad = Vec::new();
        let qlog: L = Arc::new(Mutex::new(vec![]));
        let (q, qh) = Actor::spawn(Some("Q".into()), Probe { log: qlog.clone(), tag: "Q", reply_delay_ms: 0 }, ()).await.expect("Q");
        vsched::quiesce_time();
        vsched::explore_schedules(true);
        let qc = q.get_cell();
        // (the joiner is spawned first: left alone it completes the join before the stop is even requested; a
        // deviation at one of its steps hands over to the stopper, and the exit then runs inside the join call)
        let order: L = Arc::new(Mutex::new(vec![]));
        let (o1, o2) = (order.clone(), order.clone());
        let joiner = vsched::spawn("joiner", async move {
            let st = qc.get_status();
            ractor::pg::join("late".into(), vec![qc.clone()]);
            o1.lock().unwrap().push(format!("join returned (status at call {st:?}, at return {:?})", qc.get_status()));
        });
        let q2 = q.clone();
        let stopper = vsched::spawn("stopper", async move {
            if kill {
                q2.kill();
            } else {
                q2.stop(None);
            }
            let _ = qh.await;
            o2.lock().unwrap().push("exit complete".to_string());
        });
        let _ = joiner.await;
        let _ = stopper.await;
        vsched::quiesce_time();
        vsched::explore_schedules(false);
        let pid = q.get_id().pid();
        let members: Vec<String> = ractor::pg::get_members(&"late".to_string()).iter().filter(|c| c.get_id().pid() == pid).map(|c| format!("{}={:?}", c.get_id(), c.get_status())).collect();
        if !members.is_empty() {
            bad.push(format!("the actor stopped (its join handle completed) while it was being joined to a group; afterwards the group still has {members:?}"));
        }
        let mut standins = Vec::new();
        for n in [&t.a, &t.b] {
            for (_, _, sess) in sessions(n).await {
                for c in sess.get_children() {
                    if !c.get_id().is_local() && c.get_id().pid() == pid && c.get_status() != ActorStatus::Stopped {
                        standins.push(format!("{}={:?}", c.get_id(), c.get_status()));
                    }
                }
            }
        }
        if !standins.is_empty() {
            bad.push(format!("remote references of the stopped actor that are still alive on the peer: {standins:?}"));
        }
        let key = format!("members={} standins={} {:?}", members.len(), standins.len(), order.lock().unwrap());
        for n in [t.a, t.b] {
            n.server.stop(None);
            let _ = n.handle.await;
        }
        Outcome { key, violations: bad }
    })
}

/// The same window on the leave side: a task takes a live actor out of a group (preemptible inside the call) while
/// another task joins it again. Whatever the order, in the end the remote reference is a member of the group on
/// the peer exactly if the original is a member.
fn c20_leave_vs_rejoin_body() -> vsched::Body {
    with_rt(move || async move {
        let t = two_nodes().await;
        dial(&t.a, &t.b, "pipe-ab", 0);
        vsched::quiesce_time();
        let mut bad = Vec::new();
        let qlog: L = Arc::new(Mutex::new(vec![]));
        let (q, qh) = Actor::spawn(Some("Q".into()), Probe { log: qlog.clone(), tag: "Q", reply_delay_ms: 0 }, ()).await.expect("Q");
        ractor::pg::join("late".into(), vec![q.get_cell()]);
        vsched::quiesce_time();
        if remote_ref_of(q.get_id(), "late").is_none() {
            bad.push("set-up: the late actor joined a group but no remote reference followed".to_string());
        }
        vsched::explore_schedules(true);
        let (qc1, qc2) = (q.get_cell(), q.get_cell());
        let leaver = vsched::spawn("joiner", async move {
            ractor::pg::leave("late".into(), vec![qc1]);
        });
        let rejoiner = vsched::spawn("stopper", async move {
            ractor::pg::join("late".into(), vec![qc2]);
        });
        let _ = leaver.await;
        let _ = rejoiner.await;
        vsched::quiesce_time();
        vsched::explore_schedules(false);
        let original = ractor::pg::get_members(&"late".to_string()).iter().any(|c| c.get_id() == q.get_id());
        let mirrored = remote_ref_of(q.get_id(), "late").is_some();
        if original != mirrored {
            bad.push(format!("after a leave and a join of the same live actor raced, the original is {} of the group but its remote reference on the peer is {}", if original { "a member" } else { "not a member" }, if mirrored { "a member" } else { "not a member" }));
        }
        q.stop(None);
        let _ = qh.await;
        vsched::quiesce_time();
        let key = format!("original={original} mirrored={mirrored}");
        for n in [t.a, t.b] {
            n.server.stop(None);
            let _ = n.handle.await;
        }
        Outcome { key, violations: bad }
    })
}

/// The transport of the link loses ONE direction: from some moment on every write of node a fails with BrokenPipe
/// while its reads stay open (a user-supplied transport whose two halves fail independently). The next frame a
/// has to send (a group change here) hits the error; the session closes, and with it every remote reference on
/// both sides stops, leaves its groups and refuses sends.
fn c20_send_direction_lost_body(flush_only_after: bool) -> vsched::Body {
    with_rt(move || async move {
        let t = two_nodes().await;
        let plog: L = Arc::new(Mutex::new(vec![]));
        let (p, ph) = Actor::spawn(Some("P".into()), Probe { log: plog.clone(), tag: "P", reply_delay_ms: 0 }, ()).await.expect("P");
        ractor::pg::join("pub".into(), vec![p.get_cell()]);
        let cut = Arc::new(std::sync::atomic::AtomicBool::new(false));
        {
            let (mut x, y) = pipe("pipe-ab", 0);
            x.cut_writes = Some(cut.clone());
            let _ = t.a.server.cast(NodeServerMessage::ConnectionOpenedExternal { stream: Box::new(x), is_server: false });
            let _ = t.b.server.cast(NodeServerMessage::ConnectionOpenedExternal { stream: Box::new(y), is_server: true });
        }
        vsched::quiesce_time();
        let mut bad = Vec::new();
        let mut proxies: Vec<ActorCell> = Vec::new();
        for n in [&t.a, &t.b] {
            for (_, _, sess) in sessions(n).await {
                proxies.extend(sess.get_children().into_iter().filter(|c| !c.get_id().is_local() && c.get_id().pid() == p.get_id().pid()));
            }
        }
        if proxies.is_empty() {
            bad.push(format!("set-up: no remote reference for the advertised actor: {:?}", t.events.lock().unwrap()));
        }
        let before = sessions(&t.a).await.len();
        vsched::explore_schedules(true);
        cut.store(true, std::sync::atomic::Ordering::SeqCst);
        // something both sessions have to tell their peer
        if flush_only_after {
            ractor::pg::leave("pub".into(), vec![p.get_cell()]);
        } else {
            ractor::pg::join("second".into(), vec![p.get_cell()]);
        }
        vsched::quiesce_time();
        vsched::explore_schedules(false);
        let after = sessions(&t.a).await;
        if before != 1 || after.iter().any(|s| s.2.get_status() == ActorStatus::Running) {
            bad.push(format!("node a could no longer send on the link (every write failed with BrokenPipe) but still lists a running session: {:?}", after.iter().map(|x| format!("{}->{:?}", x.0, x.1)).collect::<Vec<_>>()));
        }
        for px in &proxies {
            if px.get_status() != ActorStatus::Stopped {
                bad.push(format!("the link lost its send direction but the remote reference {} is {:?}", px.get_id(), px.get_status()));
            }
            let r: ActorRef<Wire> = px.clone().into();
            if r.cast(Wire::Note(99, "late".into())).is_ok() {
                bad.push(format!("a send to the remote reference {} was accepted after the link was lost", px.get_id()));
            }
        }
        if remote_members() != 0 {
            bad.push(format!("remote references are still group members after the link was lost: {:?}", ractor::pg::verif_snapshot().groups));
        }
        let key = format!("proxies={} sessions-after={}", proxies.len(), after.len());
        for n in [t.a, t.b] {
            n.server.stop(None);
            let _ = n.handle.await;
        }
        p.stop(None);
        let _ = ph.await;
        Outcome { key, violations: bad }
    })
}

pub fn c20_units(thorough: bool) -> Vec<Unit> {
    let cfg = cluster_cfg();
    let mut v = Vec::new();
    for read_limit in [0usize, 1, 7] {
        for ending in [Ending::None, Ending::OriginalStops, Ending::PipeCloses] {
            for abandon in [false, true] {
                let pick = thorough || matches!((read_limit, ending, abandon), (0, Ending::None, true) | (1, Ending::OriginalStops, false) | (7, Ending::PipeCloses, true) | (0, Ending::PipeCloses, false));
                if pick {
                    v.push(Unit::explore_split(
                        Job::new(format!("remote/read{read_limit}/{ending:?}/abandon={abandon}"), cfg.clone(), Some(if thorough { 2 } else { 1 }), c20_body(read_limit, ending, abandon)),
                        16,
                    ));
                }
            }
        }
    }
    // an actor spawned while the sessions are being set up (map-level decision points of the registries)
    let fine = ExecCfg {
        filter: Some(Arc::new(|k, l, t: &vsched::TaskInfo| k == vsched::PointKind::Map && matches!(l, "map.iter" | "map.insert" | "map.entry") && (t.role == "lib" || t.role == "racer"))),
        ..cfg.clone()
    };
    v.push(Unit::explore_split(Job::new("remote-spawn-race", fine, Some(if thorough { 2 } else { 1 }), c20_spawn_race_body(if thorough { 64 } else { 40 })), 16));
    // the actor stops itself while more casts are under way to it (map-level decision points)
    let fine2 = ExecCfg {
        filter: Some(Arc::new(|k, l, t: &vsched::TaskInfo| k == vsched::PointKind::Map && matches!(l, "map.get" | "map.remove" | "map.iter") && t.role == "lib")),
        ..cfg.clone()
    };
    v.push(Unit::explore_split(Job::new("remote-stop-race", fine2, Some(if thorough { 2 } else { 1 }), c20_stop_race_body(2)), 16));
    // a join under way while the joined actor stops (decision points inside the joiner's pg::join call)
    let fine3 = ExecCfg {
        filter: Some(Arc::new(|k, _l, t: &vsched::TaskInfo| matches!(k, vsched::PointKind::Map | vsched::PointKind::Lock | vsched::PointKind::Channel) && t.role == "joiner")),
        park_preempted: true,
        ..cfg.clone()
    };
    for kill in [false, true] {
        v.push(Unit::explore_split(Job::new(format!("remote-join-vs-exit/{}", if kill { "kill" } else { "stop" }), fine3.clone(), Some(if thorough { 2 } else { 1 }), c20_join_vs_exit_body(kill)), 8));
    }
    v.push(Unit::explore_split(Job::new("remote-leave-vs-rejoin".to_string(), fine3.clone(), Some(if thorough { 2 } else { 1 }), c20_leave_vs_rejoin_body()), 8));
    // the link loses its send direction only
    for leave in [false, true] {
        v.push(Unit::explore_split(Job::new(format!("remote-send-direction-lost/{}", if leave { "next-frame-is-a-leave" } else { "next-frame-is-a-join" }), cfg.clone(), Some(if thorough { 2 } else { 1 }), c20_send_direction_lost_body(leave)), 8));
    }
    // timed-out calls with transit time: (latency, think time of the real actor, pause before the next call)
    let mut late = vec![(30u64, 80u64, 5u64), (30, 80, 30), (20, 60, 5), (10, 120, 5)];
    if thorough {
        for lat in [5u64, 15, 25, 35, 45] {
            for think in [40u64, 60, 80, 100] {
                for pause in [1u64, 10, 20, 40] {
                    if !late.contains(&(lat, think, pause)) {
                        late.push((lat, think, pause));
                    }
                }
            }
        }
    }
    for (lat, think, pause) in late {
        v.push(Unit::explore_split(Job::new(format!("remote-late/lat{lat}/think{think}/pause{pause}"), cfg.clone(), Some(if thorough { 2 } else { 1 }), c20_late_body(lat, think, pause)), 4));
    }
    // frames that arrive in pieces with stalls of seconds in the middle
    for (rl, lat) in [(16usize, 1200u64), (7, 1100)] {
        let mut c = cfg.clone();
        c.max_virtual_ns = 150_000_000_000;
        v.push(Unit::explore(Job::new(format!("remote-trickle/read{rl}/every{lat}ms"), c, Some(if thorough { 1 } else { 0 }), c20_trickle_body(rl, lat))));
    }
    // an actor that is advertised (through the group it joins in pre_start) while it is still starting
    for instant in [false, true] {
        v.push(Unit::explore_split(Job::new(format!("remote-slow-start/{}", if instant { "instant" } else { "awaited" }), cfg.clone(), Some(if thorough { 2 } else { 1 }), c20_slow_start_body(instant)), 4));
    }
    v
}

#[allow(dead_code)]
pub fn unused(_: SerializedMessage) {}
